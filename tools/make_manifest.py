#!/venv/bin/python
"""Regenerate /verif/MANIFEST.json from the property registry."""
import json, sys
sys.path.insert(0, "/verif")
from ngslint import props
allp = [json.loads(l)["id"] for l in open("/verif/properties.jsonl")]
NA = {"C08": "the metadata generator's guarantees (key uniqueness, chunk-size compatibility of consecutive levels, the <=2-chunk stopping rule, isotropy tendency) are arithmetic facts over an unbounded numeric domain (floats through log2/round/format); no structural clause is both a necessary condition and not a frozen source fragment, so static analysis does not apply (DESIGN.md section 5)"}
checks = []
for pid in allp:
    if pid in NA:
        continue
    sp = props.PROPS[pid]
    checks.append({
        "property_id": pid,
        "quick_cmd": "/venv/bin/python -m ngslint check %s --tier quick" % pid,
        "thorough_cmd": "/venv/bin/python -m ngslint check %s --tier thorough" % pid,
        "evidence_file": "/verif/evidence/%s.json" % pid,
        "replay_cmd_template": "/venv/bin/python -m ngslint explain {path}",
        "engine": "ngslint",
        "level_claimed": {"category": "other", "text": sp.level_text, "design_ref": "DESIGN.md section 4 (%s)" % pid},
        "level_note": "Trusted base: CPython ast; the frozen tables of the checker (library effect table, exception hierarchy, NumPy promotion/cast tables, format specifications, role-name conventions, site tables). A pass means the listed necessary structural conditions hold on every path of the current source, not that the behavioural property is established. Thorough tier additionally re-validates the rules on seeded breaking variants and benign twins of the current tree (checker self-validation).",
        "technique": "static analysis: " + sp.technique,
    })
m = {"version": 1,
     "setup_cmd": "/venv/bin/python -m compileall -q /verif/ngslint",
     "hooks": {"guard": "NEUROGLANCER_SCRIPTS_VERIF", "enable": "none: the checks are static (they parse /repo's working tree with ast and never import or execute it), so no hook or instrumentation exists in /repo", "baseline_off_cmd": "/verif/tools/run_suite.py /repo", "source_commits": [], "add_only": True},
     "engines": [{"name": "ngslint", "path": "/verif/ngslint", "serves_properties": [c["property_id"] for c in checks], "kind_free_text": "repository-specific static analyser (pure stdlib: ast program model, statement CFG + dominators, def-use, guard semantics, taint with discharge idioms, axis-role typing, integer-expression normaliser, dtype-lattice interpreter, format-specification tables)"}],
     "checks": checks,
     "notes": "Static analysis only (see DESIGN.md). Exit 0 = decided clauses hold (KNOWN-FINDING lines for entries of known_findings.json), 1 = VIOLATION, 2 = ANALYSIS-ERROR (anchor vanished / checker broken). Genuine defects found were repaired in /repo by 'fix:' commits, recorded in known_findings.json.",
     "not_applicable": [{"property_id": k, "reason": v} for k, v in NA.items()]}
json.dump(m, open("/verif/MANIFEST.json", "w"), indent=1)
print("checks:", len(checks), "n/a:", len(NA))
