#!/venv/bin/python
"""Record the module-level function and class names of the reference tree
(/repo as it is now), per module, in ngslint/vocab.json.  The rules are
written against these names; a package function that is *not* in the
vocabulary is a helper introduced by a later change, and the analysis follows
calls to it across modules (see core.resolve_local_call).  Run only when the
reference tree changes."""
import json, os, sys
sys.path.insert(0, "/verif")
from ngslint.core import Repo
repo = Repo(os.environ.get("NGS_REPO", "/repo"))
out = {}
for m in repo.modules.values():
    names = set()
    for f in m.functions.values():
        if f.cls is None and f.parent is None:
            names.add(f.qualname)
    names |= set(m.classes)
    out[m.name] = sorted(names)
json.dump(out, open("/verif/ngslint/vocab.json", "w"), indent=0, sort_keys=True)
print(len(out), "modules", sum(len(v) for v in out.values()), "names")
