#!/venv/bin/python
"""Record the function and class names of the reference tree (/repo as it is
now) in ngslint/vocab.json.  The rules are written against these names; a
package function that is *not* in the vocabulary is a helper introduced by a
later change, and the analysis follows calls to it across modules (see
core.resolve_local_call).  Run only when the reference tree changes."""
import json, os, sys
sys.path.insert(0, "/verif")
from ngslint.core import Repo
repo = Repo(os.environ.get("NGS_REPO", "/repo"))
names = set()
for m in repo.modules.values():
    for f in m.functions.values():
        names.add(f.qualname.split(".")[-1])
    for c in m.classes.values():
        names.add(c.name)
json.dump(sorted(names), open("/verif/ngslint/vocab.json", "w"), indent=0)
print(len(names), "names")
