#!/venv/bin/python
"""Print the prompt given to an independent sub-agent that seeds a breaking change
for one property.  usage: agent_prompt.py Cxx <scratch_root>"""
import json, sys
pid, root = sys.argv[1], sys.argv[2]
rec = next(json.loads(l) for l in open("/verif/properties.jsonl") if json.loads(l)["id"] == pid)
wt, out = f"{root}/wt-{pid}", f"{root}/out-{pid}"
print(f"""You are helping to test a verification effort by seeding realistic defects into a Python project.

Working tree: {wt} — a scratch git worktree of HumanBrainProject/neuroglancer-scripts (Python CLI/library converting neuroimaging volumes and meshes to Neuroglancer precomputed format). Edit ONLY inside {wt} and write results ONLY under {out}. Never touch /repo and never read or touch /verif. Interpreter: /venv/bin/python (has numpy, nibabel, PIL, skimage, requests, requests_mock, pytest). Always run code with PYTHONPATH={wt}/src so that the worktree's package is imported. The existing test suite is checked with `{root}/run_suite.py {wt}` which must print `stable_pass: 340/340` (it takes ~10 s).

This behavioural property is supposed to hold for the project:

{json.dumps(rec, indent=1)}

Task: produce TWO independent, different source changes (each a separate patch against the clean worktree, touching files under src/ only, never the tests), each of which BREAKS this property while the package still imports/compiles and the existing test suite, unedited, still passes 340/340. Make them realistic — something a developer's refactor, optimisation, clean-up or feature tweak could plausibly introduce — and subtle: each should need something specific to manifest (an unusual input or configuration, a particular sequence of operations, a fault or interruption at a particular point, or two cooperating sites that each look fine alone), not something ordinary use would expose at once. Use different mechanisms and, where the property's anchors allow, different functions or files for the two.

For each change k in (1, 2) write into {out}/k/ :
 - patch.diff : `git diff` against HEAD (must apply with `git apply` on the clean tree)
 - demo.py : standalone script run as `PYTHONPATH=<tree>/src /venv/bin/python demo.py`; prints PASS and exits 0 on the clean tree; prints FAIL (with a short reason) and exits 1 on the changed tree. No network. Temporary files only under a tempfile.mkdtemp(prefix="ngs-demo.") directory that it removes itself.
 - meta.json : {{"property": "{pid}", "summary": what was changed, "needs": what is needed for it to manifest, "files": [changed files], "why_tests_pass": ...}}
Verify yourself before finishing: demo passes on the clean tree; with the patch applied the demo fails and run_suite.py prints 340/340. Leave the worktree clean at the end (`git checkout -- .`, `git status` clean, no stray files). Do not create files anywhere else. Your final reply: about five lines per change (what, where, what it needs to manifest, verification results).""")
