#!/venv/bin/python
"""Validate `repaired.diff` twins of seeded refactoring+defect changes.

usage: validate_repaired.py <root with out-Cxx/<k>/{repaired.diff,demo.py}> <out_root>
For each: fresh scratch worktree of /repo HEAD, repaired.diff must apply, the
breaking change's demo must PASS (exit 0) and the pinned suite must pass.  The
validated ones are copied to <out_root>/out-Cxx/<k>/patch.diff (+ meta.json)
in the layout tools/check_benign.py expects.
"""
import glob, json, os, subprocess, sys, tempfile, shutil
from concurrent.futures import ThreadPoolExecutor

root, out_root = sys.argv[1], sys.argv[2]
scratch = tempfile.mkdtemp(prefix="ngs-valr.")

def sh(cmd, **kw):
    return subprocess.run(cmd, stdout=subprocess.PIPE, stderr=subprocess.STDOUT, text=True, **kw)

def one(cdir):
    name = os.path.relpath(cdir, root).replace("out-", "").replace("/", "-")
    wt = os.path.join(scratch, "wt-" + name)
    res = {"id": name}
    try:
        r = sh(["git", "-C", "/repo", "worktree", "add", "-q", "--detach", wt, "HEAD"])
        if r.returncode:
            res["error"] = r.stdout[-200:]; return res
        env = dict(os.environ, PYTHONPATH=os.path.join(wt, "src"), TMPDIR=os.path.join(scratch, "tmp-" + name))
        os.makedirs(env["TMPDIR"], exist_ok=True)
        r = sh(["git", "-C", wt, "apply", os.path.join(cdir, "repaired.diff")])
        res["apply_rc"] = r.returncode
        if r.returncode:
            res["error"] = r.stdout[-300:]; return res
        r = sh(["/venv/bin/python", os.path.join(cdir, "demo.py")], env=env, cwd=wt, timeout=900)
        res["demo_rc"] = r.returncode
        r = sh(["/verif/tools/run_suite.py", wt], env=dict(os.environ, TMPDIR=env["TMPDIR"]), timeout=900)
        res["suite"] = r.stdout.strip().splitlines()[0] if r.stdout.strip() else ""
        res["suite_rc"] = r.returncode
        res["ok"] = res["demo_rc"] == 0 and res["suite_rc"] == 0
        if res["ok"]:
            dst = os.path.join(out_root, os.path.relpath(cdir, root))
            os.makedirs(dst, exist_ok=True)
            shutil.copy(os.path.join(cdir, "repaired.diff"), os.path.join(dst, "patch.diff"))
            meta = {}
            for f in ("meta.json", "repaired.json"):
                p = os.path.join(cdir, f)
                if os.path.exists(p):
                    try:
                        meta[f[:-5]] = json.load(open(p))
                    except Exception:
                        pass
            json.dump({"summary": "refactoring of seeded change %s with the defect repaired" % name,
                       "twin_of": name, "details": meta}, open(os.path.join(dst, "meta.json"), "w"), indent=1)
        return res
    except Exception as e:
        res["error"] = repr(e); return res
    finally:
        sh(["git", "-C", "/repo", "worktree", "remove", "--force", wt])
        shutil.rmtree(os.path.join(scratch, "tmp-" + name), ignore_errors=True)

cands = sorted(c for c in glob.glob(os.path.join(root, "out-C*", "[0-9]"))
               if os.path.exists(os.path.join(c, "repaired.diff")))
with ThreadPoolExecutor(6) as ex:
    results = list(ex.map(one, cands))
shutil.rmtree(scratch, ignore_errors=True)
for r in results:
    print(r["id"], "OK" if r.get("ok") else "NOT-OK", {k: r.get(k) for k in ("apply_rc", "demo_rc", "suite", "error")})
