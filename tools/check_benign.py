#!/venv/bin/python
"""Run every property check on scratch copies of /repo with each benign
(behaviour-preserving) refactoring applied; report any alarm.

usage: check_benign.py <root containing out-*/<k>/patch.diff> [--install]
With --install, refactorings that every check stays silent on are stored under
/verif/seeded/benign-<id>/ and become benign twins of the self-validation."""
import glob, json, os, shutil, subprocess, sys, tempfile
sys.path.insert(0, "/verif")
os.environ["NGS_NO_EVIDENCE"] = "1"
from ngslint import props, selftest
from ngslint.core import AnalysisError

root = sys.argv[1]
install = "--install" in sys.argv
alarms = 0
for cdir in sorted(glob.glob(os.path.join(root, "out-*", "[0-9]"))):
    cid = os.path.relpath(cdir, root).replace("out-", "").replace("/", "-")
    patch = os.path.join(cdir, "patch.diff")
    if not os.path.exists(patch):
        continue
    d = tempfile.mkdtemp(prefix="ngs-benign.")
    try:
        shutil.copytree("/repo/src", os.path.join(d, "src"))
        p = subprocess.run(["patch", "-p1", "-s", "--no-backup-if-mismatch", "-d", d],
                           input=open(patch, "rb").read(), stdout=subprocess.PIPE, stderr=subprocess.STDOUT)
        if p.returncode != 0:
            print(cid, "PATCH DOES NOT APPLY")
            continue
        res = {}
        for pid in sorted(props.PROPS):
            try:
                v = selftest._new_violations(pid, d)
                if v:
                    res[pid] = sorted({"%s @ %s :: %s" % (o.rule, o.site, o.construct[:60]) for o in v})
            except AnalysisError as exc:
                res[pid] = ["ANALYSIS-ERROR: %s" % exc]
            except Exception as exc:
                res[pid] = ["CHECKER CRASH: %r" % exc]
        if res:
            alarms += 1
            print(cid, "ALARM")
            for k, v in res.items():
                for x in v:
                    print("    ", k, x[:230])
        else:
            print(cid, "silent")
            if install:
                dst = os.path.join("/verif/seeded", "benign-" + os.environ.get("SEED_TAG", "") + cid)
                os.makedirs(dst, exist_ok=True)
                shutil.copy(patch, os.path.join(dst, "patch.diff"))
                for f in ("check.py",):
                    if os.path.exists(os.path.join(cdir, f)):
                        shutil.copy(os.path.join(cdir, f), os.path.join(dst, f))
                meta = json.load(open(os.path.join(cdir, "meta.json"))) if os.path.exists(os.path.join(cdir, "meta.json")) else {}
                meta.update({"kind": "benign", "origin": "independent sub-agent asked for a behaviour-preserving refactoring",
                             "expected_silent": sorted(props.PROPS)})
                json.dump(meta, open(os.path.join(dst, "meta.json"), "w"), indent=1)
    finally:
        shutil.rmtree(d)
print("alarms:", alarms)
