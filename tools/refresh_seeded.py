#!/venv/bin/python
"""Recompute `detected_by` / `expected_detection` of every seeded breaking
change from /verif/seeded/<id>/{patch.diff,meta.json} alone (no validation
files needed).  Benign and reverse-fix entries are left to their own tools.
usage: refresh_seeded.py [id ...]"""
import glob, json, os, shutil, subprocess, sys, tempfile
from concurrent.futures import ProcessPoolExecutor
sys.path.insert(0, "/verif")
os.environ["NGS_NO_EVIDENCE"] = "1"


def one(meta_path):
    from ngslint import props, selftest
    from ngslint.core import AnalysisError
    sd = os.path.dirname(meta_path)
    meta = json.load(open(meta_path))
    if meta.get("kind") == "benign" or os.path.basename(sd).startswith("fixrev-"):
        return None
    d = tempfile.mkdtemp(prefix="ngs-refresh.")
    try:
        shutil.copytree("/repo/src", os.path.join(d, "src"))
        p = subprocess.run(["patch", "-p1", "-s", "-d", d],
                           input=open(os.path.join(sd, "patch.diff"), "rb").read(),
                           stdout=subprocess.PIPE, stderr=subprocess.STDOUT)
        if p.returncode != 0:
            return (os.path.basename(sd), None, "patch does not apply")
        detected = {}
        for pid in sorted(props.PROPS):
            try:
                v = selftest._new_violations(pid, d)
                if v:
                    detected[pid] = sorted({o.rule for o in v})
            except AnalysisError:
                detected[pid] = ["ANALYSIS-ERROR"]
    finally:
        shutil.rmtree(d, ignore_errors=True)
    own = meta.get("property")
    meta["detected_by"] = detected
    meta["detected_by_own_property_check"] = own in detected
    meta["expected_detection"] = {k: v for k, v in detected.items()
                                  if v != ["ANALYSIS-ERROR"]}
    json.dump(meta, open(meta_path, "w"), indent=1)
    return (os.path.basename(sd), own in detected, sorted(detected))


if __name__ == "__main__":
    only = set(sys.argv[1:])
    metas = [m for m in sorted(glob.glob("/verif/seeded/*/meta.json"))
             if not only or os.path.basename(os.path.dirname(m)) in only]
    with ProcessPoolExecutor(max_workers=16) as ex:
        res = [r for r in ex.map(one, metas) if r is not None]
    for r in res:
        print(*r)
    print("own-detected: %d / %d" % (sum(1 for r in res if r[1]), len(res)))
