#!/venv/bin/python
"""Run the repository's pinned suite on a tree and compare with BASELINE.json.

usage: run_suite.py [repo_dir]   (default /repo)
Exit 0 iff every stable_pass test of the baseline passes.  Not a check: a
maintenance helper used when making fix: commits and validating seeded changes.
"""
import json, os, subprocess, sys, tempfile
import xml.etree.ElementTree as ET

def main():
    repo = sys.argv[1] if len(sys.argv) > 1 else "/repo"
    base = json.load(open("/root/.vp/BASELINE.json"))
    stable = set(base["stable_pass"])
    d = tempfile.mkdtemp(prefix="ngs-suite.")
    xml = os.path.join(d, "r.xml")
    env = dict(os.environ)
    if repo != "/repo":
        env["PYTHONPATH"] = os.path.join(repo, "src")
    p = subprocess.run(["/venv/bin/python", "-m", "pytest", "-q", "-p", "no:cacheprovider",
                        "--timeout=900", "--continue-on-collection-errors",
                        "--junitxml=" + xml], cwd=repo, env=env,
                       stdout=subprocess.PIPE, stderr=subprocess.STDOUT, text=True)
    passed = set()
    for tc in ET.parse(xml).getroot().iter("testcase"):
        name = tc.get("classname") + "::" + tc.get("name")
        if not any(c.tag in ("failure", "error", "skipped") for c in tc):
            passed.add(name)
    missing = sorted(stable - passed)
    import shutil; shutil.rmtree(d)
    print(f"stable_pass: {len(stable & passed)}/{len(stable)}; extra passing: {len(passed - stable)}")
    for m in missing[:20]:
        print("  NOT PASSING:", m)
    if missing:
        print(p.stdout[-3000:])
    return 1 if missing else 0

sys.exit(main())
