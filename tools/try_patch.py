#!/venv/bin/python
"""Run checks against a scratch copy of /repo's working tree with a patch applied.

usage: try_patch.py [-R] <patch.diff|commit:SHA> <Cxx> [Cxx ...]
  -R            apply the patch in reverse (e.g. to undo a fix: commit)
  commit:SHA    use `git -C /repo show SHA` as the patch
The copy lives under a mkdtemp directory that is removed afterwards.
"""
import os, shutil, subprocess, sys, tempfile

def main():
    args = sys.argv[1:]
    rev = False
    if args and args[0] == "-R":
        rev = True
        args = args[1:]
    patch, props = args[0], args[1:]
    d = tempfile.mkdtemp(prefix="ngs-try.")
    try:
        shutil.copytree("/repo/src", os.path.join(d, "src"))
        if patch.startswith("commit:"):
            data = subprocess.run(["git", "-C", "/repo", "show", patch[7:]],
                                  stdout=subprocess.PIPE, check=True).stdout
        else:
            data = open(patch, "rb").read()
        cmd = ["patch", "-p1", "-s", "-d", d] + (["-R"] if rev else [])
        p = subprocess.run(cmd, input=data, stdout=subprocess.PIPE, stderr=subprocess.STDOUT)
        if p.returncode != 0:
            print("PATCH FAILED:", p.stdout.decode()[:500])
            return 3
        env = dict(os.environ, NGS_REPO=d, NGS_NO_EVIDENCE="1")
        rc = 0
        for pr in props:
            r = subprocess.run(["/venv/bin/python", "-m", "ngslint", "check", pr],
                               cwd="/verif", env=env, stdout=subprocess.PIPE,
                               stderr=subprocess.STDOUT, text=True)
            lines = [l for l in r.stdout.splitlines()
                     if l.startswith(("VIOLATION", "  ", "ANALYSIS", "UNDECIDED"))]
            print("== %s exit=%d" % (pr, r.returncode))
            for l in lines[:12]:
                print(l[:300])
            rc = max(rc, r.returncode)
        return rc
    finally:
        shutil.rmtree(d)

sys.exit(main())
