#!/venv/bin/python
"""For every fix: commit of /repo store the reverse patch under
/verif/seeded/fixrev-<sha>/ (re-introduces the repaired defect on today's tree)
and record which checks report it."""
import json, os, shutil, subprocess, sys, tempfile
sys.path.insert(0, "/verif")
os.environ["NGS_NO_EVIDENCE"] = "1"
from ngslint import props, selftest
from ngslint.core import AnalysisError

log = subprocess.run(["git", "-C", "/repo", "log", "--format=%h %s", "558ceb5..HEAD"],
                     stdout=subprocess.PIPE, text=True).stdout.strip().splitlines()
for line in log:
    sha, subj = line.split(" ", 1)
    if not subj.startswith("fix:"):
        continue
    rev = subprocess.run(["git", "-C", "/repo", "diff", sha, sha + "^", "--", "src"],
                         stdout=subprocess.PIPE).stdout
    d = tempfile.mkdtemp(prefix="ngs-fixrev.")
    try:
        shutil.copytree("/repo/src", os.path.join(d, "src"))
        p = subprocess.run(["patch", "-p1", "-s", "--no-backup-if-mismatch", "-d", d], input=rev,
                           stdout=subprocess.PIPE, stderr=subprocess.STDOUT)
        if p.returncode != 0:
            print(sha, "reverse patch does not apply on HEAD (later fix touches the same lines)")
            continue
        # refreshed reverse patch against HEAD
        detected = {}
        for pid in sorted(props.PROPS):
            try:
                v = selftest._new_violations(pid, d)
                if v:
                    detected[pid] = sorted({o.rule for o in v})
            except AnalysisError:
                detected[pid] = ["ANALYSIS-ERROR"]
    finally:
        shutil.rmtree(d)
    dst = "/verif/seeded/fixrev-" + sha
    os.makedirs(dst, exist_ok=True)
    open(os.path.join(dst, "patch.diff"), "wb").write(rev)
    json.dump({"property": sorted(detected), "summary": "reverse of /repo commit %s (%s): re-introduces the repaired defect" % (sha, subj),
               "needs": "see the commit message and /verif/findings", "origin": "reverse of a fix: commit",
               "detected_by": detected,
               "expected_detection": {k: v for k, v in detected.items() if v != ["ANALYSIS-ERROR"]}},
              open(os.path.join(dst, "meta.json"), "w"), indent=1)
    print(sha, subj[:60], "->", detected)
