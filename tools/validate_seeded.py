#!/venv/bin/python
"""Validate candidate seeded changes against /repo's HEAD in scratch worktrees.

usage: validate_seeded.py <candidates_root> <out_json>
  candidates_root contains out-Cxx/<k>/{patch.diff,demo.py,meta.json}
For each candidate: fresh worktree of /repo HEAD (outside /repo and /verif);
demo on the clean tree must exit 0; patch must apply; demo on the patched tree
must exit non-zero; the pinned suite must still show every stable test passing.
Worktrees are removed as soon as each candidate is done.
"""
import glob, json, os, subprocess, sys, tempfile, shutil
from concurrent.futures import ThreadPoolExecutor

root, out = sys.argv[1], sys.argv[2]
scratch = tempfile.mkdtemp(prefix="ngs-val.")

def sh(cmd, **kw):
    return subprocess.run(cmd, stdout=subprocess.PIPE, stderr=subprocess.STDOUT, text=True, **kw)

def one(cdir):
    name = os.path.relpath(cdir, root).replace("out-", "").replace("/", "-")
    tag = os.environ.get("SEED_TAG")
    if tag:
        a, b = name.rsplit("-", 1)
        name = "%s-%s-%s" % (a, tag, b)
    wt = os.path.join(scratch, "wt-" + name)
    res = {"id": name, "dir": cdir}
    try:
        r = sh(["git", "-C", "/repo", "worktree", "add", "-q", "--detach", wt, "HEAD"])
        if r.returncode:
            res["error"] = "worktree: " + r.stdout[-200:]; return res
        env = dict(os.environ, PYTHONPATH=os.path.join(wt, "src"), TMPDIR=os.path.join(scratch, "tmp-" + name))
        os.makedirs(env["TMPDIR"], exist_ok=True)
        demo = os.path.join(cdir, "demo.py")
        r = sh(["/venv/bin/python", demo], env=env, cwd=wt, timeout=600)
        res["clean_demo_rc"] = r.returncode; res["clean_demo_tail"] = r.stdout[-300:]
        r = sh(["git", "-C", wt, "apply", os.path.join(cdir, "patch.diff")])
        res["apply_rc"] = r.returncode
        if r.returncode:
            r2 = sh(["git", "-C", wt, "apply", "--3way", os.path.join(cdir, "patch.diff")])
            res["apply_3way_rc"] = r2.returncode; res["apply_msg"] = (r.stdout + r2.stdout)[-300:]
            if r2.returncode:
                return res
        r = sh(["/venv/bin/python", demo], env=env, cwd=wt, timeout=600)
        res["patched_demo_rc"] = r.returncode; res["patched_demo_tail"] = r.stdout[-300:]
        r = sh(["/verif/tools/run_suite.py", wt], env=dict(os.environ, TMPDIR=env["TMPDIR"]), timeout=900)
        res["suite"] = r.stdout.strip().splitlines()[0] if r.stdout.strip() else ""
        res["suite_rc"] = r.returncode
        # refreshed patch against current HEAD
        sh(["git", "-C", wt, "add", "-N", "--", "src"])   # new modules too
        d = sh(["git", "-C", wt, "diff", "HEAD", "--", "src"])
        res["patch_vs_head"] = d.stdout
        res["ok"] = (res["clean_demo_rc"] == 0 and res["patched_demo_rc"] != 0 and res["suite_rc"] == 0)
        return res
    except Exception as e:
        res["error"] = repr(e); return res
    finally:
        sh(["git", "-C", "/repo", "worktree", "remove", "--force", wt])
        shutil.rmtree(os.path.join(scratch, "tmp-" + name), ignore_errors=True)

cands = sorted(glob.glob(os.path.join(root, "out-C*", "[0-9]")))
with ThreadPoolExecutor(6) as ex:
    results = list(ex.map(one, cands))
shutil.rmtree(scratch, ignore_errors=True)
json.dump(results, open(out, "w"), indent=1)
for r in results:
    print(r["id"], "OK" if r.get("ok") else "NOT-OK", {k: r.get(k) for k in ("clean_demo_rc", "apply_rc", "apply_3way_rc", "patched_demo_rc", "suite", "error")})
