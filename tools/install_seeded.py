#!/venv/bin/python
"""Install validated seeded changes under /verif/seeded/<id>/ and record which
checks report them.  usage: install_seeded.py <validation.json> [id ...]"""
import json, os, shutil, subprocess, sys, tempfile
sys.path.insert(0, "/verif")
os.environ["NGS_NO_EVIDENCE"] = "1"
from ngslint import props, selftest
from ngslint.core import AnalysisError

val = json.load(open(sys.argv[1]))
only = set(sys.argv[2:])
for r in val:
    if only and r["id"] not in only:
        continue
    if not r.get("ok"):
        print(r["id"], "skipped (not validated)")
        continue
    dst = os.path.join("/verif/seeded", r["id"])
    os.makedirs(dst, exist_ok=True)
    open(os.path.join(dst, "patch.diff"), "w").write(r["patch_vs_head"])
    shutil.copy(os.path.join(r["dir"], "demo.py"), os.path.join(dst, "demo.py"))
    meta = json.load(open(os.path.join(r["dir"], "meta.json")))
    # detection
    d = tempfile.mkdtemp(prefix="ngs-inst.")
    try:
        shutil.copytree("/repo/src", os.path.join(d, "src"))
        p = subprocess.run(["patch", "-p1", "-s", "-d", d], input=r["patch_vs_head"].encode(),
                           stdout=subprocess.PIPE, stderr=subprocess.STDOUT)
        assert p.returncode == 0, p.stdout
        detected, undecided = {}, {}
        for pid in sorted(props.PROPS):
            try:
                v = selftest._new_violations(pid, d)
                if v:
                    detected[pid] = sorted({o.rule for o in v})
            except AnalysisError as exc:
                detected[pid] = ["ANALYSIS-ERROR"]
    finally:
        shutil.rmtree(d)
    own = meta.get("property") or r["id"].split("-")[0]
    meta_out = {
        "property": own,
        "summary": meta.get("summary"),
        "needs": meta.get("needs"),
        "files": meta.get("files"),
        "why_tests_pass": meta.get("why_tests_pass"),
        "origin": "independent sub-agent given only the property text and a scratch worktree",
        "validated": {
            "what_i_ran": "tools/validate_seeded.py: fresh worktree of /repo HEAD; demo.py on the clean tree; git apply patch.diff; demo.py on the patched tree; tools/run_suite.py on the patched tree",
            "clean_demo_exit": r["clean_demo_rc"], "patched_demo_exit": r["patched_demo_rc"],
            "patched_demo_output_tail": r["patched_demo_tail"][-200:], "suite": r["suite"]},
        "detected_by": detected,
        "detected_by_own_property_check": own in detected,
        "expected_detection": {k: v for k, v in detected.items() if v != ["ANALYSIS-ERROR"]},
    }
    json.dump(meta_out, open(os.path.join(dst, "meta.json"), "w"), indent=1)
    print(r["id"], "own:", own in detected, detected)
