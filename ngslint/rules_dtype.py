"""E-DTYPE: the dtype converter and the averaging accumulator, decided by
interpreting their source over the finite NumPy dtype lattice.

The interpreter below is *not* NumPy: it evaluates the handful of dtype
functions the code uses from embedded tables (NumPy's documented promotion /
safe-cast rules), for each concrete (input, output) pair, following whatever
assignments and branches the current source has.  Anything it does not know
makes the pair UNDECIDED, never a violation."""
import ast

from .core import AnalysisError, PKG, dotted, norm, stmts_of, kwarg

IN_TYPES = ["i1", "i2", "i4", "i8", "u1", "u2", "u4", "u8", "f4", "f8"]
OUT_TYPES = ["u1", "u2", "u4", "u8", "f4"]
NAMES = {"int8": "i1", "int16": "i2", "int32": "i4", "int64": "i8",
         "uint8": "u1", "uint16": "u2", "uint32": "u4", "uint64": "u8",
         "float32": "f4", "float64": "f8", "float": "f8", "double": "f8",
         "single": "f4"}
LONG = {v: k for k, v in NAMES.items() if k not in ("float", "double",
                                                    "single")}
MANT = {"f4": 24, "f8": 53}
EMAX = {"f4": 128, "f8": 1024}


def kind(d):
    return d[0]


def size(d):
    return int(d[1:])


def irange(d):
    n = 8 * size(d)
    if kind(d) == "u":
        return 0, 2 ** n - 1
    return -2 ** (n - 1), 2 ** (n - 1) - 1


def promote(a, b):
    if a == b:
        return a
    ka, kb, na, nb = kind(a), kind(b), size(a), size(b)
    if ka == "f" and kb == "f":
        return "f%d" % max(na, nb)
    if ka == "f" or kb == "f":
        nf, ni = (na, nb) if ka == "f" else (nb, na)
        need = 4 if ni <= 2 else 8
        return "f%d" % max(nf, need)
    if ka == kb:
        return ka + str(max(na, nb))
    nu, ni = (na, nb) if ka == "u" else (nb, na)
    if ni > nu:
        return "i%d" % ni
    if nu >= 8:
        return "f8"
    return "i%d" % (nu * 2)


def can_cast_safe(a, b):
    if a == b:
        return True
    ka, kb, na, nb = kind(a), kind(b), size(a), size(b)
    if ka == "f":
        return kb == "f" and nb >= na
    if kb == "f":
        return (na <= 2 and nb >= 4) or nb >= 8
    if ka == kb:
        return nb >= na
    if ka == "u" and kb == "i":
        return nb > na
    return False


def exactly_representable(value, d):
    if kind(d) != "f":
        lo, hi = irange(d)
        return lo <= value <= hi and value == int(value)
    if isinstance(value, float):
        return True
    if value == 0:
        return True
    v = abs(int(value))
    while v % 2 == 0:
        v //= 2
    return v.bit_length() <= MANT[d]


def holds_all_values_of(w, d):
    """dtype w represents every value of dtype d exactly."""
    if w == d:
        return True
    if kind(d) == "f":
        return kind(w) == "f" and size(w) >= size(d)
    lo, hi = irange(d)
    if kind(w) != "f":
        wl, wh = irange(w)
        return wl <= lo and hi <= wh
    return exactly_representable(lo, w) and exactly_representable(hi, w) and \
        max(abs(lo), abs(hi)).bit_length() <= MANT[w]


class Undecided(Exception):
    pass


class DT:
    """A dtype value inside the interpreter."""

    def __init__(self, code):
        self.code = code

    def __eq__(self, o):
        return isinstance(o, DT) and o.code == self.code

    def __hash__(self):
        return hash(self.code)

    def __repr__(self):
        return LONG.get(self.code, self.code)


class IInfo:
    def __init__(self, d):
        self.min, self.max = irange(d.code)


class Arr:
    def __init__(self, dtype, fresh=False):
        self.dtype = dtype
        self.events = []


class Unknown:
    pass


class Record:
    """A namedtuple value: fields by name, and the class that may add
    properties."""

    def __init__(self, fields, cls=None):
        self.fields = fields
        self.cls = cls


UNKNOWN = Unknown()
ABSTRACT_KINDS = {"integer": "iu", "signedinteger": "i", "unsignedinteger": "u",
                  "floating": "f", "number": "iuf", "inexact": "f"}


class Interp:
    def __init__(self, module):
        self.module = module
        self.closures = {}

    def resolve(self, node):
        d = dotted(node)
        return self.module.resolve(d) if d else None

    def ev(self, node, env):
        if isinstance(node, ast.Constant):
            return node.value
        if isinstance(node, ast.Name):
            if node.id in env:
                return env[node.id]
            if node.id in ("True", "False", "None"):
                return {"True": True, "False": False, "None": None}[node.id]
            raise Undecided("name %s" % node.id)
        if isinstance(node, ast.Attribute):
            full = self.resolve(node)
            if full and full.startswith("numpy."):
                nm = full[6:]
                if nm in NAMES:
                    return DT(NAMES[nm])
                if nm in ABSTRACT_KINDS:
                    return ("abstract", ABSTRACT_KINDS[nm])
                raise Undecided(full)
            base = self.ev(node.value, env)
            if isinstance(base, IInfo) and node.attr in ("min", "max"):
                return getattr(base, node.attr)
            if isinstance(base, DT):
                if node.attr == "kind":
                    return kind(base.code)
                if node.attr == "itemsize":
                    return size(base.code)
                if node.attr == "name":
                    return LONG[base.code]
                if node.attr == "type":
                    return ("scalar-type", base)
            if isinstance(base, Record):
                if node.attr in base.fields:
                    return base.fields[node.attr]
                if base.cls is not None:
                    for cc in self.module.repo.mro(base.cls):
                        pf = cc.methods.get(node.attr)
                        if pf is not None and any(
                                "property" in norm(d)
                                for d in pf.node.decorator_list):
                            e2 = {pf.params[0]: base} if pf.params else {}
                            self._depth = getattr(self, "_depth", 0) + 1
                            try:
                                if self._depth > 4:
                                    raise Undecided("recursion")
                                self._block(pf.node.body, e2)
                            finally:
                                self._depth -= 1
                            return e2.get("<return>")
            if isinstance(base, Arr) and node.attr == "dtype":
                return base.dtype
            if isinstance(base, Arr) and node.attr == "flags":
                return ("flags", base)
            if isinstance(base, tuple) and base and base[0] == "flags":
                return UNKNOWN
            raise Undecided("attribute %s" % norm(node))
        if isinstance(node, ast.BoolOp):
            vals = [self.ev(v, env) for v in node.values]
            if isinstance(node.op, ast.And):
                if any(v is False for v in vals):
                    return False
                if any(v is UNKNOWN for v in vals):
                    return UNKNOWN
                return vals[-1]
            if any(v is True for v in vals):
                return True
            if any(v is UNKNOWN for v in vals):
                return UNKNOWN
            return vals[-1]
        if isinstance(node, ast.UnaryOp):
            v = self.ev(node.operand, env)
            if isinstance(node.op, ast.Not):
                return UNKNOWN if v is UNKNOWN else (not v)
            if isinstance(node.op, ast.USub):
                return -v
            raise Undecided(norm(node))
        if isinstance(node, ast.IfExp):
            t = self.ev(node.test, env)
            if t is UNKNOWN:
                raise Undecided("unknown condition %s" % norm(node.test))
            return self.ev(node.body if t else node.orelse, env)
        if isinstance(node, ast.Compare) and len(node.ops) == 1:
            l, r = self.ev(node.left, env), self.ev(node.comparators[0], env)
            if l is UNKNOWN or r is UNKNOWN:
                return UNKNOWN
            op = node.ops[0]
            try:
                if isinstance(op, ast.Eq):
                    return l == r
                if isinstance(op, ast.NotEq):
                    return l != r
                if isinstance(op, ast.Lt):
                    return l < r
                if isinstance(op, ast.LtE):
                    return l <= r
                if isinstance(op, ast.Gt):
                    return l > r
                if isinstance(op, ast.GtE):
                    return l >= r
                if isinstance(op, ast.In):
                    return l in r
                if isinstance(op, ast.NotIn):
                    return l not in r
                if isinstance(op, ast.Is):
                    return l is r
                if isinstance(op, ast.IsNot):
                    return l is not r
            except TypeError:
                raise Undecided(norm(node))
        if isinstance(node, ast.BinOp):
            l, r = self.ev(node.left, env), self.ev(node.right, env)
            try:
                if isinstance(node.op, ast.Add):
                    return l + r
                if isinstance(node.op, ast.Sub):
                    return l - r
                if isinstance(node.op, ast.Mult):
                    return l * r
                if isinstance(node.op, ast.Pow):
                    return l ** r
                if isinstance(node.op, ast.FloorDiv):
                    return l // r
            except TypeError:
                pass
            raise Undecided(norm(node))
        if isinstance(node, (ast.Tuple, ast.List)):
            return tuple(self.ev(e, env) for e in node.elts)
        if isinstance(node, ast.Call):
            return self.call(node, env)
        raise Undecided(norm(node))

    def as_dt(self, v):
        if isinstance(v, DT):
            return v
        if isinstance(v, str) and v.lstrip("<>=|") in NAMES:
            return DT(NAMES[v.lstrip("<>=|")])
        if isinstance(v, str) and v.lstrip("<>=|") in IN_TYPES:
            return DT(v.lstrip("<>=|"))
        if isinstance(v, Arr):
            return v.dtype
        raise Undecided("not a dtype: %r" % (v,))

    def call(self, node, env):
        full = self.resolve(node.func)
        args = node.args
        if full == "numpy.dtype":
            return self.as_dt(self.ev(args[0], env))
        if full in ("numpy.promote_types", "numpy.result_type"):
            a, b = (self.as_dt(self.ev(x, env)) for x in args[:2])
            return DT(promote(a.code, b.code))
        if full == "numpy.issubdtype":
            a = self.as_dt(self.ev(args[0], env))
            b = self.ev(args[1], env)
            if isinstance(b, tuple) and b[0] == "abstract":
                return kind(a.code) in b[1]
            if isinstance(b, DT):
                return a == b
            raise Undecided(norm(node))
        if full == "numpy.can_cast":
            a, b = (self.as_dt(self.ev(x, env)) for x in args[:2])
            casting = kwarg(node, "casting")
            if casting is None and len(args) > 2:
                casting = args[2]
            cv = self.ev(casting, env) if casting is not None else "safe"
            if cv == "safe":
                return can_cast_safe(a.code, b.code)
            if cv in ("equiv", "no"):
                return a == b
            raise Undecided("casting=%r" % cv)
        if full == "numpy.iinfo":
            d = self.as_dt(self.ev(args[0], env))
            if kind(d.code) == "f":
                raise Undecided("iinfo of float")
            return IInfo(d)
        if full and (full.startswith("logging.") or ".logger." in full
                     or full.startswith("logger.")):
            return None
        if isinstance(node.func, ast.Attribute) and \
                isinstance(node.func.value, ast.Name) and \
                node.func.value.id == "logger":
            return None
        if full in ("min", "max") and args:
            vals = [self.ev(a, env) for a in args]
            return (min if full == "min" else max)(vals)
        if full in ("int", "float", "bool") and len(args) == 1:
            return {"int": int, "float": float, "bool": bool}[full](
                self.ev(args[0], env))
        if isinstance(node.func, ast.Attribute) and \
                node.func.attr == "newbyteorder":
            return self.ev(node.func.value, env)
        if isinstance(node.func, ast.Attribute) and node.func.attr == "type":
            raise Undecided(norm(node))
        fv = None
        if isinstance(node.func, ast.Attribute):
            try:
                fv = self.ev(node.func, env)
            except Undecided:
                fv = None
        if isinstance(fv, tuple) and fv and fv[0] == "scalar-type":
            return self.ev(args[0], env)
        r = self._pkg_call(node, env)
        if r is not NotImplemented:
            return r
        raise Undecided("call %s" % norm(node)[:60])

    def _record_fields(self, name):
        """(fields, class) when `name` constructs a namedtuple of the
        package: class X(namedtuple(...)) without its own constructor, or
        X = namedtuple(...)."""
        from .rules_more2 import _namedtuple_fields
        tgt = self.module.resolve(name) or name
        leaf = tgt.rsplit(".", 1)[-1]
        for m in self.module.repo.modules.values():
            if leaf in m.classes and (m is self.module or
                                      tgt.startswith(m.name + ".")):
                ci = m.classes[leaf]
                if "__init__" in ci.methods or "__new__" in ci.methods:
                    return None
                for b in ci.node.bases:
                    fl = _namedtuple_fields(b)
                    if fl:
                        return fl, ci
            if leaf in m.constants and (m is self.module or
                                        tgt.startswith(m.name + ".")):
                fl = _namedtuple_fields(m.constants[leaf])
                if fl:
                    return fl, None
        return None

    def _pkg_call(self, node, env):
        """A call of a namedtuple constructor or of a module-level function
        of the package: the function's body is interpreted on the argument
        values (its own locals, the module's resolution of names)."""
        d = dotted(node.func)
        if d is None or any(isinstance(a, ast.Starred) for a in node.args) \
                or any(k.arg is None for k in node.keywords):
            return NotImplemented
        rf = self._record_fields(d)
        if rf is not None:
            fields, ci = rf
            vals = {}
            for f_, a in zip(fields, node.args):
                vals[f_] = self.ev(a, env)
            for k in node.keywords:
                vals[k.arg] = self.ev(k.value, env)
            if set(vals) != set(fields):
                return NotImplemented
            return Record(vals, ci)
        tgt = self.module.resolve(d) or d
        h, hm = None, None
        if "." not in d and d in self.module.functions and \
                self.module.functions[d].cls is None and \
                self.module.functions[d].parent is None:
            h, hm = self.module.functions[d], self.module
        elif tgt.startswith(PKG + ".") and "." in tgt:
            mn, fnm = tgt.rsplit(".", 1)
            om = self.module.repo.modules.get(mn)
            if om is not None and fnm in om.functions and \
                    om.functions[fnm].cls is None:
                h, hm = om.functions[fnm], om
        if h is None:
            return NotImplemented
        a = h.node.args
        if a.vararg or a.kwarg:
            return NotImplemented
        names = [x.arg for x in a.posonlyargs + a.args]
        if len(node.args) > len(names):
            return NotImplemented
        e2 = {}
        for nm, av in zip(names, node.args):
            e2[nm] = self.ev(av, env)
        kwnames = names + [x.arg for x in a.kwonlyargs]
        for k in node.keywords:
            if k.arg not in kwnames:
                return NotImplemented
            e2[k.arg] = self.ev(k.value, env)
        sub = Interp(hm)
        sub._depth = getattr(self, "_depth", 0) + 1
        if sub._depth > 4:
            raise Undecided("recursion")
        defaults = dict(zip(names[len(names) - len(a.defaults):], a.defaults))
        defaults.update({x.arg: dv for x, dv in zip(a.kwonlyargs,
                                                    a.kw_defaults)
                         if dv is not None})
        for nm in kwnames:
            if nm not in e2:
                if nm not in defaults:
                    return NotImplemented
                e2[nm] = sub.ev(defaults[nm], {})
        sub._block(h.node.body, e2)
        return e2.get("<return>")

    # --- statement level, outer function -----------------------------
    def run_outer(self, fnode, env):
        """Interpret the converter factory for one concrete pair; returns the
        environment at its end (closure environment of the inner def)."""
        self._block(fnode.body, env)
        return env

    def _block(self, stmts, env):
        for st in stmts:
            if isinstance(st, ast.Assign):
                val = self.ev(st.value, env)
                for t in st.targets:
                    if isinstance(t, ast.Name):
                        env[t.id] = val
                    elif isinstance(t, ast.Tuple) and isinstance(val, tuple):
                        for tt, vv in zip(t.elts, val):
                            env[tt.id] = vv
                    else:
                        raise Undecided(norm(st))
            elif isinstance(st, ast.If):
                t = self.ev(st.test, env)
                if t is UNKNOWN:
                    raise Undecided("unknown condition %s" % norm(st.test))
                self._block(st.body if t else st.orelse, env)
                if "<return>" in env:
                    return
            elif isinstance(st, ast.Expr):
                if isinstance(st.value, ast.Constant):
                    continue
                self.ev(st.value, env)
            elif isinstance(st, (ast.FunctionDef,)):
                env[st.name] = ("closure", st)
            elif isinstance(st, ast.Return):
                env["<return>"] = self.ev(st.value, env) \
                    if st.value is not None else None
                return
            elif isinstance(st, (ast.Assert, ast.Pass)):
                continue
            else:
                raise Undecided(norm(st)[:60])

    # --- inner function: abstract array --------------------------------
    def run_inner(self, fnode, env, arr_param, in_dt):
        """All paths through the converter body; each path is the list of
        events applied to the array: ('convert', dt), ('rint', dt),
        ('clip', dt, lo, hi), ('cast', dt)."""
        results = []

        def block(stmts, env, arr, events):
            """returns list of (env, arr, events, returned)"""
            states = [(env, arr, events, False)]
            for st in stmts:
                nxt = []
                for (e, a, evs, done) in states:
                    if done:
                        nxt.append((e, a, evs, done))
                        continue
                    nxt.extend(step(st, e, a, evs))
                states = nxt
            return states

        def step(st, e, a, evs):
            if isinstance(st, ast.Assert):
                return [(e, a, evs, False)]
            if isinstance(st, ast.If):
                t = self.ev(st.test, dict(e, **{arr_param: a}))
                out = []
                if t is UNKNOWN or t:
                    out += block(st.body, dict(e), a, list(evs))
                if t is UNKNOWN or not t:
                    out += block(st.orelse, dict(e), a, list(evs))
                return out
            if isinstance(st, ast.Assign) and len(st.targets) == 1 and \
                    isinstance(st.targets[0], ast.Name):
                tgt = st.targets[0].id
                v = st.value
                if tgt == arr_param and isinstance(v, ast.Call):
                    full = self.resolve(v.func)
                    if full in ("numpy.array", "numpy.asarray",
                                "numpy.asanyarray"):
                        dk = kwarg(v, "dtype")
                        nd = self.as_dt(self.ev(dk, dict(e, **{arr_param: a}))) \
                            if dk is not None else a.dtype
                        na = Arr(nd)
                        return [(e, na, evs + [("convert", nd.code)], False)]
                    if isinstance(v.func, ast.Attribute) and \
                            v.func.attr == "astype":
                        nd = self.as_dt(self.ev(v.args[0],
                                                dict(e, **{arr_param: a})))
                        return [(e, Arr(nd), evs + [("convert", nd.code)],
                                 False)]
                    raise Undecided(norm(st)[:60])
                e2 = dict(e)
                e2[tgt] = self.ev(v, dict(e, **{arr_param: a}))
                return [(e2, a, evs, False)]
            if isinstance(st, ast.Expr) and isinstance(st.value, ast.Call):
                c = st.value
                full = self.resolve(c.func)
                out = kwarg(c, "out")
                if full in ("numpy.rint", "numpy.round", "numpy.around") and \
                        out is not None and norm(out) == arr_param and \
                        c.args and norm(c.args[0]) == arr_param:
                    return [(e, a, evs + [("rint", a.dtype.code)], False)]
                if full in ("numpy.add", "numpy.subtract") and out is not None \
                        and norm(out) == arr_param and len(c.args) >= 2 and \
                        isinstance(c.args[1], ast.Constant) and \
                        c.args[1].value == 0.5:
                    return [(e, a, evs + [("half-up", a.dtype.code)], False)]
                if full == "numpy.clip" and out is not None and \
                        norm(out) == arr_param and len(c.args) >= 3:
                    lo = self.ev(c.args[1], e)
                    hi = self.ev(c.args[2], e)
                    return [(e, a, evs + [("clip", a.dtype.code, lo, hi)],
                             False)]
                if full and full.startswith("logger"):
                    return [(e, a, evs, False)]
                raise Undecided(norm(st)[:60])
            if isinstance(st, ast.AugAssign) and norm(st.target) == arr_param \
                    and isinstance(st.op, (ast.Add, ast.Sub)) and \
                    isinstance(st.value, ast.Constant) and st.value.value == 0.5:
                # "+ 0.5 then truncate": rounds half up, not half to even
                return [(e, a, evs + [("half-up", a.dtype.code)], False)]
            if isinstance(st, ast.Return):
                v = st.value
                if isinstance(v, ast.Call) and isinstance(v.func, ast.Attribute) \
                        and v.func.attr == "astype" and \
                        norm(v.func.value) == arr_param:
                    nd = self.as_dt(self.ev(v.args[0], e))
                    results.append(evs + [("cast", nd.code)])
                    return [(e, a, evs, True)]
                raise Undecided("return %s" % norm(v)[:60])
            if isinstance(st, ast.Expr) and isinstance(st.value, ast.Constant):
                return [(e, a, evs, False)]
            raise Undecided(norm(st)[:60])

        block(fnode.body, dict(env), Arr(DT(in_dt)), [])
        return results


def _range_subset(i, o):
    if kind(i) == "f" or kind(o) == "f":
        return False
    il, ih = irange(i)
    ol, oh = irange(o)
    return ol <= il and ih <= oh


def converter_lattice(repo, col, in_types=None, overrides=None):
    rule = "E-DTYPE"
    overrides = overrides or {}
    outer = repo.func("data_types", "get_chunk_dtype_transformer")
    from .core import returned_closure
    inner = returned_closure(outer)
    params = [p for p in outer.params]
    if inner is None or len(params) < 2 or not inner.params:
        col.add(rule, outer, "converter closure", True,
                "get_chunk_dtype_transformer does not return a nested "
                "function of (chunk, ...): the converter's body is not "
                "interpreted", undecided=True)
        return 0
    p_in, p_out = params[:2]
    arr_param = inner.params[0]
    fails = {}
    undec = []
    n_pairs = 0
    in_list = list(in_types or IN_TYPES)
    for i in in_list:
      for o in OUT_TYPES:
        n_pairs += 1
        for warn in (False, True):
            interp = Interp(outer.module)
            env = {p_in: DT(i), p_out: DT(o), "warn": warn}
            env.update(overrides)
            a_ = outer.node.args
            allp = [x.arg for x in a_.posonlyargs + a_.args]
            dflt = dict(zip(allp[len(allp) - len(a_.defaults):],
                            a_.defaults))
            dflt.update({x.arg: dv for x, dv in zip(a_.kwonlyargs,
                                                    a_.kw_defaults)
                         if dv is not None})
            for p in params[2:] + [x.arg for x in a_.kwonlyargs]:
                if p != "warn" and isinstance(dflt.get(p), ast.Constant):
                    # an option with a constant default: the behaviour every
                    # caller gets who does not ask for something else
                    env.setdefault(p, dflt[p].value)
                env.setdefault(p, warn)
            try:
                interp.run_outer(outer.node, env)
                env2 = dict(env)
                for p in inner.params[1:]:
                    env2[p] = UNKNOWN
                paths = interp.run_inner(inner.node, env2, arr_param, i)
            except Undecided as exc:
                undec.append(("%s->%s" % (LONG[i], LONG[o]), str(exc)))
                continue
            if not paths:
                undec.append(("%s->%s" % (LONG[i], LONG[o]), "no return path"))
                continue
            for evs in paths:
                need_round = kind(o) != "f" and kind(i) == "f"
                need_clip = kind(o) != "f" and not _range_subset(i, o)
                rints = [e for e in evs if e[0] == "rint"]
                clips = [e for e in evs if e[0] == "clip"]
                cast = [e for e in evs if e[0] == "cast"]
                if not cast or cast[-1][1] != o:
                    fails.setdefault(("final-cast", "out=%s" % LONG[o]),
                                     []).append(LONG[i])
                if any(e[0] == "half-up" for e in evs):
                    fails.setdefault(("round-mode", "out=%s" % LONG[o]),
                                     []).append(LONG[i])
                if need_round and not rints:
                    fails.setdefault(("round", "float input, out=%s" % LONG[o]),
                                     []).append(LONG[i])
                if need_round and rints and kind(rints[0][1]) != "f":
                    fails.setdefault(("round-on-float", "out=%s" % LONG[o]),
                                     []).append(LONG[i])
                if need_clip and not clips:
                    fails.setdefault(("clip", "out=%s" % LONG[o]),
                                     []).append(LONG[i])
                for _, w, lo, hi in clips:
                    ol, oh = irange(o) if kind(o) != "f" else (lo, hi)
                    if kind(o) != "f" and (lo != ol or hi != oh):
                        fails.setdefault(("clip-range",
                                          "out=%s bounds=(%s,%s)"
                                          % (LONG[o], lo, hi)), []).append(LONG[i])
                    if kind(o) != "f" and not (
                            exactly_representable(lo, w) and
                            exactly_representable(hi, w)):
                        fails.setdefault(("clip-bound-exact",
                                          "out=%s work=%s" % (LONG[o], LONG[w])),
                                         []).append(LONG[i])
                convs = [e for e in evs if e[0] == "convert"]
                if (rints or clips) and kind(o) != "f":
                    w = (rints or clips)[0][1]
                    if not holds_all_values_of(w, i):
                        fails.setdefault(("work-exact",
                                          "in=%s work=%s out=%s"
                                          % (LONG[i], LONG[w], LONG[o])),
                                         []).append(LONG[o])
                # a float target reached through another type that cannot hold
                # the input exactly is rounded twice (not the nearest value)
                if kind(o) == "f":
                    for _, w in convs:
                        if w != o and w != i and \
                                not holds_all_values_of(w, i) and \
                                not holds_all_values_of(o, i):
                            fails.setdefault(
                                ("double-rounding", "in=%s via=%s out=%s"
                                 % (LONG[i], LONG[w], LONG[o])),
                                []).append(LONG[o])
                # order: rounding / clipping before the final cast
                idx = {e[0]: k for k, e in enumerate(evs)}
                if rints and idx["rint"] > idx.get("cast", 99):
                    fails.setdefault(("order", "rint after cast"),
                                     []).append("%s->%s" % (LONG[i], LONG[o]))
    undec = list(dict(undec).items())
    for (what, construct), who in sorted(fails.items()):
        col.add("%s.%s" % (rule, what), outer, construct, False,
                _why(what, construct, sorted(set(who))))
    n_ok = n_pairs - len(undec)
    col.add(rule + ".pairs", outer, "%d/%d dtype pairs interpreted"
            % (n_ok, n_pairs), True,
            "obligations per pair: rounding when float meets integer target, "
            "clipping when the input range exceeds the target range, clip "
            "bounds = target limits and exactly representable in the work "
            "type, work type holds every input value, final cast to target")
    # one ok-obligation per pair so the evidence shows what was covered
    bad_pairs = set()
    for (what, construct), who in fails.items():
        bad_pairs.add(construct)
    for i in in_list:
        for o in OUT_TYPES:
            nm = "%s->%s" % (LONG[i], LONG[o])
            if any(nm == u[0] for u in undec):
                continue
            col.add(rule + ".pair", outer, nm, True, "", nontrivial=True)
    for nm, why in undec:
        col.add(rule + ".pair", outer, nm, True, "not interpretable: " + why,
                undecided=True)
    return n_pairs


def _why(what, construct, who):
    msg = {
        "round-mode": "values are rounded by adding 0.5 and truncating "
                      "(half up), not half-to-even as documented, for inputs "
                      "%s",
        "round": "values are not rounded to nearest before the cast "
                 "(truncation) for inputs %s",
        "round-on-float": "rounding is applied to a non-float work array for "
                          "inputs %s",
        "clip": "out-of-range values are not clipped and wrap on the final "
                "cast for inputs %s",
        "clip-range": "clip bounds differ from the target type's limits for "
                      "inputs %s",
        "clip-bound-exact": "a clip bound is not exactly representable in the "
                            "work type, so saturation happens at a different "
                            "value / overflows on the final cast, for inputs %s",
        "work-exact": "the work type cannot hold every input value exactly "
                      "(targets %s): values change before rounding/clipping",
        "double-rounding": "the value is first converted to an intermediate "
                           "type that cannot hold it exactly and then to the "
                           "float target (%s): the result is not always the "
                           "nearest representable value",
        "final-cast": "the converter does not return the target type for "
                      "inputs %s",
        "order": "operation order wrong for %s",
    }[what]
    return "%s: " % construct + msg % ", ".join(who)


def averaging_accumulator(repo, col):
    rule = "E-DTYPE.accumulator"
    fn = repo.func("downscaling", "AveragingDownscaler.downscale")
    from .core import walk_local as _wl, call_name as _cn
    arr_param = [p for p in fn.params if p != "self"][0]
    # the accumulator type: first argument of the converter builder, else the
    # local bound to np.promote_types(...)
    wname = None
    for c in _wl(fn.node):
        if isinstance(c, ast.Call) and (_cn(c) or "").endswith(
                "get_chunk_dtype_transformer") and c.args and \
                isinstance(c.args[0], ast.Name):
            wname = c.args[0].id
    assign = None
    for st in stmts_of(fn.node):
        if isinstance(st, ast.Assign) and isinstance(st.targets[0], ast.Name):
            if (wname and st.targets[0].id == wname) or (
                    not wname and isinstance(st.value, ast.Call) and
                    (_cn(st.value) or "").endswith("promote_types")):
                assign = st
    if assign is None:
        col.add(rule, fn, "accumulator type", True, "the accumulator type of "
                "the averaging downscaler is not bound to a local in a "
                "recognised way", undecided=True)
        return
    wname = assign.targets[0].id
    for d in OUT_TYPES:
        interp = Interp(fn.module)
        try:
            w = interp.as_dt(interp.ev(assign.value,
                                       {arr_param: Arr(DT(d))})).code
        except Undecided as exc:
            col.add(rule, fn, "accumulator for %s" % LONG[d], True, str(exc),
                    undecided=True)
            continue
        if kind(d) == "f":
            ok = kind(w) == "f" and MANT[w] >= MANT[d] + 3 and EMAX[w] > EMAX[d]
            why = "float accumulator %s is not wider than the input %s: sums " \
                "of up to 8 values overflow near the type limit and round " \
                "twice" % (LONG[w], LONG[d])
        else:
            need = 8 * size(d) + 3
            ok = (kind(w) == "f" and MANT[w] >= need) or \
                (kind(w) != "f" and 8 * size(w) >= need)
            why = "accumulator %s has fewer than %d exact bits: the sum of an " \
                "8-voxel block of %s values is rounded before the mean is " \
                "taken" % (LONG[w], need, LONG[d])
        col.add(rule, fn, "accumulator for %s = %s" % (LONG[d], LONG[w]), ok,
                "" if ok else why, node=assign)
    # result goes back through the rounding converter built for THIS call's
    # (work type, input type)
    from .core import walk_local, call_name
    from .dataflow import local_defs, names_in
    defs = local_defs(fn.node)
    rets = [s for s in stmts_of(fn.node) if isinstance(s, ast.Return)]
    # the converter factory, and whatever callable it returns an instance of
    # (a converter class introduced behind the factory)
    builders = {"get_chunk_dtype_transformer"}
    try:
        fac = repo.func("data_types", "get_chunk_dtype_transformer")
        for r_ in stmts_of(fac.node):
            if isinstance(r_, ast.Return) and isinstance(r_.value, ast.Call) \
                    and isinstance(r_.value.func, ast.Name):
                builders.add(r_.value.func.id)
    except Exception:
        pass

    def is_builder(c):
        return (call_name(c) or "").split(".")[-1] in builders
    builds = [c for c in walk_local(fn.node) if isinstance(c, ast.Call)
              and is_builder(c)]
    def _is_input_dtype(e):
        if norm(e) == "%s.dtype" % arr_param:
            return True
        if isinstance(e, ast.Name):
            ds = [d for d in defs.get(e.id, []) if d.value is not None]
            return bool(ds) and all(norm(d.value) == "%s.dtype" % arr_param
                                    for d in ds)
        return False
    ok_build = bool(builds) and all(
        len(c.args) >= 2 and norm(c.args[0]) == wname
        and _is_input_dtype(c.args[1]) for c in builds)
    col.add(rule, fn, "converter = get_chunk_dtype_transformer(work_dtype, "
            "dtype)", ok_build, "" if ok_build else
            "the converter back to the input type is not built from the "
            "accumulator type and the chunk's own dtype",
            undecided=not builds)
    ok, und, why = bool(rets), False, ""
    for r in rets:
        v = r.value
        if isinstance(v, ast.Call) and isinstance(v.func, ast.Call) and \
                is_builder(v.func):
            continue        # converter built and applied in one expression
        if not (isinstance(v, ast.Call) and isinstance(v.func, ast.Name)):
            ok = False
            why = "a return path does not go through the converter (%s)" \
                % norm(v)[:50]
            continue
        vals = [d.value for d in defs.get(v.func.id, []) if d.value is not None]
        direct = [x for x in vals if isinstance(x, ast.Call) and
                  is_builder(x)]
        cached = [x for x in vals if x not in direct]
        for x in cached:
            # a cache lookup: its key must distinguish the output type
            keys = [n.slice for n in walk_local(x) if isinstance(n, ast.Subscript)]
            keys += [c.args[0] for c in walk_local(x) if isinstance(c, ast.Call)
                     and isinstance(c.func, ast.Attribute)
                     and c.func.attr in ("get", "setdefault") and c.args]
            def _has_input_dtype(k):
                return any(_is_input_dtype(n) for n in walk_local(k)
                           if isinstance(n, (ast.Name, ast.Attribute)))
            if keys and not any(_has_input_dtype(k) for k in keys):
                ok = False
                why = "the converter is cached under a key (%s) that does " \
                    "not include the chunk's dtype: a later chunk of another " \
                    "type is converted to the first chunk's type" \
                    % norm(keys[0])
            elif not keys:
                und = True
        if not vals:
            und = True
    col.add(rule, fn, "return dtype_converter(chunk)", ok,
            "" if ok else (why or "the averaged values are not converted back "
                           "through the rounding / saturating converter"),
            undecided=ok is False and und and not why)
    # pairwise halving on each axis: half * (a[::2] + a[1::2])
    txt = norm(fn.node)
    for ax, sl in ((1, "chunk[:, ::2, :, :] + chunk[:, 1::2, :, :]"),
                   (2, "chunk[:, :, ::2, :] + chunk[:, :, 1::2, :]"),
                   (3, "chunk[:, :, :, ::2] + chunk[:, :, :, 1::2]")):
        col.add(rule + ".pairs", fn, "axis %d pair sum" % ax, sl in txt,
                "" if sl in txt else "pair sum along array axis %d not found "
                "in the recognised form" % ax, undecided=sl not in txt)


def converter_option_sites(repo, col):
    """Call sites that build the converter with an option switched away from
    its default (clip=False, ...): the lattice is evaluated with that option;
    what the converter then no longer does is the caller's job, and the
    caller has to be seen doing it."""
    from .core import calls_in, call_name
    from .report import Collector
    rule = "E-DTYPE.option-site"
    n = 0
    fac = repo.func("data_types", "get_chunk_dtype_transformer")
    a = fac.node.args
    names = [x.arg for x in a.posonlyargs + a.args]
    for m in repo.modules.values():
        for fn in m.functions.values():
            if fn.key == fac.key:
                continue
            for c in calls_in(fn.node):
                if (call_name(c) or "").split(".")[-1] != \
                        "get_chunk_dtype_transformer":
                    continue
                opts = {}
                for p, av in list(zip(names, c.args))[2:]:
                    if isinstance(av, ast.Constant):
                        opts[p] = av.value
                for k in c.keywords:
                    if k.arg and isinstance(k.value, ast.Constant):
                        opts[k.arg] = k.value.value
                opts.pop("warn", None)
                if not opts:
                    continue
                tmp = Collector(col.prop)
                try:
                    converter_lattice(repo, tmp, overrides=opts)
                except Exception:
                    continue
                base = Collector(col.prop)
                converter_lattice(repo, base)
                known = {(o.rule, o.construct) for o in base.obs
                         if o.status == "fail"}
                lost = [o for o in tmp.obs if o.status == "fail" and
                        (o.rule, o.construct) not in known]
                n += 1
                if not lost:
                    col.add(rule, fn, "%s" % norm(c)[:70], True,
                            "options %r change nothing the lattice checks"
                            % opts, node=c)
                    continue
                kinds = sorted({o.rule.rsplit(".", 1)[-1] for o in lost})
                does = {"clip": "clip", "round": "rint", "round-mode": "rint"}
                own = any((call_name(x) or "").split(".")[-1] in
                          {does.get(k_, "") for k_ in kinds} | {"round",
                                                                "around"}
                          for x in calls_in(fn.node)
                          if (call_name(x) or "").split(".")[-1] !=
                          "get_chunk_dtype_transformer")
                col.add(rule, fn, "%s" % norm(c)[:70], own,
                        "the caller does it itself (not verified here)"
                        if own else
                        "with %s the converter no longer does: %s (e.g. %s); "
                        "nothing in %s does it instead, so out-of-range "
                        "values reach the final cast and wrap" % (
                            ", ".join("%s=%r" % kv for kv in opts.items()),
                            ", ".join(kinds), lost[0].construct,
                            fn.qualname), node=c, undecided=own)
    col.add(rule, "package", "%d converter call sites with options" % n,
            True, "", nontrivial=False)
    return n
