"""Program model of the analysed package: modules, functions, classes, imports,
MRO, call resolution helpers, statement CFG with dominators.

Pure standard library.  Nothing of the analysed package is imported or run.
"""
import ast
import json
import hashlib
import os
import re

PKG = "neuroglancer_scripts"


class AnalysisError(Exception):
    """An anchor vanished, a file does not parse, or the checker is broken.
    The driver turns this into ANALYSIS-ERROR / exit 2 (never a VIOLATION)."""


def repo_root():
    return os.environ.get("NGS_REPO", "/repo")


def unparse(node):
    if node is None:
        return "None"
    try:
        return ast.unparse(node)
    except Exception:  # pragma: no cover
        return "<%s>" % type(node).__name__


def norm(node):
    """Layout-independent text of an expression / statement (one line)."""
    return re.sub(r"\s+", " ", unparse(node)).strip()


def dotted(node):
    """'a.b.c' for Name/Attribute chains, else None."""
    parts = []
    while isinstance(node, ast.Attribute):
        parts.append(node.attr)
        node = node.value
    if isinstance(node, ast.Name):
        parts.append(node.id)
        return ".".join(reversed(parts))
    return None


def const_int(node):
    if isinstance(node, ast.Constant) and isinstance(node.value, int) \
            and not isinstance(node.value, bool):
        return node.value
    if isinstance(node, ast.UnaryOp) and isinstance(node.op, ast.USub):
        v = const_int(node.operand)
        return -v if v is not None else None
    return None


def iter_child_stmts(stmt):
    for field in ("body", "orelse", "finalbody"):
        for s in getattr(stmt, field, []) or []:
            yield s
    for h in getattr(stmt, "handlers", []) or []:
        for s in h.body:
            yield s
    for c in getattr(stmt, "cases", []) or []:
        for s in c.body:
            yield s


def walk_local(node, include_root=True):
    """ast.walk that does not descend into nested function / class / lambda
    definitions (their bodies are separate scopes)."""
    stack = [node]
    first = True
    while stack:
        n = stack.pop()
        if not first and isinstance(n, (ast.FunctionDef, ast.AsyncFunctionDef,
                                        ast.ClassDef, ast.Lambda)):
            continue
        if not first or include_root:
            yield n
        first = False
        stack.extend(reversed(list(ast.iter_child_nodes(n))))


class Function:
    def __init__(self, module, qualname, node, cls=None, parent=None):
        self.module = module
        self.qualname = qualname
        self.node = node
        self.cls = cls            # ClassInfo or None
        self.parent = parent      # enclosing Function or None
        self._cfg = None

    @property
    def key(self):
        return "%s:%s" % (self.module.short, self.qualname)

    @property
    def params(self):
        a = self.node.args
        return [x.arg for x in a.posonlyargs + a.args + a.kwonlyargs]

    def cfg(self):
        if self._cfg is None:
            self._cfg = CFG(self.node)
        return self._cfg

    def loc(self, node=None):
        ln = getattr(node, "lineno", None) or self.node.lineno
        return "%s:%d" % (self.module.relpath, ln)

    def __repr__(self):
        return "<Function %s>" % self.key


class ClassInfo:
    def __init__(self, module, node):
        self.module = module
        self.node = node
        self.name = node.name
        self.base_names = [dotted(b) for b in node.bases]
        self.methods = {}      # name -> Function
        self.class_attrs = {}  # name -> value node

    @property
    def key(self):
        return "%s:%s" % (self.module.short, self.name)


class Module:
    def __init__(self, repo, name, path):
        self.repo = repo
        self.name = name                      # neuroglancer_scripts.x
        self.short = name[len(PKG) + 1:] if name != PKG else "__init__"
        self.path = path
        self.relpath = os.path.relpath(path, repo.root)
        with open(path, "rb") as f:
            raw = f.read()
        self.digest = hashlib.sha256(raw).hexdigest()
        self.source = raw.decode("utf-8")
        try:
            self.tree = ast.parse(self.source, filename=path)
        except SyntaxError as exc:
            raise AnalysisError("cannot parse %s: %s" % (path, exc))
        if not os.environ.get("NGS_NO_CANON"):
            from .canon import canonicalise
            canonicalise(self.tree)
        self.functions = {}
        self.classes = {}
        self.imports = {}     # local alias -> dotted target
        self.constants = {}   # module-level NAME -> value node
        self._index()

    def const(self, name, depth=0):
        """Value node of a module-level constant, following a name that was
        imported from (or aliased to) another module of the package."""
        if name in self.constants:
            v = self.constants[name]
            if isinstance(v, (ast.Name, ast.Attribute)) and depth < 3:
                tgt = self.resolve(dotted(v) or "") or ""
                if tgt.startswith(PKG + ".") and "." in tgt:
                    mn, cn = tgt.rsplit(".", 1)
                    om = self.repo.modules.get(mn)
                    if om is not None and om is not self:
                        self.repo.consulted.add(mn)
                        w = om.const(cn, depth + 1)
                        if w is not None:
                            return w
            return v
        tgt = self.imports.get(name)
        if tgt and tgt.startswith(PKG + ".") and depth < 3:
            mn, cn = tgt.rsplit(".", 1)
            om = self.repo.modules.get(mn)
            if om is not None and om is not self:
                self.repo.consulted.add(mn)
                return om.const(cn, depth + 1)
        return None

    def _index(self):
        for st in self.tree.body:
            if isinstance(st, ast.Assign) and len(st.targets) == 1 \
                    and isinstance(st.targets[0], ast.Name):
                self.constants[st.targets[0].id] = st.value
            elif isinstance(st, ast.AnnAssign) and st.value is not None \
                    and isinstance(st.target, ast.Name):
                self.constants[st.target.id] = st.value
        self._collect_imports(self.tree, self.imports)
        self._index_body(self.tree.body, "", None, None)

    def _collect_imports(self, root, table):
        for n in ast.walk(root):
            if isinstance(n, ast.Import):
                for a in n.names:
                    if a.asname:
                        table[a.asname] = a.name
                    else:
                        table[a.name.split(".")[0]] = a.name.split(".")[0]
            elif isinstance(n, ast.ImportFrom) and n.module and n.level == 0:
                for a in n.names:
                    table[a.asname or a.name] = n.module + "." + a.name

    def _index_body(self, body, prefix, cls, parent):
        for st in body:
            if isinstance(st, (ast.FunctionDef, ast.AsyncFunctionDef)):
                qn = prefix + st.name
                # property setters share the getter's name: keep both
                if qn in self.functions:
                    deco = [dotted(d) or "" for d in st.decorator_list]
                    if any(d.endswith(".setter") for d in deco):
                        qn = qn + ".setter"
                f = Function(self, qn, st, cls=cls, parent=parent)
                self.functions[qn] = f
                if cls is not None and parent is None:
                    cls.methods[qn.split(".", 1)[1]] = f
                self._index_nested(st, qn + ".", cls, f)
            elif isinstance(st, ast.ClassDef):
                ci = ClassInfo(self, st)
                self.classes[st.name] = ci
                for s2 in st.body:
                    if isinstance(s2, ast.Assign) and len(s2.targets) == 1 \
                            and isinstance(s2.targets[0], ast.Name):
                        ci.class_attrs[s2.targets[0].id] = s2.value
                self._index_body(st.body, st.name + ".", ci, None)

    def _index_nested(self, fnode, prefix, cls, parent):
        # nested defs anywhere inside the function body
        stack = list(fnode.body)
        while stack:
            st = stack.pop()
            if isinstance(st, (ast.FunctionDef, ast.AsyncFunctionDef)):
                qn = prefix + st.name
                f = Function(self, qn, st, cls=cls, parent=parent)
                self.functions[qn] = f
                self._index_nested(st, qn + ".", cls, f)
            elif isinstance(st, ast.ClassDef):
                continue
            else:
                stack.extend(iter_child_stmts(st))

    def resolve(self, name):
        """Resolve a dotted name used in this module to a fully qualified
        dotted name through the import table (np.frombuffer ->
        numpy.frombuffer)."""
        if name is None:
            return None
        head, _, rest = name.partition(".")
        if head in self.imports:
            tgt = self.imports[head]
            return tgt + ("." + rest if rest else "")
        return name


class Repo:
    def __init__(self, root=None):
        self.root = root or repo_root()
        self.src = os.path.join(self.root, "src", PKG)
        if not os.path.isdir(self.src):
            raise AnalysisError("package directory not found: %s" % self.src)
        self.modules = {}
        for dirpath, dirnames, filenames in os.walk(self.src):
            dirnames[:] = sorted(d for d in dirnames if d != "__pycache__")
            for fn in sorted(filenames):
                if not fn.endswith(".py"):
                    continue
                path = os.path.join(dirpath, fn)
                rel = os.path.relpath(path, self.src)[:-3].replace(os.sep, ".")
                name = PKG if rel == "__init__" else PKG + "." + rel
                if name.endswith(".__init__"):
                    name = name[:-9]
                self.modules[name] = Module(self, name, path)
        self.consulted = set()

    # --- anchors -----------------------------------------------------
    def module(self, short):
        name = PKG + "." + short
        if name not in self.modules:
            raise AnalysisError("anchor vanished: module %s" % name)
        self.consulted.add(name)
        return self.modules[name]

    def func(self, short, qualname, inline=False):
        m = self.module(short)
        if qualname not in m.functions and "." in qualname:
            # a method that the class now inherits (template method in the
            # base class): the base method, bound to this class so that calls
            # through self resolve to the subclass's implementations
            cname, mname = qualname.rsplit(".", 1)
            ci = m.classes.get(cname)
            if ci is not None:
                for bc in self.mro(ci)[1:]:
                    if mname in bc.methods:
                        base = bc.methods[mname]
                        cache = self.__dict__.setdefault("_bound_cache", {})
                        k = (m.name, qualname)
                        if k not in cache:
                            bf = Function(base.module, qualname,
                                          _copy.deepcopy(base.node), cls=ci)
                            bf.module = m if base.module is m else base.module
                            bf.inherited_from = base
                            cache[k] = bf
                        f = cache[k]
                        if inline:
                            icache = self.__dict__.setdefault(
                                "_inline_cache", {})
                            if f.key not in icache:
                                icache[f.key] = inline_view(f)
                            return icache[f.key]
                        return f
        if qualname not in m.functions:
            # moved to another module of the package (and usually re-imported
            # here): follow it if the new home is unambiguous
            homes = [mm for mm in self.modules.values()
                     if qualname in mm.functions]
            if len(homes) != 1:
                raise AnalysisError("anchor vanished: function %s in %s"
                                    % (qualname, m.relpath))
            m = homes[0]
            self.consulted.add(m.name)
        f = m.functions[qualname]
        if inline:
            cache = self.__dict__.setdefault("_inline_cache", {})
            if f.key not in cache:
                cache[f.key] = inline_view(f)
            return cache[f.key]
        return f

    def has_func(self, short, qualname):
        m = self.module(short)
        return qualname in m.functions

    def cls(self, short, name):
        m = self.module(short)
        if name not in m.classes:
            homes = [mm for mm in self.modules.values() if name in mm.classes]
            if len(homes) != 1:
                raise AnalysisError("anchor vanished: class %s in %s"
                                    % (name, m.relpath))
            m = homes[0]
            self.consulted.add(m.name)
        return m.classes[name]

    def all_functions(self):
        for m in self.modules.values():
            for f in m.functions.values():
                yield f

    def all_classes(self):
        for m in self.modules.values():
            for c in m.classes.values():
                yield c

    def digest(self, shorts=None):
        h = hashlib.sha256()
        names = sorted(self.consulted) if shorts is None else \
            sorted(PKG + "." + s for s in shorts)
        for n in names:
            if n in self.modules:
                h.update(n.encode())
                h.update(self.modules[n].digest.encode())
        return h.hexdigest()[:16]

    # --- classes -----------------------------------------------------
    def find_class(self, module, name):
        """Resolve a (possibly dotted / imported) base-class name as seen in
        `module` to a ClassInfo of this repository, or None if external."""
        if name is None:
            return None
        full = module.resolve(name)
        if name in module.classes:
            return module.classes[name]
        if full and full.startswith(PKG + "."):
            modname, _, cname = full.rpartition(".")
            m = self.modules.get(modname)
            if m and cname in m.classes:
                return m.classes[cname]
        return None

    def mro(self, ci):
        """Linearisation good enough for single/multiple inheritance without
        diamonds among in-repo classes (true here); external bases skipped."""
        out, seen = [], set()

        def visit(c):
            if c.key in seen:
                return
            seen.add(c.key)
            out.append(c)
            for b in c.base_names:
                bc = self.find_class(c.module, b)
                if bc is not None:
                    visit(bc)
        visit(ci)
        return out

    def external_bases(self, ci):
        res = []
        for c in self.mro(ci):
            for b in c.base_names:
                if self.find_class(c.module, b) is None and b:
                    res.append(c.module.resolve(b))
        return res

    def subclasses(self, ci):
        return [c for c in self.all_classes()
                if c is not ci and ci in self.mro(c)]

    def lookup_method(self, ci, name):
        for c in self.mro(ci):
            if name in c.methods:
                return c.methods[name]
        return None

    def is_subclass_name(self, module, name, ancestors):
        """True if exception class `name` (as written in `module`) is one of /
        derives from one of the dotted names in `ancestors` (builtin hierarchy
        table below + in-repo classes)."""
        full = self.exc_fullname(module, name)
        return any(a in self.exc_ancestors(full) for a in ancestors)

    def exc_fullname(self, module, name):
        ci = self.find_class(module, name)
        if ci is not None:
            return ci.module.name + "." + ci.name
        return module.resolve(name)

    def exc_ancestors(self, full):
        """All ancestors (inclusive) of a fully qualified exception name."""
        out = [full]
        modname, _, cname = full.rpartition(".")
        m = self.modules.get(modname)
        if m and cname in m.classes:
            ci = m.classes[cname]
            for b in ci.base_names:
                out.extend(self.exc_ancestors(self.exc_fullname(ci.module, b)))
            return out
        cur = full
        while cur in BUILTIN_EXC_PARENT:
            cur = BUILTIN_EXC_PARENT[cur]
            out.append(cur)
        return out


# builtin / library exception hierarchy (child -> parent), frozen table
BUILTIN_EXC_PARENT = {
    "Exception": "BaseException",
    "ArithmeticError": "Exception", "ZeroDivisionError": "ArithmeticError",
    "OverflowError": "ArithmeticError",
    "AssertionError": "Exception", "AttributeError": "Exception",
    "EOFError": "Exception", "LookupError": "Exception",
    "IndexError": "LookupError", "KeyError": "LookupError",
    "OSError": "Exception", "IOError": "Exception",  # IOError is OSError
    "FileNotFoundError": "OSError", "FileExistsError": "OSError",
    "PermissionError": "OSError", "gzip.BadGzipFile": "OSError",
    "RuntimeError": "Exception", "NotImplementedError": "RuntimeError",
    "TypeError": "Exception", "ValueError": "Exception",
    "UnicodeError": "ValueError", "json.JSONDecodeError": "ValueError",
    "struct.error": "Exception", "zlib.error": "Exception",
    "MemoryError": "Exception", "StopIteration": "Exception",
    "SyntaxError": "Exception", "BufferError": "Exception",
    "PIL.UnidentifiedImageError": "OSError",
    "PIL.Image.DecompressionBombError": "Exception",
    "requests.exceptions.RequestException": "OSError",
    "requests.RequestException": "OSError",
    "requests.exceptions.HTTPError": "requests.exceptions.RequestException",
    "requests.HTTPError": "requests.exceptions.RequestException",
    "requests.exceptions.ConnectionError":
        "requests.exceptions.RequestException",
}
# IOError is an alias of OSError
ALIASES_EXC = {"IOError": "OSError", "EnvironmentError": "OSError",
               "requests.RequestException":
               "requests.exceptions.RequestException",
               "requests.HTTPError": "requests.exceptions.HTTPError"}


def canon_exc(name):
    return ALIASES_EXC.get(name, name)


# ---------------------------------------------------------------------
# Statement-level control-flow graph
# ---------------------------------------------------------------------
class CFGNode:
    __slots__ = ("id", "kind", "ast", "succ", "pred", "label")

    def __init__(self, id_, kind, node=None, label=""):
        self.id = id_
        self.kind = kind    # entry exit stmt test raise return loop handler
        self.ast = node
        self.succ = []
        self.pred = []
        self.label = label

    def __repr__(self):
        return "<%d %s %s>" % (self.id, self.kind,
                               norm(self.ast)[:40] if self.ast is not None
                               else self.label)


class CFG:
    """Statement CFG of one function.  Exceptional edges are coarse: every
    statement inside a `try` body may jump to each of its handlers; `raise`
    outside any try goes to the distinguished `raise_exit` node; `return`
    goes to `exit`.  Test nodes (if/while/assert) have two successors, tagged
    via self.branch[(node.id, succ.id)] in {True, False}."""

    def __init__(self, fnode):
        self.nodes = []
        self.branch = {}
        self.entry = self._new("entry", label="entry")
        self.exit = self._new("exit", label="return")
        self.raise_exit = self._new("exit", label="raise")
        self.stmt_node = {}    # id(ast stmt) -> CFGNode
        self._loops = []       # (head, after) stack
        self._tries = []       # handler-entry lists stack
        ends = self._block(fnode.body, [self.entry])
        for e in ends:
            self._edge(e, self.exit)
        self._dom = None
        self._pdom = None

    def _new(self, kind, node=None, label=""):
        n = CFGNode(len(self.nodes), kind, node, label)
        self.nodes.append(n)
        if node is not None:
            self.stmt_node[id(node)] = n
        return n

    def _edge(self, a, b, tag=None):
        if b not in a.succ:
            a.succ.append(b)
            b.pred.append(a)
        if tag is not None:
            self.branch[(a.id, b.id)] = tag

    def _exc_targets(self):
        if self._tries:
            return self._tries[-1]
        return [self.raise_exit]

    def _block(self, stmts, preds):
        cur = preds
        for st in stmts:
            cur = self._stmt(st, cur)
        return cur

    def _link(self, preds, node):
        for p in preds:
            tag = getattr(p, "_pending", None)
            self._edge(p, node)
        return node

    def _stmt(self, st, preds):
        if isinstance(st, ast.If):
            t = self._new("test", st)
            self._link(preds, t)
            self._maybe_exc(t)
            tb = self._tagged_block(st.body, t, True)
            fb = self._tagged_block(st.orelse, t, False)
            return tb + fb
        if isinstance(st, (ast.For, ast.AsyncFor, ast.While)):
            head = self._new("loop", st)
            self._link(preds, head)
            self._maybe_exc(head)
            after = []
            self._loops.append((head, after))
            body_end = self._tagged_block(st.body, head, True)
            for e in body_end:
                self._edge(e, head)
            self._loops.pop()
            else_end = self._tagged_block(st.orelse, head, False)
            return else_end + after
        if isinstance(st, ast.Try):
            handler_entries = [self._new("handler", h) for h in st.handlers]
            fin = st.finalbody
            self._tries.append(handler_entries + ([] if handler_entries
                                                  and self._catches_all(st)
                                                  else self._outer_targets()))
            body_end = self._block(st.body, preds)
            self._tries.pop()
            else_end = self._block(st.orelse, body_end)
            ends = list(else_end)
            for h, he in zip(st.handlers, handler_entries):
                ends += self._block(h.body, [he])
            if fin:
                ends = self._block(fin, ends)
            return ends
        if isinstance(st, (ast.With, ast.AsyncWith)):
            n = self._new("stmt", st)
            self._link(preds, n)
            self._maybe_exc(n)
            return self._block(st.body, [n])
        if isinstance(st, ast.Return):
            n = self._new("return", st)
            self._link(preds, n)
            self._maybe_exc(n)
            self._edge(n, self.exit)
            return []
        if isinstance(st, ast.Raise):
            n = self._new("raise", st)
            self._link(preds, n)
            for t in self._exc_targets():
                self._edge(n, t)
            return []
        if isinstance(st, ast.Break):
            n = self._new("stmt", st)
            self._link(preds, n)
            if self._loops:
                self._loops[-1][1].append(n)
            return []
        if isinstance(st, ast.Continue):
            n = self._new("stmt", st)
            self._link(preds, n)
            if self._loops:
                self._edge(n, self._loops[-1][0])
            return []
        if isinstance(st, ast.Assert):
            n = self._new("test", st)
            self._link(preds, n)
            for t in self._exc_targets():
                self._edge(n, t, False)
            return [n]
        if isinstance(st, (ast.FunctionDef, ast.AsyncFunctionDef,
                           ast.ClassDef)):
            n = self._new("stmt", st)
            self._link(preds, n)
            return [n]
        n = self._new("stmt", st)
        self._link(preds, n)
        self._maybe_exc(n)
        return [n]

    def _outer_targets(self):
        return self._tries[-1] if self._tries else [self.raise_exit]

    @staticmethod
    def _catches_all(trynode):
        for h in trynode.handlers:
            if h.type is None:
                return True
            if dotted(h.type) in ("BaseException",):
                return True
        return False

    def _maybe_exc(self, n):
        # inside a try body: a statement may raise into the handlers
        if self._tries:
            for t in self._tries[-1]:
                self._edge(n, t)

    def _tagged_block(self, stmts, test, tag):
        if not stmts:
            # empty branch: represent by a virtual pass-through node so the
            # edge can carry the tag
            v = self._new("stmt", None, label="skip")
            self._edge(test, v, tag)
            return [v]
        first_marker = self._new("stmt", None, label="branch")
        self._edge(test, first_marker, tag)
        return self._block(stmts, [first_marker])

    # --- dominators -------------------------------------------------
    def _compute_dom(self, entry, succ_attr, pred_attr):
        nodes = self.nodes
        allset = set(n.id for n in nodes)
        dom = {n.id: set(allset) for n in nodes}
        dom[entry.id] = {entry.id}
        changed = True
        order = [n for n in nodes if n is not entry]
        while changed:
            changed = False
            for n in order:
                preds = getattr(n, pred_attr)
                if not preds:
                    new = {n.id}
                else:
                    new = set.intersection(*(dom[p.id] for p in preds))
                    new = new | {n.id}
                if new != dom[n.id]:
                    dom[n.id] = new
                    changed = True
        return dom

    def dominators(self):
        if self._dom is None:
            self._dom = self._compute_dom(self.entry, "succ", "pred")
        return self._dom

    def node_of(self, stmt):
        return self.stmt_node.get(id(stmt))

    def reachable(self, start, avoiding=()):
        avoid = set(n.id for n in avoiding)
        seen, stack = set(), [start]
        while stack:
            n = stack.pop()
            if n.id in seen or n.id in avoid:
                continue
            seen.add(n.id)
            stack.extend(n.succ)
        return seen

    def every_path_passes(self, start, target, through):
        """True if every path start -> target passes a node in `through`."""
        seen = self.reachable(start, avoiding=through)
        return target.id not in seen

    def path(self, start, target, avoiding=()):
        avoid = set(n.id for n in avoiding)
        prev = {start.id: None}
        queue = [start]
        while queue:
            n = queue.pop(0)
            if n.id == target.id:
                out = []
                cur = n.id
                while cur is not None:
                    out.append(self.nodes[cur])
                    cur = prev[cur]
                return list(reversed(out))
            for s in n.succ:
                if s.id not in prev and s.id not in avoid:
                    prev[s.id] = n.id
                    queue.append(s)
        return None


def enclosing_stmt_map(fnode):
    """Map id(expr-node) -> the simple/compound statement that directly
    contains it (for compound statements: the header owns its test/iter)."""
    owner = {}

    def visit_stmt(st):
        for field, value in ast.iter_fields(st):
            if field in ("body", "orelse", "finalbody", "handlers", "cases"):
                continue
            for sub in (value if isinstance(value, list) else [value]):
                if isinstance(sub, ast.AST):
                    for n in walk_local(sub):
                        owner[id(n)] = st
        for child in iter_child_stmts(st):
            if not isinstance(child, (ast.FunctionDef, ast.AsyncFunctionDef,
                                      ast.ClassDef)):
                visit_stmt(child)
        for h in getattr(st, "handlers", []) or []:
            if h.type is not None:
                for n in ast.walk(h.type):
                    owner[id(n)] = st
    for st in fnode.body:
        if not isinstance(st, (ast.FunctionDef, ast.AsyncFunctionDef,
                               ast.ClassDef)):
            visit_stmt(st)
    return owner


def stmts_of(fnode):
    """All statements of a function (not descending into nested defs)."""
    out = []
    stack = list(reversed(fnode.body))
    while stack:
        st = stack.pop()
        out.append(st)
        if isinstance(st, (ast.FunctionDef, ast.AsyncFunctionDef,
                           ast.ClassDef)):
            continue
        stack.extend(reversed(list(iter_child_stmts(st))))
    return out


def calls_in(node):
    return [n for n in walk_local(node) if isinstance(n, ast.Call)]


def call_name(call):
    if not isinstance(call, ast.Call):
        return None
    return dotted(call.func)


def kwarg(call, name):
    for k in call.keywords:
        if k.arg == name:
            return k.value
    return None


def block_always_raises(stmts):
    """True if the statement list cannot complete normally because it ends in
    `raise` (syntactically: last statement is a Raise, or an if/else whose
    both arms always raise)."""
    if not stmts:
        return False
    last = stmts[-1]
    if isinstance(last, ast.Raise):
        return True
    if isinstance(last, ast.If) and last.orelse:
        return block_always_raises(last.body) and \
            block_always_raises(last.orelse)
    return False


def raised_names(stmts, module=None):
    """Exception class names raised at the end of a block (see above)."""
    out = []
    if not stmts:
        return out
    last = stmts[-1]
    if isinstance(last, ast.Raise) and last.exc is not None:
        e = last.exc
        if isinstance(e, ast.Call):
            e = e.func
        out.append(dotted(e))
    elif isinstance(last, ast.Raise):
        out.append("<reraise>")
    elif isinstance(last, ast.If) and last.orelse:
        out += raised_names(last.body) + raised_names(last.orelse)
    return out


def helper_closure(fn, depth=2):
    """fn plus the helpers it calls: methods of its class called through
    self, functions of its module called by bare name, and functions nested
    in it (transitively, bounded)."""
    out, seen = [fn], {fn.key}
    frontier = [fn]
    for _ in range(depth):
        nxt = []
        for f in frontier:
            for c in calls_in(f.node):
                callee = resolve_local_call(f, c)
                if callee is None:
                    callee = _partial_target(f, c)
                if callee is not None and callee.key not in seen:
                    seen.add(callee.key)
                    out.append(callee)
                    nxt.append(callee)
        frontier = nxt
    return out


def _partial_target(fn, call):
    """`functools.partial(f, ...)` (or partial(f, ...)): the local function f
    (for reachability only - arguments are bound differently, so the inliners
    never use this)."""
    nm = dotted(call.func) or ""
    if nm.split(".")[-1] == "partial" and call.args and \
            isinstance(call.args[0], (ast.Name, ast.Attribute)):
        fake = ast.Call(func=call.args[0], args=[], keywords=[])
        return resolve_local_call(fn, fake)
    return None


def resolve_local_call(fn, call):
    f = call.func
    m = fn.module
    if isinstance(f, ast.Attribute) and isinstance(f.value, ast.Name) and \
            f.value.id in ("self", "cls") and fn.cls is not None:
        for c in m.repo.mro(fn.cls):
            if f.attr in c.methods:
                return c.methods[f.attr]
        return None
    if isinstance(f, ast.Name):
        g = fn
        while g is not None:
            cand = m.functions.get(g.qualname + "." + f.id)
            if cand is not None:
                return cand
            g = g.parent
        if f.id in m.functions:
            return m.functions[f.id]
        # a private helper imported from another module of the package
        # (shared by two modules after a de-duplication), or a function the
        # reference tree does not have (introduced by a reorganisation)
        tgt = m.imports.get(f.id)
        if tgt and tgt.startswith(PKG + ".") and \
                _is_new_helper(tgt.rsplit(".", 1)[1], tgt.rsplit(".", 1)[0]):
            modname, fname = tgt.rsplit(".", 1)
            om = m.repo.modules.get(modname)
            if om is not None and fname in om.functions:
                m.repo.consulted.add(modname)
                return om.functions[fname]
        return None
    if isinstance(f, ast.Attribute) and isinstance(f.value, (ast.Name,
                                                             ast.Attribute)):
        # <module alias>.<new helper>(...)
        tgt = m.resolve(dotted(f) or "") or ""
        if tgt.startswith(PKG + ".") and "." in tgt and \
                _is_new_helper(f.attr, tgt.rsplit(".", 1)[0]):
            modname, fname = tgt.rsplit(".", 1)
            om = m.repo.modules.get(modname)
            if om is not None and fname in om.functions and \
                    om.functions[fname].cls is None:
                m.repo.consulted.add(modname)
                return om.functions[fname]
    return None


_VOCAB = None


def _is_new_helper(name, modname=None):
    """Private, or not a module-level name of the reference tree
    (ngslint/vocab.json: module -> names)."""
    global _VOCAB
    if name.startswith("_"):
        return True
    if _VOCAB is None:
        try:
            with open(os.path.join(os.path.dirname(__file__),
                                   "vocab.json")) as fh:
                _VOCAB = {k: set(v) for k, v in json.load(fh).items()}
        except (OSError, ValueError, AttributeError):
            _VOCAB = {}
            return False
    if not _VOCAB:
        return False
    if modname is not None:
        return modname not in _VOCAB or name not in _VOCAB[modname]
    return not any(name in v for v in _VOCAB.values())


def nodes_passing(fn, pred, depth=2):
    """CFG nodes of fn that satisfy `pred(call)` for some call in the
    statement, or that call a local helper (same class / module / nested)
    all of whose normal exits pass such a node."""
    cfg = fn.cfg()
    owner = enclosing_stmt_map(fn.node)
    out = []
    for c in calls_in(fn.node):
        hit = pred(c)
        if not hit and depth > 0:
            h = resolve_local_call(fn, c)
            if h is not None and h is not fn:
                hn = nodes_passing(h, pred, depth - 1)
                hcfg = h.cfg()
                hit = bool(hn) and hcfg.every_path_passes(hcfg.entry,
                                                          hcfg.exit, hn)
        if hit:
            st = owner.get(id(c))
            n = cfg.node_of(st) if st is not None else None
            if n is not None:
                out.append(n)
    return out


# ---------------------------------------------------------------------
# statement-level inlining of local helpers (analysis view only)
# ---------------------------------------------------------------------
import copy as _copy


class _Rename(ast.NodeTransformer):
    def __init__(self, table):
        self.table = table

    def visit_Name(self, node):
        if node.id in self.table:
            return ast.copy_location(ast.Name(id=self.table[node.id],
                                              ctx=node.ctx), node)
        return node

    def visit_FunctionDef(self, node):
        return node      # do not touch nested definitions

    visit_Lambda = visit_FunctionDef


def _inlinable(h):
    """Helper whose only return (if any) is its last statement."""
    body = h.node.body
    rets = [n for n in walk_local(h.node, include_root=False)
            if isinstance(n, ast.Return)]
    if any(isinstance(n, (ast.Yield, ast.YieldFrom))
           for n in walk_local(h.node, include_root=False)):
        return False
    if len(rets) > 1:
        return False
    if rets and rets[0] is not body[-1]:
        return False
    if h.node.args.vararg or h.node.args.kwarg:
        return False
    return True


def _fold_flag_bindings(fnode):
    """After inlining, a helper's flag parameter is a local bound once to the
    constant the call passed (`convert = True`): its reads are replaced by the
    constant and the `if` statements they decide are folded to the arm that
    runs, so that the view shows what this call does."""
    stores = {}
    for n in ast.walk(fnode):
        if isinstance(n, ast.Name) and isinstance(n.ctx, (ast.Store, ast.Del)):
            stores[n.id] = stores.get(n.id, 0) + 1
        elif isinstance(n, ast.arg):
            stores[n.arg] = stores.get(n.arg, 0) + 1
    flags = {}
    for st in ast.walk(fnode):
        if isinstance(st, ast.Assign) and len(st.targets) == 1 and \
                isinstance(st.targets[0], ast.Name) and \
                isinstance(st.value, ast.Constant) and \
                (isinstance(st.value.value, bool) or st.value.value is None) \
                and stores.get(st.targets[0].id) == 1:
            flags[st.targets[0].id] = st.value.value
    if not flags:
        return

    class _S(ast.NodeTransformer):
        def visit_Name(self, n):
            if isinstance(n.ctx, ast.Load) and n.id in flags:
                return ast.copy_location(ast.Constant(value=flags[n.id]), n)
            return n

        def _truth(self, t):
            if isinstance(t, ast.Constant):
                return bool(t.value)
            if isinstance(t, ast.UnaryOp) and isinstance(t.op, ast.Not):
                v = self._truth(t.operand)
                return None if v is None else not v
            if isinstance(t, ast.BoolOp):
                vs = [self._truth(x) for x in t.values]
                if isinstance(t.op, ast.And):
                    if any(v is False for v in vs):
                        return False
                    return True if all(v is True for v in vs) else None
                if any(v is True for v in vs):
                    return True
                return False if all(v is False for v in vs) else None
            if isinstance(t, ast.Compare) and len(t.ops) == 1 and \
                    isinstance(t.left, ast.Constant) and \
                    isinstance(t.comparators[0], ast.Constant) and \
                    isinstance(t.ops[0], (ast.Is, ast.IsNot)):
                same = t.left.value is t.comparators[0].value
                return same if isinstance(t.ops[0], ast.Is) else not same
            return None

        def visit_If(self, node):
            self.generic_visit(node)
            v = self._truth(node.test)
            if v is None:
                return node
            arm = node.body if v else node.orelse
            return arm or [ast.copy_location(ast.Pass(), node)]

        def visit_IfExp(self, node):
            self.generic_visit(node)
            v = self._truth(node.test)
            if v is None:
                return node
            return node.body if v else node.orelse

        def visit_While(self, node):
            self.generic_visit(node)
            if self._truth(node.test) is False:
                return node.orelse or [ast.copy_location(ast.Pass(), node)]
            return node

        def visit_BoolOp(self, node):
            self.generic_visit(node)
            # `True and x` -> x ; `False or x` -> x
            keep = []
            for v in node.values:
                tv = self._truth(v) if isinstance(v, ast.Constant) else None
                if isinstance(node.op, ast.And) and tv is True:
                    continue
                if isinstance(node.op, ast.Or) and tv is False:
                    continue
                keep.append(v)
            if not keep:
                return node.values[-1]
            if len(keep) == 1:
                return keep[0]
            node.values = keep
            return node
    _S().visit(fnode)


def inline_view(fn, depth=2, keep=()):
    """A copy of fn in which statements that call an inlinable local helper
    (`self.h(...)`, a module function, a nested function) as a whole
    statement - `h(...)`, `x = h(...)`, `return h(...)` - are replaced by the
    helper's body.  Used so that rules see through 'extract method'
    refactorings.  Helper locals that would collide with the caller's names
    are renamed."""
    counter = [0]
    used_global = set()

    def used_names(node):
        return {n.id for n in ast.walk(node) if isinstance(n, ast.Name)} | \
            {a.arg for a in ast.walk(node) if isinstance(a, ast.arg)}

    def expand_stmt(owner_fn, st, caller_names, level):
        call = None
        kind = None
        if isinstance(st, ast.Expr) and isinstance(st.value, ast.Call):
            call, kind = st.value, "expr"
        elif isinstance(st, ast.Assign) and isinstance(st.value, ast.Call):
            call, kind = st.value, "assign"
        elif isinstance(st, ast.Return) and isinstance(st.value, ast.Call):
            call, kind = st.value, "return"
        if call is None or level <= 0:
            return None
        h = resolve_local_call(owner_fn, call)
        if h is None or h is owner_fn or not _inlinable(h) or \
                h.qualname.split(".")[-1] in keep:
            return None
        if any(isinstance(a, ast.Starred) for a in call.args) or \
                any(k.arg is None for k in call.keywords):
            return None
        a = h.node.args
        params = [x.arg for x in a.posonlyargs + a.args]
        if params and params[0] in ("self", "cls") and \
                isinstance(call.func, ast.Attribute):
            params = params[1:]
        defaults = dict(zip(params[len(params) - len(a.defaults):], a.defaults))
        bound = {}
        for p, v in zip(params, call.args):
            bound[p] = v
        for k in call.keywords:
            bound[k.arg] = k.value
        for p in params:
            if p not in bound:
                if p in defaults:
                    bound[p] = defaults[p]
                else:
                    return None
        counter[0] += 1
        tag = "__h%d" % counter[0]
        caller_names = caller_names | used_global
        body = [_copy.deepcopy(s) for s in h.node.body
                if not (isinstance(s, ast.Expr)
                        and isinstance(s.value, ast.Constant))]
        # helper locals
        hlocals = set(params)
        for n in body:
            for x in ast.walk(n):
                if isinstance(x, ast.Name) and isinstance(x.ctx, ast.Store):
                    hlocals.add(x.id)
        rename = {}
        for name in hlocals:
            same_arg = name in bound and isinstance(bound[name], ast.Name) \
                and bound[name].id == name
            if name in caller_names and not same_arg:
                rename[name] = name + tag
        # names this inlining introduces are taken for later inlinings (the
        # same helper inlined twice must not re-bind one local twice)
        used_global.update(rename.get(n_, n_) for n_ in hlocals)
        pre = []
        for p in params:
            v = bound[p]
            if isinstance(v, ast.Name) and v.id == p:
                continue
            tgt = ast.Name(id=rename.get(p, p), ctx=ast.Store())
            pre.append(ast.copy_location(
                ast.Assign(targets=[tgt], value=_copy.deepcopy(v)), st))
        body = [_Rename(rename).visit(s) for s in body]
        out = pre + body
        if out and isinstance(out[-1], ast.Return):
            r = out.pop()
            if kind == "assign" and r.value is not None:
                out.append(ast.copy_location(
                    ast.Assign(targets=_copy.deepcopy(st.targets),
                               value=r.value), st))
            elif kind == "return":
                out.append(ast.copy_location(ast.Return(value=r.value), st))
            elif r.value is not None and kind == "expr":
                out.append(ast.copy_location(ast.Expr(value=r.value), st))
        elif kind == "assign":
            out.append(ast.copy_location(
                ast.Assign(targets=_copy.deepcopy(st.targets),
                           value=ast.Constant(value=None)), st))
        for s in out:
            ast.fix_missing_locations(s)
        # recursively expand inside the inlined body
        return expand_block(h, out, caller_names | hlocals |
                            set(rename.values()), level - 1)

    def expand_block(owner_fn, stmts, caller_names, level):
        res = []
        for st in stmts:
            rep = expand_stmt(owner_fn, st, caller_names, level)
            if rep is not None:
                res.extend(rep)
                continue
            if not isinstance(st, (ast.FunctionDef, ast.ClassDef)):
                for field in ("body", "orelse", "finalbody"):
                    sub = getattr(st, field, None)
                    if isinstance(sub, list) and sub and \
                            isinstance(sub[0], ast.stmt):
                        setattr(st, field, expand_block(owner_fn, sub,
                                                        caller_names, level))
                for hdl in getattr(st, "handlers", []) or []:
                    hdl.body = expand_block(owner_fn, hdl.body, caller_names,
                                            level)
            res.append(st)
        return res

    node = _copy.deepcopy(fn.node)
    node.body = expand_block(fn, node.body, used_names(fn.node), depth)
    ast.fix_missing_locations(node)
    # expression-level: calls to straight-line helpers (`return <expr>` after
    # single assignments) are replaced by the expression they compute
    from .dataflow import inline_helper_call

    class _ExprInline(ast.NodeTransformer):
        def __init__(self):
            self.level = 0

        def visit_FunctionDef(self, n):
            if n is node:
                self.generic_visit(n)
            return n

        def visit_Call(self, call):
            self.generic_visit(call)
            if self.level >= depth:
                return call
            h = resolve_local_call(fn, call)
            if h is None or h is fn or \
                    h.qualname.split(".")[-1] in keep or h.node.args.vararg or \
                    h.node.args.kwarg or any(
                        isinstance(a, ast.Starred) for a in call.args):
                return call
            if (dotted(call.func) or "").split(".")[-1] == "ceil_div":
                return call
            try:
                inl = inline_helper_call(
                    call, h.node,
                    drop_self=isinstance(call.func, ast.Attribute))
            except Exception:
                inl = None
            if inl is None:
                return call
            inl = _copy.deepcopy(inl)
            self.level += 1
            try:
                inl = self.visit(inl)
            finally:
                self.level -= 1
            return ast.copy_location(inl, call)

    _ExprInline().visit(node)
    _fold_flag_bindings(node)
    ast.fix_missing_locations(node)
    view = Function(fn.module, fn.qualname, node, cls=fn.cls, parent=fn.parent)
    view.inlined_from = fn
    return view


# ---------------------------------------------------------------------
# refactoring-tolerant text of a function (for template rules)
# ---------------------------------------------------------------------
def _const_table(module):
    tab = {}
    for name, val in module.constants.items():
        if isinstance(val, ast.Constant) and isinstance(
                val.value, (str, int, float, bytes)) and \
                not isinstance(val.value, bool):
            tab[name] = val
        elif isinstance(val, (ast.Tuple,)) and val.elts and all(
                isinstance(e, ast.Constant) for e in val.elts):
            tab[name] = val
    return tab


class _ConstSubst(ast.NodeTransformer):
    def __init__(self, table):
        self.table = table

    def visit_Name(self, node):
        if isinstance(node.ctx, ast.Load) and node.id in self.table:
            return _copy.deepcopy(self.table[node.id])
        return node


def cnorm(module, node):
    """norm() with the module's simple literal constants substituted for
    their names (`_GZ_SUFFIX` -> '.gz')."""
    from .canon import PROTECTED
    if not os.environ.get("NGS_NO_CANON"):
        return norm(node)       # already substituted when the module loaded
    tab = {k: v for k, v in _const_table(module).items()
           if k not in PROTECTED}
    if not tab:
        return norm(node)
    new = _ConstSubst(tab).visit(_copy.deepcopy(node))
    ast.fix_missing_locations(new)
    return norm(new)


def ftext(fn):
    """Text of a function for template matching: the function as written
    plus the same function with local helpers inlined, both with module
    constants substituted.  A template found in either form counts."""
    cache = fn.module.repo.__dict__.setdefault("_ftext_cache", {})
    key = getattr(fn, "inlined_from", fn).key
    if key not in cache:
        base = getattr(fn, "inlined_from", fn)
        try:
            inl = inline_view(base)
            t2 = cnorm(base.module, inl.node)
        except Exception:          # inlining is best effort
            t2 = ""
        cache[key] = cnorm(base.module, base.node) + "\n#inlined#\n" + t2
    return cache[key]


def closure_text(fn, depth=2):
    """ftext of fn and of every local helper it reaches (presence-type
    templates: the construct may live in an extracted helper)."""
    base = getattr(fn, "inlined_from", fn)
    return "\n#helper#\n".join(ftext(h) for h in helper_closure(base, depth))


def returned_closure(outer):
    """The nested function that `outer` returns (`def inner(...)` ...
    `return inner`), or None when it returns something else (a callable
    object, a functools.partial, ...)."""
    found = None
    for st in stmts_of(outer.node):
        if isinstance(st, ast.Return) and isinstance(st.value, ast.Name):
            cand = outer.module.functions.get(outer.qualname + "." +
                                              st.value.id)
            if cand is None:
                return None
            if found is not None and cand is not found:
                return None
            found = cand
        elif isinstance(st, ast.Return) and st.value is not None:
            return None
    return found


def calls_postorder(node):
    """Calls inside an expression / simple statement in evaluation order:
    arguments (inner calls) before the call that receives them, siblings left
    to right."""
    out = []

    def visit(n):
        if isinstance(n, (ast.FunctionDef, ast.AsyncFunctionDef, ast.Lambda,
                          ast.ClassDef)) and n is not node:
            return
        for ch in ast.iter_child_nodes(n):
            visit(ch)
        if isinstance(n, ast.Call):
            out.append(n)
    visit(node)
    return out


def ordered_calls(stmts):
    """Calls of a statement list in execution-like source order: statement by
    statement, headers before bodies, by position inside a simple
    statement."""
    out = []
    for st in stmts:
        if isinstance(st, (ast.FunctionDef, ast.AsyncFunctionDef,
                           ast.ClassDef)):
            continue
        kids = list(iter_child_stmts(st))
        if not kids:
            out += calls_postorder(st)
            continue
        hdr = []
        for field, value in ast.iter_fields(st):
            if field in ("body", "orelse", "finalbody", "handlers", "cases"):
                continue
            for sub in (value if isinstance(value, list) else [value]):
                if isinstance(sub, ast.AST):
                    hdr += calls_postorder(sub)
        out += hdr
        out += ordered_calls(kids)
    return out


def calls_through_helpers(fn, depth=2):
    """[(call, owner function)] in execution-like order, descending into
    local helpers at their call sites (each helper expanded where called)."""
    out = []

    def walk(f, level, stack):
        for c in ordered_calls(f.node.body):
            h = resolve_local_call(f, c)
            if h is not None and h.key not in stack and level > 0:
                walk(h, level - 1, stack | {h.key})
            else:
                out.append((c, f))
    walk(fn, depth, {fn.key})
    return out


def minishard_buffer_attr(repo):
    """Name of MiniShard's reorder buffer attribute (the dict in which
    early chunks are parked), found structurally: the self attribute that
    MiniShard.__init__ binds to `OnDiskBytesDict()` or `dict()`."""
    try:
        init = repo.func("sharded_file_accessor", "MiniShard.__init__")
    except AnalysisError:
        return "_chunk_buffer"
    for h in helper_closure(init):
        for st in stmts_of(h.node):
            if not isinstance(st, (ast.Assign, ast.AnnAssign)) or \
                    st.value is None:
                continue
            tgt = st.targets[0] if isinstance(st, ast.Assign) else st.target
            if isinstance(tgt, ast.Attribute) and isinstance(
                    tgt.value, ast.Name) and tgt.value.id == "self":
                names = {(dotted(c.func) or "") for c in ast.walk(st.value)
                         if isinstance(c, ast.Call)}
                if "OnDiskBytesDict" in names or names == {"dict"}:
                    return tgt.attr
    return "_chunk_buffer"


def attr_constants(repo, cls):
    """{attr: expression} for instance attributes that the class (and its
    bases) assign exactly once, from an expression over other attributes and
    the parameters the same method stores as attributes (`self.x = x`): such
    an attribute is a name for that expression."""
    counts, values = {}, {}
    # a parameter handed to the base constructor is stored there under its
    # own name (super().__init__(shard_spec) -> self.shard_spec = shard_spec)
    stored_any = {}
    for c in repo.mro(cls):
        for mf in c.methods.values():
            for st in ast.walk(mf.node):
                if isinstance(st, ast.Assign) and len(st.targets) == 1 and \
                        isinstance(st.targets[0], ast.Attribute) and \
                        isinstance(st.targets[0].value, ast.Name) and \
                        st.targets[0].value.id == "self" and \
                        isinstance(st.value, ast.Name) and \
                        st.value.id in mf.params and \
                        st.targets[0].attr == st.value.id:
                    stored_any[st.value.id] = st.targets[0].attr
    for c in repo.mro(cls):
        for mf in c.methods.values():
            stored = {p_: a_ for p_, a_ in stored_any.items()
                      if p_ in mf.params}
            for st in ast.walk(mf.node):
                if isinstance(st, ast.Assign) and len(st.targets) == 1 and \
                        isinstance(st.targets[0], ast.Attribute) and \
                        isinstance(st.targets[0].value, ast.Name) and \
                        st.targets[0].value.id == "self" and \
                        isinstance(st.value, ast.Name) and \
                        st.value.id in mf.params:
                    stored[st.value.id] = st.targets[0].attr
            for st in ast.walk(mf.node):
                tg = []
                if isinstance(st, ast.Assign):
                    tg = st.targets
                elif isinstance(st, (ast.AugAssign, ast.AnnAssign)):
                    tg = [st.target]
                for t in tg:
                    if isinstance(t, ast.Attribute) and \
                            isinstance(t.value, ast.Name) and \
                            t.value.id == "self":
                        counts[t.attr] = counts.get(t.attr, 0) + (
                            1 if isinstance(st, ast.Assign) else 2)
                        if isinstance(st, ast.Assign) and st.value is not None:
                            v = _copy.deepcopy(st.value)

                            class R(ast.NodeTransformer):
                                def visit_Name(self, n):
                                    if n.id in stored and \
                                            isinstance(n.ctx, ast.Load):
                                        return ast.copy_location(
                                            ast.Attribute(
                                                value=ast.Name(id="self",
                                                               ctx=ast.Load()),
                                                attr=stored[n.id],
                                                ctx=ast.Load()), n)
                                    return n
                            v = R().visit(v)
                            locs = {n.id for n in ast.walk(v)
                                    if isinstance(n, ast.Name)} - {"self", "np",
                                                                   "numpy"}
                            if not locs:
                                values[t.attr] = v
    return {a: v for a, v in values.items() if counts.get(a) == 1}


def expand_attrs(expr, table, depth=3):
    """expr with `self.<attr>` replaced by the attribute's defining
    expression (see attr_constants), repeatedly."""
    for _ in range(depth):
        changed = [False]

        class R(ast.NodeTransformer):
            def visit_Attribute(self, n):
                if isinstance(n.value, ast.Name) and n.value.id == "self" \
                        and n.attr in table and isinstance(n.ctx, ast.Load):
                    changed[0] = True
                    return _copy.deepcopy(table[n.attr])
                return self.generic_visit(n)
        expr = R().visit(_copy.deepcopy(expr))
        if not changed[0]:
            break
    return expr


# ---------------------------------------------------------------------
# properties of other objects and struct sizes as expressions
# ---------------------------------------------------------------------
def _struct_format(module, e, depth=0):
    """Format string of a struct.Struct(...) expression (possibly through a
    module constant), else None."""
    if isinstance(e, ast.Call) and (module.resolve(dotted(e.func) or "") or "") \
            == "struct.Struct" and e.args and \
            isinstance(e.args[0], ast.Constant) and \
            isinstance(e.args[0].value, str):
        return e.args[0].value
    if isinstance(e, ast.Name) and depth < 3:
        v = module.const(e.id)
        if v is not None and v is not e:
            return _struct_format(module, v, depth + 1)
    return None


def expand_properties(repo, module, expr, depth=3):
    """expr in which
      * `<obj>.<p>` is replaced by the returned expression of the property
        <p> when exactly one class of the package defines a member of that
        name, it is a property and its body is a single return (`self`
        becomes <obj>);
      * a name of a non-scalar module constant is replaced by its value;
      * `<Struct>.size` and struct.calcsize(fmt) become integer constants.
    The result is for recognition only (it is not type-checked)."""
    import struct as _struct
    props = repo.__dict__.setdefault("_prop_index", None)
    if props is None:
        props = {}
        for m in repo.modules.values():
            for c in m.classes.values():
                for name, f in c.methods.items():
                    props.setdefault(name, []).append(f)
        repo.__dict__["_prop_index"] = props

    for _ in range(depth):
        changed = [False]

        class R(ast.NodeTransformer):
            def visit_Attribute(self, n):
                n = self.generic_visit(n)
                if not isinstance(n.ctx, ast.Load):
                    return n
                if n.attr == "size":
                    fmt = _struct_format(module, n.value)
                    if fmt is not None:
                        try:
                            changed[0] = True
                            return ast.Constant(value=_struct.calcsize(fmt))
                        except _struct.error:
                            return n
                owners = props.get(n.attr, [])
                if len(owners) == 1 and any(
                        "property" in norm(d)
                        for d in owners[0].node.decorator_list):
                    rets = [x for x in walk_local(owners[0].node)
                            if isinstance(x, ast.Return) and
                            x.value is not None]
                    body = [s for s in owners[0].node.body
                            if not (isinstance(s, ast.Expr) and
                                    isinstance(s.value, ast.Constant))]
                    if len(rets) == 1 and len(body) == 1:
                        recv = n.value

                        class S(ast.NodeTransformer):
                            def visit_Name(self, x):
                                if x.id == "self":
                                    return _copy.deepcopy(recv)
                                return x
                        changed[0] = True
                        return S().visit(_copy.deepcopy(rets[0].value))
                return n

            def visit_Call(self, n):
                n = self.generic_visit(n)
                if (module.resolve(dotted(n.func) or "") or "") == \
                        "struct.calcsize" and n.args and \
                        isinstance(n.args[0], ast.Constant):
                    try:
                        changed[0] = True
                        return ast.Constant(
                            value=_struct.calcsize(n.args[0].value))
                    except (_struct.error, TypeError):
                        return n
                return n

            def visit_Name(self, n):
                if isinstance(n.ctx, ast.Load):
                    v = None
                    for mm in [module] + [m_ for m_ in repo.modules.values()
                                          if m_ is not module]:
                        if n.id in mm.constants and n.id.isupper():
                            v = mm.const(n.id)
                            home = mm
                            break
                    if v is not None and not isinstance(v, ast.Constant) and \
                            len(norm(v)) < 80:
                        changed[0] = True
                        w = _copy.deepcopy(v)
                        # struct sizes inside the constant's own module
                        if isinstance(w, ast.Attribute) and w.attr == "size":
                            fmt = _struct_format(home, w.value)
                            if fmt is not None:
                                try:
                                    return ast.Constant(
                                        value=_struct.calcsize(fmt))
                                except _struct.error:
                                    pass
                        return w
                return n
        expr = R().visit(_copy.deepcopy(expr))
        ast.fix_missing_locations(expr)
        if not changed[0]:
            break
    return expr


def specialise(h, call, bound=False):
    """A copy of the function h as this call runs it: parameters that the
    call binds to constants (or leaves at constant defaults) are replaced by
    those constants and the tests they decide are folded.  `bound`: the call
    goes through an object (drop the receiver parameter unless h is a
    staticmethod).  Returns a Function view, or None when the arguments
    cannot be lined up."""
    a = h.node.args
    names = [x.arg for x in a.posonlyargs + a.args]
    static = any(norm(d) == "staticmethod" for d in h.node.decorator_list)
    if bound and not static and names:
        names = names[1:]
    if any(isinstance(x, ast.Starred) for x in call.args) or \
            len(call.args) > len(names) and a.vararg is None:
        return None
    consts = {}
    all_names = [x.arg for x in a.posonlyargs + a.args]
    defaults = dict(zip(all_names[len(all_names) - len(a.defaults):],
                        a.defaults))
    defaults.update({x.arg: d for x, d in zip(a.kwonlyargs, a.kw_defaults)
                     if d is not None})
    given = dict(zip(names, call.args))
    given.update({k.arg: k.value for k in call.keywords if k.arg})
    if any(k.arg is None for k in call.keywords):
        defaults = {}           # **kwargs may bind anything
    for p in names + [x.arg for x in a.kwonlyargs]:
        v = given.get(p, defaults.get(p))
        if isinstance(v, ast.Constant) and (isinstance(v.value, bool)
                                            or v.value is None):
            consts[p] = v.value
    node = _copy.deepcopy(h.node)
    pre = [ast.Assign(targets=[ast.Name(id=p, ctx=ast.Store())],
                      value=ast.Constant(value=v)) for p, v in consts.items()]
    # the parameter itself counts as a store in _fold_flag_bindings: rename
    # the argument so that the binding is the only one
    for x in node.args.posonlyargs + node.args.args + node.args.kwonlyargs:
        if x.arg in consts:
            x.arg = x.arg + "__arg"
    node.body = pre + node.body
    ast.fix_missing_locations(node)
    _fold_flag_bindings(node)
    ast.fix_missing_locations(node)
    view = Function(h.module, h.qualname, node, cls=h.cls, parent=h.parent)
    view.inlined_from = h
    return view


def is_new_module(modname):
    """The reference tree (ngslint/vocab.json) has no module of that name."""
    _is_new_helper("x", modname)        # loads the vocabulary
    return bool(_VOCAB) and modname not in _VOCAB


def opens_file(fn, call, depth=0):
    """The call evaluates to a freshly opened file object: open / os.fdopen /
    Path.open / gzip.open, or a helper of the package every return of which
    is such a call."""
    nm = (call_name(call) or "")
    leaf = nm.split(".")[-1]
    if leaf in ("open", "fdopen") or nm in ("gzip.open", "io.open"):
        return True
    if depth >= 2:
        return False
    h = resolve_local_call(fn, call)
    if h is None or h is fn:
        return False
    rets = [r for r in stmts_of(h.node)
            if isinstance(r, ast.Return) and r.value is not None]
    return bool(rets) and all(isinstance(r.value, ast.Call) and
                              opens_file(h, r.value, depth + 1) for r in rets)
