"""Further structural rules added after the first mutant round (each is a
necessary condition of the property it is listed under in props.py).
Shape-recognition is open-world: unrecognised code is UNDECIDED."""
import ast

from .core import (ftext, AnalysisError, dotted, norm, walk_local, const_int,
                   stmts_of, calls_in, call_name, kwarg, enclosing_stmt_map)
from .dataflow import local_defs, names_in, closure_names, holds
from .intexpr import canon, canon_src, poly, pstr, NotInt


def _canon(node, subst=None):
    try:
        return canon(node, subst)
    except NotInt:
        return None


# ---------------------------------------------------------------------
# Shard.close: per-minishard sequence (C04, C05)
# ---------------------------------------------------------------------
def shard_close_sequence(repo, col):
    rule = "E-ORDER.shard-assembly"
    fn = repo.func("sharded_file_accessor", "Shard.close", inline=True)
    loops = [s for s in stmts_of(fn.node) if isinstance(s, ast.For)
             and "sorted_mini_dict" in norm(s.iter)]
    if len(loops) < 2:
        col.add(rule, fn, "data loop / index loop", True, "the two loops over "
                "the sorted minishards are not in the recognised form",
                undecided=True)
        return
    data_loop, idx_loop = loops[0], loops[1]
    v = data_loop.target.id if isinstance(data_loop.target, ast.Name) else "?"

    def index_of(pred, body):
        for i, st in enumerate(body):
            if pred(st):
                return i
        return None
    body = data_loop.body
    i_close = index_of(lambda s: isinstance(s, ast.Expr) and
                       norm(s.value) == "%s.close()" % v, body)
    i_write = index_of(lambda s: isinstance(s, ast.For) and
                       "%s.databytearray" % v in norm(s.iter) and
                       any((call_name(c) or "").endswith(".write")
                           for c in calls_in(s)), body)
    i_off = index_of(lambda s: isinstance(s, ast.Assign) and
                     norm(s.targets[0]) == "%s.offset" % v, body)
    i_inc = index_of(lambda s: isinstance(s, ast.AugAssign) and
                     isinstance(s.op, ast.Add) and
                     "len(%s.databytearray)" % v in norm(s.value), body)
    i_del = index_of(lambda s: isinstance(s, ast.Delete) and
                     "%s.databytearray" % v in norm(s), body)
    if None in (i_close, i_write, i_off, i_inc):
        col.add(rule, fn, "close / write / offset / size steps", True,
                "data loop body not in the recognised form", undecided=True)
    else:
        ok = i_close < i_write and i_close < i_inc
        col.add(rule, fn, "minishard.close() before its data is written and "
                "measured", ok, "" if ok else "the minishard's data is written "
                "or measured before close() has flushed its reorder buffer")
        off_var = norm(body[i_off].value)
        inc_var = norm(body[i_inc].target)
        ok = i_off < i_inc and off_var == inc_var
        col.add(rule, fn, "offset = running size, then size += len(data)", ok,
                "" if ok else "a minishard's first-chunk offset is not the "
                "total size of the data written before it (offset taken after "
                "the increment, or from another variable)")
        if i_del is not None:
            ok = i_del > i_write and i_del > i_inc
            col.add(rule, fn, "buffer deleted after use", ok, "" if ok else
                    "the data buffer is deleted before it was written / "
                    "measured")
    # index loop: start entry, encoded index written, size advanced, end entry
    ib = idx_loop.body
    packs = [i for i, s in enumerate(ib)
             if any((call_name(c) or "") == "struct.pack" for c in calls_in(s))]
    i_enc = index_of(lambda s: isinstance(s, ast.Assign) and
                     "index_encoder(" in norm(s.value), ib)
    i_wr = index_of(lambda s: isinstance(s, ast.Expr) and
                    (call_name(s.value) or "").endswith(".write"), ib)
    i_adv = index_of(lambda s: isinstance(s, ast.AugAssign) and
                     "len(hdr_buf)" in norm(s.value), ib)
    if len(packs) != 2 or None in (i_enc, i_wr, i_adv):
        col.add(rule, fn, "index loop steps", True, "index loop body not in "
                "the recognised form", undecided=True)
        return
    ok = i_enc < i_wr and i_enc < i_adv
    col.add(rule, fn, "encoded minishard index is what is written and "
            "measured", ok, "" if ok else "the minishard index is written or "
            "measured before index_encoder is applied")
    ok = packs[0] < i_adv < packs[1]
    col.add(rule, fn, "start entry, advance by len(index), end entry", ok,
            "" if ok else "start / end offsets of a minishard index do not "
            "bracket its encoded length")
    vals = []
    for k in packs:
        for c in calls_in(ib[k]):
            if (call_name(c) or "") == "struct.pack":
                vals.append(norm(c.args[1]))
    ok = len(set(vals)) == 1
    col.add(rule, fn, "both entries = data size + running index size", ok,
            "" if ok else "start and end entries are computed from different "
            "expressions: %s" % vals)
    # padding entries for unused minishards are empty (start == end)
    pads = [s for s in stmts_of(fn.node) if isinstance(s, ast.While)
            and "sh_idx_len" in norm(s.test)]
    if pads:
        pv = [norm(c.args[1]) for c in calls_in(pads[0])
              if (call_name(c) or "") == "struct.pack"]
        ok = len(pv) == 2 and pv[0] == pv[1]
        col.add(rule, fn, "padding entries have start == end", ok,
                "" if ok else "padding entries of the shard index are not "
                "empty ranges", undecided=len(pv) != 2)


# ---------------------------------------------------------------------
# min/max rescaling composed with the header scaling (C01)
# ---------------------------------------------------------------------
def scaling_composition(repo, col):
    rule = "E-SPEC.scaling"
    fn = repo.func("volume_reader", "nibabel_image_to_precomputed")
    defs = local_defs(fn.node)

    def single(name):
        vs = [d.value for d in defs.get(name, []) if d.value is not None]
        return vs[0] if len(vs) == 1 else None
    ps, pi = single("postscaling_slope"), single("postscaling_inter")
    if ps is None or pi is None:
        col.add(rule, fn, "postscaling slope / intercept", True,
                "rescaling not in the recognised form", undecided=True)
        return
    want_slope = canon_src("(output_max - output_min) / (input_max - input_min)")
    # the output range under a record: `r = helper(output_dtype)`, then
    # r.min / r.max (and properties of the record such as r.span) are the
    # bounds the rule knows as output_min / output_max
    import copy as _cp
    from .core import expand_properties

    def _range_record(name):
        vs = [d.value for d in defs.get(name, []) if d.value is not None]
        return len(vs) == 1 and isinstance(vs[0], ast.Call) and any(
            "output" in n_ for a_ in list(vs[0].args) + [
                k.value for k in vs[0].keywords] for n_ in names_in(a_))

    class _Roles(ast.NodeTransformer):
        def visit_Attribute(self, n):
            n = self.generic_visit(n)
            if isinstance(n.value, ast.Name) and n.attr in ("min", "max") \
                    and _range_record(n.value.id):
                return ast.copy_location(
                    ast.Name(id="output_" + n.attr, ctx=ast.Load()), n)
            return n

    def _prep(e):
        e = expand_properties(repo, fn.module, _cp.deepcopy(e))
        return ast.fix_missing_locations(_Roles().visit(e))

    def _opaque(e):
        return any(isinstance(x, (ast.Attribute, ast.Call, ast.Subscript))
                   for x in ast.walk(e))
    ps2, pi2 = _prep(ps), _prep(pi)
    got = _canon(ps2)
    und = got is None or (got != want_slope and _opaque(ps2))
    col.add(rule, fn, "slope = (out_max - out_min) / (in_max - in_min)",
            got == want_slope or und, "" if got == want_slope else
            "post-scaling slope is %s" % got, undecided=und and
            got != want_slope)
    got = _canon(pi2)
    want = canon_src("output_min - input_min * postscaling_slope")
    und = got is None or (got != want and _opaque(pi2))
    col.add(rule, fn, "intercept = out_min - in_min * slope",
            got == want or und,
            "input_min maps to the target minimum" if got == want else
            "post-scaling intercept is %s: input_min no longer maps to the "
            "target minimum" % got, undecided=und and got != want)
    # composition with the header's own scaling
    sl = il = None
    for st in stmts_of(fn.node):
        if isinstance(st, ast.Assign) and norm(st.targets[0]) == "proxy._slope" \
                and "postscaling" in norm(st.value):
            sl = st.value
        if isinstance(st, ast.Assign) and norm(st.targets[0]) == "proxy._inter" \
                and "postscaling" in norm(st.value):
            il = st.value
    if sl is None or il is None:
        col.add(rule, fn, "composition with header scaling", True,
                "proxy slope / intercept rewrite not found", undecided=True)
        return
    ok = _canon(sl) == canon_src("prescaling_slope * postscaling_slope")
    col.add(rule, fn, "slope' = header slope * post slope", ok,
            "" if ok else "composed slope is %s" % _canon(sl))
    ok = _canon(il) == canon_src("prescaling_inter * postscaling_slope + "
                                 "postscaling_inter")
    col.add(rule, fn, "inter' = header inter * post slope + post inter", ok,
            "(v*s + i)*s' + i' = v*(s*s') + (i*s' + i')" if ok else
            "composed intercept is %s: the header intercept is not carried "
            "through the second scaling" % _canon(il))
    pre = [norm(single(n)) if single(n) is not None else None
           for n in ("prescaling_slope", "prescaling_inter")]
    ok = all(p is not None and (p.endswith(".slope") or p.endswith(".inter"))
             and "header" not in p for p in pre)
    alldefs = [norm(d.value) for n in ("prescaling_slope", "prescaling_inter")
               for d in defs.get(n, []) if d.value is not None]
    from_header = any("header" in p or "get_slope_inter" in p for p in alldefs)
    col.add(rule, fn, "header scaling read from the array proxy", ok,
            "" if ok else "pre-scaling is read from %s (nibabel resets the "
            "header fields of a loaded image; the array proxy keeps them)"
            % pre, undecided=not ok and not from_header)
    # default input_min
    txt = ftext(fn)
    ok = "if input_min is None: input_min = 0" in txt.replace("\n", " ")
    col.add(rule, fn, "input_min defaults to 0", ok, "" if ok else
            "omitted --input-min no longer means 0", undecided=not ok)


# ---------------------------------------------------------------------
# VTK export grammar (C17)
# ---------------------------------------------------------------------
def vtk_grammar(repo, col):
    rule = "E-SPEC.vtk"
    fn = repo.func("mesh", "save_mesh_as_neuroglancer_vtk")
    writes = []
    from .core import calls_through_helpers
    from .dataflow import single_defs, expand
    for c, owner_f in calls_through_helpers(fn):
        if isinstance(c.func, ast.Attribute) and c.func.attr == "write" and \
                c.args:
            a = expand(c.args[0], single_defs(owner_f.node), depth=2)
            if isinstance(a, ast.Call) and isinstance(a.func, ast.Attribute) \
                    and a.func.attr == "format":
                a = a.func.value
            def text_of(a, depth=0):
                """Literal text of a written expression, with `{}` for the
                parts that are computed."""
                if isinstance(a, ast.Constant) and isinstance(a.value, str):
                    return a.value
                if isinstance(a, ast.Name) and depth < 3:
                    v = owner_f.module.const(a.id)
                    if v is not None:
                        return text_of(v, depth + 1)
                    return "{}"
                if isinstance(a, ast.JoinedStr):
                    out = ""
                    for v in a.values:
                        if isinstance(v, ast.Constant):
                            out += str(v.value)
                        elif isinstance(v, ast.FormattedValue) and \
                                isinstance(v.value, ast.Name) and depth < 3 \
                                and owner_f.module.const(v.value.id) is not \
                                None and v.format_spec is None:
                            out += text_of(owner_f.module.const(v.value.id),
                                           depth + 1) or "{}"
                        else:
                            out += "{}"
                    return out
                if isinstance(a, ast.BinOp) and isinstance(a.op, ast.Add):
                    l, r = text_of(a.left, depth), text_of(a.right, depth)
                    return (l or "{}") + (r or "{}")
                if isinstance(a, ast.Call) and \
                        isinstance(a.func, ast.Attribute) and \
                        a.func.attr == "format":
                    return text_of(a.func.value, depth)
                return None
            t_ = text_of(a)
            if t_ is not None:
                writes.append(t_)
    want = ["# vtk DataFile Version 3.0\n", None, "ASCII\n",
            "DATASET POLYDATA\n", "POINTS ", "POLYGONS ", "POINT_DATA ",
            "SCALARS ", None, "\nLOOKUP_TABLE "]
    # the keywords appear in this order in the text that is written (one
    # write per keyword or several keywords in one write)
    stream = "\x00".join(writes)
    pos = 0
    missing = []
    for w in want:
        if w is None:
            continue
        k = stream.find(w.strip("\n"), pos)
        if k < 0:
            missing.append(w.strip())
        else:
            pos = k + len(w.strip("\n"))
    # a keyword that is not written by this function or its local helpers
    # but does occur as a literal elsewhere in the module (a writer class, a
    # table of section names) is not evidence of a defect
    und_v = False
    if missing:
        mod_lits = " ".join(
            n_.value for n_ in ast.walk(fn.module.tree)
            if isinstance(n_, ast.Constant) and isinstance(n_.value, str))
        found_kw = [w.strip() for w in want if w is not None
                    and w.strip() not in missing]
        und_v = all(k_ in mod_lits for k_ in missing) and \
            len(found_kw) < 3
    col.add(rule, fn, "header, ASCII, DATASET POLYDATA, POINTS, POLYGONS, "
            "POINT_DATA, SCALARS, LOOKUP_TABLE in order",
            not missing or und_v,
            "" if not missing else "keyword(s) %s missing or out of order in "
            "the VTK output" % missing, undecided=bool(missing) and und_v)
    for c in calls_in(fn.node):
        if (call_name(c) or "").endswith("np.insert") and len(c.args) >= 3 \
                and const_int(c.args[2]) is not None:
            k = const_int(c.args[2])
            col.add(rule, fn, "polygon vertex count prefix %d" % k, k == 3,
                    "" if k == 3 else "each POLYGONS line is prefixed with %d "
                    "although it lists 3 vertex indices" % k, node=c)
    txt = ftext(fn)
    for p, why in (("np.insert(triangles, 0, 3, axis=1)", "each polygon line "
                    "does not start with its vertex count 3"),
                   ("{4 * triangles.shape[0]:d}", "POLYGONS size is not 4 "
                    "integers per triangle"),
                   ("title[:255]", "title is not truncated to 255 characters"),
                   ("assert '\\n' not in title", "title may contain a newline"),
                   ("vertices.astype(np.float32)", "points are not written as "
                    "float32")):
        col.add(rule, fn, p, p in txt, "" if p in txt else why,
                undecided=p not in txt)


def mesh_conversion(repo, col):
    rule = "E-SPEC.mesh-script"
    fn = repo.func("scripts.mesh_to_precomputed", "mesh_file_to_precomputed")
    txt = ftext(fn)
    for p, why in (
            ("if 'mesh' not in info: info['mesh'] = mesh_dir",
             "the info 'mesh' key is not set when missing"),
            ("overwrite_info=True", "the updated info is not written back"),
            ("if mesh_dir != info['mesh']:", "a --mesh-dir that contradicts "
             "the info is not rejected"),
            ("accessor.store_file(mesh_dir + '/' + mesh_name, "
             "io_buf.getvalue(), mime_type='application/octet-stream')",
             "fragment is not stored as <mesh dir>/<mesh name>"),
            ("triangles.astype('uint32')", "triangles are not converted to "
             "uint32")):
        t = txt.replace("\n", " ")
        while "  " in t:
            t = t.replace("  ", " ")
        ok = p in t
        col.add(rule, fn, p[:60], ok, "" if ok else why, undecided=not ok)
    # transform applied before the unit conversion; translation is in mm
    order = [i for i, s in enumerate(stmts_of(fn.node))
             if "affine_transform_mesh" in norm(s) and isinstance(s, ast.Assign)]
    scale = [i for i, s in enumerate(stmts_of(fn.node))
             if isinstance(s, ast.Assign) and norm(s.targets[0]) == "points"
             and ("1000000.0 *" in norm(s.value) or "* 1000000.0" in norm(s.value)
                  or "1e6" in norm(s.value))]
    ok = bool(order) and bool(scale) and order[0] < scale[-1]
    col.add(rule, fn, "affine (mm) applied before the mm -> nm scaling", ok,
            "" if ok else "unit conversion happens before the millimetre "
            "transform is applied", undecided=not order or not scale)


def compact_json(repo, col):
    rule = "E-SPEC.transform.compact"
    fn = repo.func("transform", "matrix_as_compact_urlsafe_json")
    txt = ftext(fn)
    for p, why in (("separators=('_', ':')", "URL-safe separators changed"),
                   ("int(x) if str(x).endswith('.0') and int(x) == x else x",
                    "integer-looking floats are not printed as the same "
                    "integer value")):
        col.add(rule, fn, p, p in txt, "" if p in txt else why,
                undecided=p not in txt)


# ---------------------------------------------------------------------
# pyramid factor arithmetic (C06)
# ---------------------------------------------------------------------
def pyramid_factor_templates(repo, col):
    rule = "E-TILE.pyramid-factors"
    fn = repo.func("dyadic_pyramid", "compute_dyadic_downscaling")
    defs = local_defs(fn.node)

    def comp(name):
        vs = [d.value for d in defs.get(name, []) if isinstance(d.value,
                                                                ast.ListComp)]
        return vs[0] if len(vs) == 1 else None
    for name, elt_want, srcs_want in (
            ("downscaling_factors", None, ["old_size", "new_size"]),
            ("half_chunk", "FLOORDIV", ["old_chunk_size",
                                        "downscaling_factors"]),
            ("chunk_fetch_factor", "FLOORDIV", ["new_chunk_size",
                                                "half_chunk"])):
        lc = comp(name)
        if lc is None:
            col.add(rule, fn, name, True, "%s is not a list comprehension"
                    % name, undecided=True)
            continue
        it = lc.generators[0].iter
        srcs = [norm(a) for a in it.args] if isinstance(it, ast.Call) and \
            call_name(it) == "zip" else [norm(it)]
        ok = srcs == srcs_want
        col.add(rule, fn, "%s over zip(%s)" % (name, ", ".join(srcs)), ok,
                "" if ok else "%s pairs %s, expected %s" % (name, srcs,
                                                            srcs_want))
        if elt_want == "FLOORDIV":
            tn = [t.id for t in lc.generators[0].target.elts] \
                if isinstance(lc.generators[0].target, ast.Tuple) else []
            c = _canon(lc.elt)
            ok = len(tn) == 2 and c == "FLOORDIV(%s, %s)" % (tn[0], tn[1])
            col.add(rule, fn, "%s element = %s" % (name, c), ok, "" if ok else
                    "%s is not the per-axis quotient of its two sources"
                    % name, undecided=c is None)
        else:
            t = norm(lc.elt)
            tn = [x.id for x in lc.generators[0].target.elts]
            ok = t == "1 if %s == %s else 2" % (tn[0], tn[1])
            col.add(rule, fn, "factor = 1 if sizes equal else 2", ok,
                    "" if ok else "downscaling factor per axis is `%s`" % t,
                    undecided=not ok and "if" not in t)
    # the downscaled old chunk is what gets copied
    from .core import helper_closure
    top = repo.func("dyadic_pyramid", "compute_dyadic_downscaling")
    ld = None
    for h in helper_closure(top, depth=3):
        if h is not top and any(isinstance(c.func, ast.Attribute) and
                                c.func.attr == "read_chunk"
                                for c in calls_in(h.node)):
            ld = h
    if ld is None:
        col.add(rule, top, "read old chunk, downscale by the level's factors",
                True, "the function that reads the old chunks is not a local "
                "helper of compute_dyadic_downscaling", undecided=True)
        return
    # return downscale(read_chunk(key, coords), factors)
    from .dataflow import single_defs, expand
    ltab = single_defs(ld.node)
    ok = False
    for st in stmts_of(ld.node):
        if isinstance(st, ast.Return) and st.value is not None:
            v = expand(st.value, ltab)
            if isinstance(v, ast.Call) and isinstance(v.func, ast.Attribute) \
                    and v.func.attr == "downscale" and len(v.args) == 2 and \
                    isinstance(v.args[0], ast.Call) and \
                    isinstance(v.args[0].func, ast.Attribute) and \
                    v.args[0].func.attr == "read_chunk" and \
                    "factor" in norm(v.args[1]):
                ok = True
    col.add(rule, ld, "read old chunk, downscale by the level's factors", ok,
            "" if ok else "loader does not return downscale(read_chunk(old "
            "key, old coords), factors)", undecided=not ok)


def new_dataset_defaults(repo, col):
    rule = "E-SIB.store.defaults"
    fn = repo.func("precomputed_io", "get_IO_for_new_dataset")
    a = fn.node.args
    ps = a.posonlyargs + a.args
    ds = [None] * (len(ps) - len(a.defaults)) + list(a.defaults)
    dv = None
    for x, d in zip(ps, ds):
        if x.arg == "overwrite_info":
            dv = d.value if isinstance(d, ast.Constant) else "?"
    col.add(rule, fn, "overwrite_info=False", dv is False, "" if dv is False
            else "writing an info file overwrites an existing one by default")
    t = ftext(fn)
    ok = "overwrite=overwrite_info" in t and "accessor.store_file('info'" in t
    col.add(rule, fn, "store_file('info', ..., overwrite=overwrite_info)", ok,
            "" if ok else "the info file is not stored with the caller's "
            "overwrite permission", undecided=not ok)
    ok = "json.dumps(info, separators=(',', ':'), sort_keys=True)" in t
    col.add(rule, fn, "info serialised deterministically", ok, "" if ok else
            "info serialisation changed", undecided=not ok)


def sharded_http_urls(repo, col):
    rule = "E-SIB.dispatch.urls"
    gs = repo.func("sharded_http_accessor", "HttpShardedScale.get_shard")
    t = ftext(gs)
    ok = "HttpShard(f'{self.base_url}{self.key}/', self._session, shard_key, " \
        "self.shard_spec)" in t
    wrong = False
    for c in calls_in(gs.node):
        if (call_name(c) or "") == "HttpShard" and c.args and \
                isinstance(c.args[0], ast.JoinedStr):
            used = norm(c.args[0])
            wrong = "self.key" not in used or "self.base_url" not in used
    col.add(rule, gs, "shard URL = <base><scale key>/", ok, "" if ok else
            "shard base URL is not <dataset URL><scale key>/",
            undecided=not ok and not wrong)
    fc = repo.func("sharded_http_accessor", "ShardedHttpAccessor.fetch_chunk")
    t = ftext(fc)
    ok = "HttpShardedScale(self.base_url, self._session, key, shard_spec, " \
        "shard_volume_spec)" in t and "if key not in self.shard_scale_dict" in t
    col.add(rule, fc, "one scale reader per key, built from this accessor's "
            "URL and session", ok, "" if ok else "scale reader construction "
            "changed", undecided=not ok)
    hs = repo.func("sharded_http_accessor", "HttpShard.__init__")
    t = ftext(hs)
    ok = "self.base_url = base_url.rstrip('/') + '/'" in t
    col.add(rule, hs, "shard base URL ends with exactly one slash", ok,
            "" if ok else "shard URL normalisation changed", undecided=not ok)
    rb = repo.func("sharded_http_accessor", "HttpShard.read_bytes")
    t = ftext(rb)
    for p in ("file_url += '.index'", "file_url += '.data'",
              "file_url += '.shard'", "if offset < self.header_byte_length"):
        col.add(rule, rb, p, p in t, "" if p in t else "legacy / modern file "
                "selection changed", undecided=p not in t)
    sc = repo.func("sharded_base", "ShardCMC.__init__")
    t = ftext(sc).replace("\n", " ")
    ok = "if self.file_exists(f'{self.shard_key_str}.shard'):" in t and \
        "self.file_exists(f'{self.shard_key_str}.index') and " \
        "self.file_exists(f'{self.shard_key_str}.data')" in t
    col.add(rule, sc, ".shard preferred, else .index + .data", ok, "" if ok
            else "layout probing changed", undecided=not ok)


def copy_info_handling(repo, col):
    rule = "E-ORDER.convert.info"
    from .core import helper_closure
    top = repo.func("scripts.convert_chunks", "convert_chunks")
    # the destination's layout (sharded or plain) is decided from its info:
    # with --copy-info the info only exists after it has been stored, so the
    # accessor that writes the chunks must be obtained after that store
    store_fn, store_call = None, None
    for h in helper_closure(top):
        for c in calls_in(h.node):
            if (call_name(c) or "").endswith("get_IO_for_new_dataset"):
                store_fn, store_call = h, c
    col.add(rule, top, "--copy-info stores the source info",
            store_call is not None, "" if store_call is not None else
            "--copy-info no longer writes the source info to the destination")
    label = "accessor for the chunks is obtained after the info is stored"
    if store_call is not None:
        fn = store_fn
        cfg = fn.cfg()
        owner = enclosing_stmt_map(fn.node)
        sn = cfg.node_of(owner.get(id(store_call)))
        reach = cfg.reachable(sn) if sn is not None else set()
        opens = []
        for c in calls_in(fn.node):
            if (call_name(c) or "").endswith("get_IO_for_existing_dataset") \
                    and c.args:
                n = cfg.node_of(owner.get(id(c)))
                if n is not None and n.id in reach and n is not sn:
                    opens.append((c, n))
        # the handle returned by the store itself writes through the
        # accessor it was given, which predates the info
        st_stmt = owner.get(id(store_call))
        reused = None
        if isinstance(st_stmt, ast.Assign) and st_stmt.value is store_call \
                and isinstance(st_stmt.targets[0], ast.Name):
            wn = st_stmt.targets[0].id
            for h in helper_closure(top):
                for c in calls_in(h.node):
                    if (call_name(c) or "") == "convert_chunks_for_scale" and \
                            len(c.args) >= 3 and norm(c.args[2]) == wn and \
                            h is fn:
                        reused = c
        if reused is not None:
            col.add(rule, fn, label, False,
                    "with --copy-info the chunks are written through the "
                    "handle returned by get_IO_for_new_dataset, whose accessor "
                    "was created before the destination info existed: a "
                    "sharded source info is copied next to chunks written in "
                    "the plain file layout and the destination cannot be read "
                    "back", node=store_call)
        elif sn is None or not opens:
            col.add(rule, fn, label, True, "the writer is not opened in the "
                    "function that stores the info", undecided=True)
        for c, n in opens:
            a0 = c.args[0]
            fresh = []
            if isinstance(a0, ast.Name):
                for st in stmts_of(fn.node):
                    if isinstance(st, ast.Assign) and \
                            norm(st.targets[0]) == a0.id and any(
                                (call_name(x) or "").endswith(
                                    "get_accessor_for_url")
                                for x in calls_in(st)):
                        k = cfg.node_of(st)
                        if k is not None:
                            fresh.append(k)
            elif isinstance(a0, ast.Call) and (call_name(a0) or "").endswith(
                    "get_accessor_for_url"):
                fresh = [n]
            ok = bool(fresh) and (fresh == [n] or
                                  cfg.every_path_passes(sn, n, fresh))
            col.add(rule, fn, label, ok, "" if ok else
                    "with --copy-info the chunks are written through an "
                    "accessor that was created before the destination info "
                    "existed: a sharded source info is copied next to chunks "
                    "written in the plain file layout (or the reverse) and the "
                    "destination cannot be read back", node=c)
    # the conversion loop is driven by the destination's info
    loop_call, loop_fn = None, None
    for h in helper_closure(top):
        for c in calls_in(h.node):
            if (call_name(c) or "") == "convert_chunks_for_scale":
                loop_call, loop_fn = c, h
    ok, und = False, True
    if loop_call is not None and len(loop_call.args) >= 3 and \
            all(isinstance(a_, ast.Name) for a_ in loop_call.args[:3]):
        ldefs = local_defs(loop_fn.node)
        info_n, writer_n = loop_call.args[1].id, loop_call.args[2].id
        ivals = [norm(d.value) for d in ldefs.get(info_n, [])
                 if d.value is not None]
        if ivals:
            und = False
            ok = all(v == "%s.info" % writer_n for v in ivals)
    col.add(rule, top, "chunk grid taken from the destination info", ok or und,
            "" if ok else "conversion loop is not driven by the destination "
            "info", undecided=und and not ok)
