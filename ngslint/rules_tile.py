"""E-TILE: chunk-tiling templates and the octant table of the pyramid code.

For every chunk index variable i of a tiling site the engine collects the
maximal integer expressions that mention i, normalises them and classifies:
  COUNT  CEILDIV(S, C)            (extent of the loop that binds i)
  LO     C*i
  HI     MIN(C*i + C, S)
Obligations: the COUNT / LO / HI of one index use one chunk size C and one
size S, both LO and HI exist, and no other expression offsets C*i.
Unrecognised loop skeletons are UNDECIDED (open-world)."""
import ast
import re

from .core import (AnalysisError, norm, walk_local, call_name, stmts_of,
                   const_int, calls_in)
from .dataflow import local_defs, names_in, holds
from .intexpr import canon, poly, pstr, NotInt, _fold_ceildiv

CEIL_RE = re.compile(r"^CEILDIV\((.+), (.+)\)$")
MIN_RE = re.compile(r"^MIN\((.+), (.+)\)$")


def _unwrap_iter(it):
    while isinstance(it, ast.Call) and call_name(it) in ("tqdm", "trange",
                                                         "enumerate"):
        if call_name(it) == "trange":
            return ast.Call(func=ast.Name(id="range", ctx=ast.Load()),
                            args=[it.args[0]], keywords=[])
        it = it.args[0]
    return it


def _index_vars(fn, defs):
    """{index name: extent expr or None}"""
    out = {}
    for n in walk_local(fn.node, include_root=False):
        if isinstance(n, (ast.For, ast.comprehension)):
            it = _unwrap_iter(n.iter)
            if not isinstance(it, ast.Call):
                continue
            nm = call_name(it) or ""
            if nm == "range" and isinstance(n.target, ast.Name) and \
                    len(it.args) == 1:
                out[n.target.id] = it.args[0]
            elif nm.endswith("ndindex") and isinstance(n.target, ast.Tuple) \
                    and len(it.args) == 1:
                a = it.args[0]
                ext = None
                if isinstance(a, (ast.Tuple, ast.List)):
                    ext = a.elts
                elif isinstance(a, ast.Name):
                    for d in defs.get(a.id, []):
                        if isinstance(d.value, (ast.Tuple, ast.List)):
                            ext = d.value.elts
                if ext and len(ext) == len(n.target.elts):
                    for t, e in zip(n.target.elts, ext):
                        if isinstance(t, ast.Name):
                            out[t.id] = e
    for p in fn.params:
        # a parameter is a chunk index if the body clamps C*(p+1) to a size;
        # the caller decides (no HI template -> not an index)
        if p not in ("self", "cls") and p not in out:
            out[p] = None
    return out


def _maximal_exprs(fn, name):
    """Maximal arithmetic expressions mentioning `name`."""
    res = []

    def is_arith(n):
        return isinstance(n, (ast.BinOp, ast.UnaryOp)) or (
            isinstance(n, ast.Call) and (call_name(n) or "").split(".")[-1]
            in ("min", "max", "ceil_div", "int"))

    def visit(n, parent_arith):
        arith = is_arith(n)
        if arith and not parent_arith and name in names_in(n):
            res.append(n)
            return
        if isinstance(n, ast.Name) and n.id == name and not parent_arith \
                and isinstance(n.ctx, ast.Load):
            res.append(n)
            return
        for c in ast.iter_child_nodes(n):
            if isinstance(c, (ast.FunctionDef, ast.Lambda, ast.ClassDef)):
                continue
            visit(c, arith and parent_arith)
    for st in fn.node.body:
        if isinstance(st, (ast.FunctionDef, ast.ClassDef)):
            continue
        visit(st, False)
    return res


def tiling_site(repo, col, ms, qn, expect_axes=3, require_count=True,
                fn=None):
    rule = "E-TILE"
    fn = fn or repo.func(ms, qn)
    defs = local_defs(fn.node)
    idx = _index_vars(fn, defs)
    from .dataflow import single_defs, alias_table
    subst_table = single_defs(fn.node, defs)
    aliases = alias_table(fn.node, defs)
    # loop indices themselves are never aliases
    for k_ in list(aliases):
        if k_ in idx:
            aliases.pop(k_)
    found_axes = 0
    for i, extent in sorted(idx.items()):
        count = None
        opaque_extent = False
        if extent is not None:
            # `n = num_chunks(size, chunk)`: a straight-line local helper is
            # replaced by the expression it returns
            from .dataflow import expand, inline_helper_call
            from .core import resolve_local_call
            ext = extent

            def has_helper_call(x):
                return any(isinstance(cc, ast.Call) and
                           resolve_local_call(fn, cc) not in (None, fn)
                           for cc in ast.walk(x))
            for _ in range(3):
                if isinstance(ext, ast.Name) and ext.id in subst_table and \
                        has_helper_call(subst_table[ext.id]):
                    import copy as _cp
                    ext = _cp.deepcopy(subst_table[ext.id])
            # n[k] with n = helper(...): element k of what the helper returns
            if isinstance(ext, ast.Subscript) and \
                    isinstance(ext.value, ast.Name) and \
                    ext.value.id in subst_table and \
                    has_helper_call(subst_table[ext.value.id]):
                import copy as _cp
                ext = ast.Subscript(
                    value=_cp.deepcopy(subst_table[ext.value.id]),
                    slice=_cp.deepcopy(ext.slice), ctx=ast.Load())
                ast.fix_missing_locations(ext)
            for _ in range(2):
                repl = {}
                for cc in ast.walk(ext):
                    if isinstance(cc, ast.Call):
                        h = resolve_local_call(fn, cc)
                        if h is not None and h is not fn:
                            e2 = inline_helper_call(cc, h.node, drop_self=True)
                            if e2 is not None:
                                repl[id(cc)] = e2
                            else:
                                opaque_extent = True
                if not repl:
                    break

                class _R(ast.NodeTransformer):
                    def visit_Call(self, node):
                        if id(node) in repl:
                            return repl[id(node)]
                        return self.generic_visit(node)
                import copy as _copy
                # ids change under deepcopy: transform in place on a wrapper
                ext = _R().visit(ext)
            from .dataflow import index_elementwise
            ext = index_elementwise(ext)
            try:
                c = canon(ext, dict(subst_table, **aliases))
            except NotInt:
                c = None
            m = CEIL_RE.match(c) if c else None
            if m:
                count = (m.group(1), m.group(2))
        los, his, offs = [], [], []
        for e in _maximal_exprs(fn, i):
            try:
                p = _fold_ceildiv(poly(e, aliases))
            except NotInt:
                continue
            s = pstr(p)
            # LO: single monomial {C, i}
            if len(p) == 1:
                (mono, coeff), = p.items()
                if coeff == 1 and len(mono) == 2 and i in mono:
                    C = [a for a in mono if a != i][0]
                    los.append((C, e))
                    continue
                if len(mono) == 1 and mono[0].startswith("MIN("):
                    mm = MIN_RE.match(mono[0])
                    if mm and coeff == 1:
                        a, b = mm.group(1), mm.group(2)
                        for lin, S in ((a, b), (b, a)):
                            lm = re.match(r"^(.+) \+ (.+)\*(.+)$", lin)
                            if lm and i in (lm.group(2), lm.group(3)):
                                C = lm.group(3) if lm.group(2) == i \
                                    else lm.group(2)
                                if lm.group(1) == C:
                                    his.append((C, S, e))
                                else:
                                    offs.append((s, e))
                                break
                        else:
                            if i in mono[0]:
                                offs.append((s, e))
                        continue
            # anything else that multiplies i by an atom
            offs.append((s, e))
        if not his and count is None:
            continue            # not a chunk index
        # the chunk size of this tiling is the one the clamp / count use;
        # products of the index with other quantities (e.g. old-chunk index
        # = new index * fetch factor) are not chunk origins
        trueC = {c for c, _, _ in his} | ({count[1]} if count else set())
        others = [(c, e) for c, e in los if c not in trueC]
        los = [(c, e) for c, e in los if c in trueC]
        Cs = set(trueC)
        Ss = {s for _, s, _ in his} | ({count[0]} if count else set())
        found_axes += 1
        if extent is not None and require_count:
            col.add(rule + ".count", fn, "%s in range(%s)" % (i, norm(extent)[:60]),
                    count is not None or opaque_extent,
                    "chunk count = ceil(size / chunk size)" if count else
                    ("loop extent `%s` is computed by a helper this rule does "
                     "not interpret" % norm(extent) if opaque_extent else
                     "loop extent `%s` is not ceil(size / chunk size): chunks "
                     "are skipped or produced beyond the volume"
                     % norm(extent)), node=extent,
                    undecided=count is None and opaque_extent)
        col.add(rule + ".lo", fn, "%s: lower = C*%s" % (i, i), bool(los),
                "" if los else "no expression C*%s found for the lower chunk "
                "bound" % i, undecided=not los and not his)
        col.add(rule + ".hi", fn, "%s: upper = min(C*(%s+1), S)" % (i, i),
                bool(his), "" if his else "upper chunk bound is not "
                "min(C*(%s + 1), size): the last chunk is not clamped to the "
                "volume (or the template is not recognised)" % i,
                undecided=not los and not his)
        ok = len(Cs) <= 1 and len(Ss) <= 1
        col.add(rule + ".consistent", fn,
                "%s: C in {%s}, S in {%s}" % (i, ", ".join(sorted(Cs)),
                                              ", ".join(sorted(Ss))), ok,
                "" if ok else "count / lower / upper bound of chunk index %s "
                "use different chunk sizes %s or sizes %s"
                % (i, sorted(Cs), sorted(Ss)))
        # stray offsets of the tiling product C*i
        for s, e in offs:
            involved = any(("%s*%s" % tuple(sorted((c, i)))) in s or
                           ("%s*%s" % (c, i)) in s or ("%s*%s" % (i, c)) in s
                           for c in Cs)
            if involved:
                col.add(rule + ".offset", fn, norm(e)[:80], False,
                        "`%s` offsets the chunk origin C*%s: normal form %s "
                        "is neither C*i nor min(C*(i+1), S)" % (norm(e)[:80],
                                                                i, s), node=e)
    if found_axes < expect_axes:
        col.add(rule + ".site", fn, "%d tiling axes" % expect_axes, True,
                "only %d chunk-index variables with a recognisable tiling "
                "template (expected %d)" % (found_axes, expect_axes),
                undecided=True)
    return found_axes


def coords_tuple(repo, col, ms, qn, fn=None):
    """The six values handed to write_chunk / read_chunk are
    (LOx, HIx, LOy, HIy, LOz, HIz) of the site's own tiling."""
    rule = "E-TILE.coords"
    fn = fn or repo.func(ms, qn)
    defs = local_defs(fn.node)
    n = 0
    for c in calls_in(fn.node):
        if not (isinstance(c.func, ast.Attribute) and
                c.func.attr in ("write_chunk", "read_chunk")):
            continue
        arg = c.args[-1] if c.args else None
        tup = None
        if isinstance(arg, ast.Tuple):
            tup = arg
        elif isinstance(arg, ast.Name):
            for d in defs.get(arg.id, []):
                if isinstance(d.value, ast.Tuple):
                    tup = d.value
        if tup is None or len(tup.elts) != 6:
            col.add(rule, fn, norm(c)[:70], True, "coordinates are not a "
                    "literal 6-tuple", undecided=True, node=c)
            continue
        n += 1
        subst = {}
        for name, ds in defs.items():
            vals = [d.value for d in ds if d.value is not None
                    and d.kind == "assign" and d.index is None]
            if len(vals) == 1:
                subst[name] = vals[0]
        forms = []
        for e in tup.elts:
            # x_slicing.start / .stop -> bounds of the slice definition
            if isinstance(e, ast.Attribute) and e.attr in ("start", "stop") \
                    and isinstance(e.value, ast.Name):
                sl = None
                for d in defs.get(e.value.id, []):
                    v = d.value
                    if isinstance(v, ast.Subscript) and \
                            isinstance(v.slice, ast.Slice):
                        sl = v.slice
                if sl is not None:
                    e = sl.lower if e.attr == "start" else sl.upper
            try:
                forms.append(canon(e, subst))
            except NotInt:
                forms.append(None)
        for ax in range(3):
            lo, hi = forms[2 * ax], forms[2 * ax + 1]
            ok = False
            if lo and hi:
                mlo = re.match(r"^(.+)\*(.+)$", lo)
                mhi = MIN_RE.match(hi)
                if mlo and mhi:
                    a, b = mhi.group(1), mhi.group(2)
                    for lin in (a, b):
                        if lin.endswith(" + " + lo) or lin.startswith(lo + " + "):
                            ok = True
            attempt = bool(lo and hi and (re.match(r"^(.+)\*(.+)$", lo) or
                                          MIN_RE.match(hi)))
            if lo is None or hi is None or (not ok and not attempt):
                col.add(rule, fn, "%s axis pair of %s" % ("xyz"[ax],
                                                          norm(tup)[:60]),
                        True, "coordinate expressions are not integer "
                        "templates (permuted / computed elsewhere)",
                        undecided=True, node=tup)
            else:
                col.add(rule, fn, "%s: (%s, %s)" % ("xyz"[ax], lo, hi), ok,
                        "" if ok else "coordinate pair for axis %s is not "
                        "(C*i, min(C*(i+1), S)): the chunk is labelled with "
                        "coordinates that differ from the region it holds"
                        % "xyz"[ax], node=tup)
    return n


def coord_pairs(repo, col, ms, qn, var):
    """`var = ((lo, hi), (lo, hi), (lo, hi))`: each pair is the (LO, HI) of
    one tiling index (used where the pairs are permuted afterwards)."""
    rule = "E-TILE.coords"
    fn = repo.func(ms, qn)
    defs = local_defs(fn.node)
    tup = None
    for d in defs.get(var, []):
        if isinstance(d.value, ast.Tuple) and len(d.value.elts) == 3 and all(
                isinstance(e, ast.Tuple) and len(e.elts) == 2
                for e in d.value.elts):
            tup = d.value
    if tup is None:
        col.add(rule, fn, var, True, "%s is not a triple of (lo, hi) pairs"
                % var, undecided=True)
        return 0
    subst = {}
    for name, ds in defs.items():
        vals = [d.value for d in ds if d.value is not None
                and d.kind == "assign" and d.index is None]
        if len(vals) == 1:
            subst[name] = vals[0]
    def slice_bounds(defs_, name):
        for d in defs_.get(name, []):
            v = d.value
            if isinstance(v, ast.Subscript) and isinstance(v.slice, ast.Slice):
                return v.slice.lower, v.slice.upper
            if isinstance(v, ast.Call) and call_name(v) == "slice" and \
                    len(v.args) in (2, 3):
                return v.args[0], v.args[1]
        return None

    def subst_of(defs_):
        out = {}
        for name, ds in defs_.items():
            vals = [d.value for d in ds if d.value is not None
                    and d.kind == "assign" and d.index is None]
            if len(vals) == 1:
                out[name] = vals[0]
        return out

    def via_generator(name):
        # `for a, b in gen(...)`: a slice yielded by a local generator
        from .core import resolve_local_call
        for d in defs.get(name, []):
            if d.kind != "for" or not isinstance(d.value, ast.Call):
                continue
            h = resolve_local_call(fn, d.value)
            if h is None:
                continue
            hdefs = local_defs(h.node)
            for y in walk_local(h.node):
                if not isinstance(y, ast.Yield) or y.value is None:
                    continue
                item = y.value
                if d.index is not None:
                    if not isinstance(item, ast.Tuple) or \
                            d.index >= len(item.elts):
                        continue
                    item = item.elts[d.index]
                if isinstance(item, ast.Name):
                    b = slice_bounds(hdefs, item.id)
                    if b is not None:
                        return b, subst_of(hdefs)
        return None

    for k, pair in enumerate(tup.elts):
        forms = []
        for e in pair.elts:
            sub = subst
            if isinstance(e, ast.Attribute) and e.attr in ("start", "stop") \
                    and isinstance(e.value, ast.Name):
                b = slice_bounds(defs, e.value.id)
                if b is None:
                    g = via_generator(e.value.id)
                    if g is not None:
                        b, sub = g
                if b is None:
                    forms.append(None)      # slice built elsewhere
                    continue
                e = b[0] if e.attr == "start" else b[1]
            try:
                forms.append(canon(e, sub))
            except NotInt:
                forms.append(None)
        lo, hi = forms
        ok = False
        if lo and hi:
            mhi = MIN_RE.match(hi)
            if re.match(r"^(.+)\*(.+)$", lo) and mhi:
                for lin in (mhi.group(1), mhi.group(2)):
                    if lin.endswith(" + " + lo) or lin.startswith(lo + " + "):
                        ok = True
        # bounds that arrive as plain values (loop targets over a table of
        # tiles computed elsewhere) carry no arithmetic to compare
        opaque = any(f is not None and re.match(r"^[A-Za-z_]\w*(\.\w+)?$", f)
                     for f in (lo, hi))
        col.add(rule, fn, "%s[%d]: (%s, %s)" % (var, k, lo, hi), ok or opaque,
                "" if ok else ("bounds computed where this rule does not "
                               "follow them" if opaque else
                               "pair %d of %s is not (C*i, min(C*(i+1), S)): "
                               "chunks are labelled with coordinates that "
                               "differ from the region they hold" % (k, var)),
                node=pair,
                undecided=(lo is None or hi is None or opaque) and not ok)
    return 3


def stats_model(repo):
    """Where show_scales_info computes its figures: the function (itself or
    a local helper / generator it iterates) that holds the per-axis count
    comprehension, and how the caller receives the figures."""
    from .core import helper_closure, resolve_local_call
    top = repo.func("scripts.scale_stats", "show_scales_info")
    comp_fn, comp = None, None
    for f in helper_closure(top, depth=2):
        for n in walk_local(f.node):
            if isinstance(n, ast.ListComp) and len(n.generators) == 1:
                g = n.generators[0]
                if isinstance(g.iter, ast.Call) and \
                        call_name(g.iter) == "zip" and len(g.iter.args) == 2 \
                        and isinstance(g.target, ast.Tuple):
                    comp_fn, comp = f, n
    return top, comp_fn, comp


def _received_as(top, comp_fn, name):
    """Names under which `top` receives comp_fn's local `name` (identity when
    both are one function; through `for a, b in gen(...)` / `a, b = h(...)`
    when comp_fn yields or returns a tuple).  None if not resolvable."""
    from .core import resolve_local_call
    if comp_fn is top:
        return {name}
    out = set()
    positions = set()
    for n in walk_local(comp_fn.node):
        v = None
        if isinstance(n, (ast.Yield, ast.Return)) and n.value is not None:
            v = n.value
        if isinstance(v, ast.Tuple):
            for i, e in enumerate(v.elts):
                if isinstance(e, ast.Name) and e.id == name:
                    positions.add(i)
    if not positions:
        return None
    for nm, ds in local_defs(top.node).items():
        for d in ds:
            if isinstance(d.value, ast.Call) and d.index in positions and \
                    resolve_local_call(top, d.value) is comp_fn:
                out.add(nm)
    return out or None


def _bytes_formula(expr, defs, src_kind):
    """expr is a product of exactly: prod(<size>), <dtype>.itemsize and the
    channel count (a name bound to info['num_channels'])."""
    factors = []

    def flat(e):
        if isinstance(e, ast.BinOp) and isinstance(e.op, ast.Mult):
            flat(e.left)
            flat(e.right)
        else:
            factors.append(e)
    flat(expr)
    if len(factors) != 3:
        return False
    kinds = []
    for f in factors:
        t = norm(f)
        if isinstance(f, ast.Call) and (call_name(f) or "").endswith("prod") \
                and f.args and src_kind(f.args[0]) == "size":
            kinds.append("voxels")
        elif isinstance(f, ast.Attribute) and f.attr == "itemsize":
            kinds.append("itemsize")
        elif "['num_channels']" in t or (isinstance(f, ast.Name) and any(
                d.value is not None and "['num_channels']" in norm(d.value)
                for d in defs.get(f.id, []))):
            kinds.append("channels")
        else:
            kinds.append("?")
    return sorted(kinds) == ["channels", "itemsize", "voxels"]


def count_formula(repo, col):
    """scale_stats: chunk count = prod ceil(size / chunk size) per axis;
    bytes = prod(size) * itemsize * channels."""
    rule = "E-TILE.stats"
    top, fn, comp = stats_model(repo)
    if fn is None:
        col.add(rule, top, "chunks per axis = ceil(size / chunk_size)", True,
                "per-axis count comprehension not found in %s or its helpers"
                % top.key, undecided=True)
        return
    defs = local_defs(fn.node)
    ok_count = False
    node = comp
    und = False
    g = comp.generators[0]

    def _src_kind(a):
        # 'size' / 'chunk_size' by where the value comes from, not its name
        t = norm(a)
        if "['size']" in t:
            return "size"
        if "['chunk_sizes']" in t:
            return "chunk_size"
        if isinstance(a, ast.Name):
            kinds = set()
            for d in defs.get(a.id, []):
                if d.value is None:
                    continue
                dt = norm(d.value)
                if "['chunk_sizes']" in dt:
                    kinds.add("chunk_size")
                elif "['size']" in dt:
                    kinds.add("size")
                else:
                    kinds.add("?")
            if len(kinds) == 1:
                return kinds.pop()
            if not kinds and a.id in fn.params:
                return {"size": "size", "chunk_size": "chunk_size"}.get(a.id, "?")
        return "?"
    srcs = [_src_kind(a) for a in g.iter.args]
    tn = [t.id for t in g.target.elts if isinstance(t, ast.Name)]
    try:
        c = canon(comp.elt)
        m = CEIL_RE.match(c)
        if m and len(tn) == 2:
            s_src = srcs[tn.index(m.group(1))] if m.group(1) in tn else None
            c_src = srcs[tn.index(m.group(2))] if m.group(2) in tn else None
            ok_count = s_src == "size" and c_src == "chunk_size"
            if "?" in (s_src, c_src):
                und = True
    except NotInt:
        und = True
    col.add(rule, fn, "chunks per axis = ceil(size / chunk_size)",
            ok_count or und,
            "same count the conversion loops use" if ok_count else
            "per-axis chunk count is not ceil(size / chunk_size) over "
            "zip(size, chunk_size): the statistic differs from what the "
            "writers produce", node=node, undecided=und)
    # the list of per-axis counts and its product
    lname = None
    for nm, ds in defs.items():
        if any(d.value is comp for d in ds):
            lname = nm
    cnt_names = set()
    for nm, ds in defs.items():
        for d in ds:
            if isinstance(d.value, ast.Call) and lname is not None and \
                    (call_name(d.value) or "").split(".")[-1] == "prod" and \
                    d.value.args and norm(d.value.args[0]) == lname:
                cnt_names.add(nm)
    okp = bool(cnt_names)
    txt = norm(fn.node)
    col.add(rule, fn, "num_chunks = prod(per-axis counts)", okp,
            "" if okp else "total chunk count is not the product of the "
            "per-axis counts", undecided=not okp and lname is None)
    byte_names = set()
    saw_bytes = False
    for name, ds in defs.items():
        for d in ds:
            if d.value is None or not any(
                    isinstance(c_, ast.Call) and (call_name(c_) or "").endswith(
                        "prod") and c_.args and _src_kind(c_.args[0]) == "size"
                    for c_ in walk_local(d.value)):
                continue
            saw_bytes = True
            okb = _bytes_formula(d.value, defs, _src_kind)
            if okb:
                byte_names.add(name)
            else:
                byte_names.discard(name)
                byte_bad = name
    okb = bool(byte_names)
    col.add(rule, fn, "bytes = prod(size) * itemsize * num_channels", okb,
            "" if okb else "uncompressed size is not prod(size) * itemsize * "
            "num_channels", undecided=not okb and not saw_bytes)
    # totals: the caller adds each line's count and size
    tdefs = local_defs(top.node)
    augs = [s_ for s_ in stmts_of(top.node) if isinstance(s_, ast.AugAssign)
            and isinstance(s_.op, ast.Add) and isinstance(s_.target, ast.Name)]
    added = {}
    for s_ in augs:
        added.setdefault(s_.target.id, set()).add(norm(s_.value))
    res = {}
    for what, names in (("count", cnt_names), ("bytes", byte_names)):
        recv = set()
        unresolved = False
        for nm in names:
            r = _received_as(top, fn, nm)
            if r is None:
                unresolved = True
            else:
                recv |= r
        hit = [t for t, vs in added.items() if vs & recv]
        res[what] = (hit, unresolved or not names)
    oka = bool(res["count"][0]) and bool(res["bytes"][0])
    unda = not oka and (res["count"][1] or res["bytes"][1])
    col.add(rule, top, "totals accumulate every scale", oka or unda,
            "" if oka else "totals do not add each scale's count and size",
            undecided=unda)
    # statelessness across calls: totals start from zero inside the function
    tot = res["count"][0] + res["bytes"][0]
    okz = bool(tot) and all(any(
        isinstance(d.value, ast.Constant) and d.value.value == 0
        for d in tdefs.get(nm, [])) for nm in tot)
    col.add(rule, top, "totals start at 0 in each call", okz or not tot,
            "" if okz else "totals are not re-initialised per call",
            undecided=not tot)


# ---------------------------------------------------------------------
# octant table
# ---------------------------------------------------------------------
def octants(repo, col):
    rule = "E-TILE.octant"
    fn = repo.func("dyadic_pyramid", "compute_dyadic_downscaling")
    loop = None
    for st in stmts_of(fn.node):
        if isinstance(st, ast.For) and any(
                isinstance(c.func, ast.Attribute) and c.func.attr == "write_chunk"
                for s in st.body for c in calls_in(s)):
            loop = st
    if loop is None:
        raise AnalysisError("anchor vanished: chunk loop in %s" % fn.key)
    # buffer allocated with np.empty inside the loop
    buf = None
    for st in loop.body:
        if isinstance(st, ast.Assign) and isinstance(st.value, ast.Call) and \
                (call_name(st.value) or "").endswith("empty") and \
                isinstance(st.targets[0], ast.Name):
            buf = st.targets[0].id
    if buf is None:
        col.add(rule, fn, "np.empty buffer", True, "no np.empty buffer: "
                "assembly restructured", undecided=True)
        return
    entries = []

    def collect(stmts, guards):
        for st in stmts:
            if isinstance(st, ast.If):
                collect(st.body, guards + [st.test])
                if st.orelse:
                    entries.append(("other", st, guards))
            elif isinstance(st, ast.Assign) and \
                    isinstance(st.targets[0], ast.Subscript) and \
                    norm(st.targets[0].value) == buf:
                entries.append(("copy", st, guards))
            elif isinstance(st, (ast.For, ast.While)):
                if any(isinstance(x, ast.Assign) and
                       isinstance(x.targets[0], ast.Subscript) and
                       norm(x.targets[0].value) == buf
                       for x in ast.walk(st)):
                    entries.append(("loop", st, guards))
    collect(loop.body, [])
    if any(k != "copy" for k, _, _ in entries) or not entries:
        col.add(rule, fn, "octant copies", True,
                "the region copies are not a flat list of (optionally "
                "guarded) slice assignments: generalised assembly is not "
                "modelled by the octant table", undecided=True)
        return
    patterns = {}
    half = None
    for _, st, guards in entries:
        tgt = st.targets[0]
        sl = tgt.slice.elts if isinstance(tgt.slice, ast.Tuple) else [tgt.slice]
        call = st.value
        while isinstance(call, ast.Call) and not call.args:
            break
        if not (isinstance(call, ast.Call) and len(sl) == 4 and
                len(call.args) == 3):
            col.add(rule, fn, norm(st)[:70], True, "copy not in the "
                    "recognised form", undecided=True, node=st)
            return
        sign = []
        ok = True
        why = []
        # slots 1,2,3 = Z,Y,X ; call args = (z, y, x)
        gatoms = []
        for g in guards:
            gatoms += holds(g, True)
        for k in (1, 2, 3):
            s = sl[k]
            arg = call.args[k - 1]
            if not isinstance(s, ast.Slice):
                ok = False
                why.append("slot %d is not a slice" % k)
                sign.append("?")
                continue
            if s.lower is None and s.upper is not None:
                side, h = "lo", norm(s.upper)
            elif s.lower is not None and s.upper is None:
                side, h = "hi", norm(s.lower)
            else:
                ok = False
                why.append("slot %d is neither `:h` nor `h:`" % k)
                sign.append("?")
                continue
            sign.append(side)
            try:
                p = poly(arg)
            except NotInt:
                ok = False
                why.append("argument %d not an index expression" % (k - 1))
                continue
            plus1 = p.get((), 0)
            if (side == "hi") != (plus1 == 1) or plus1 not in (0, 1):
                ok = False
                why.append("axis slot %d is the %s half but the old-chunk "
                           "index offset is +%d" % (k, side, plus1))
            guarded = any(norm(b.left) == "%s.shape[%d]" % (buf, k)
                          and b.op == ">" and norm(b.right) == h
                          for a in gatoms for b in (a, a.flipped()))
            if (side == "hi") != guarded:
                ok = False
                why.append("axis slot %d: %s half %s a guard `%s.shape[%d] > "
                           "%s`" % (k, side, "lacks" if side == "hi" else "has",
                                    buf, k, h))
        key = tuple(sign)
        patterns.setdefault(key, []).append(st)
        helper_guard = any(isinstance(x, ast.Call) and
                           (call_name(x) or "") in fn.module.functions or
                           isinstance(x, ast.Call) and any(
                               q.endswith("." + (call_name(x) or "?"))
                               for q in fn.module.functions)
                           for g in guards for x in ast.walk(g))
        col.add(rule, fn, "octant %s" % "/".join(sign), ok,
                "" if ok else "; ".join(why), node=st,
                undecided=not ok and helper_guard)
    want = {(a, b, c) for a in ("lo", "hi") for b in ("lo", "hi")
            for c in ("lo", "hi")}
    missing = want - set(patterns)
    dup = [k for k, v in patterns.items() if len(v) > 1]
    col.add(rule, fn, "8 octants, each exactly once",
            not missing and not dup,
            "" if not missing and not dup else
            "missing octants %s, duplicated %s: part of each new chunk is "
            "left as uninitialised np.empty memory or written twice"
            % (sorted(missing), dup))
    # the buffer is written only after the copies
    last = loop.body[-1]
    okw = isinstance(last, ast.Expr) and isinstance(last.value, ast.Call) and \
        isinstance(last.value.func, ast.Attribute) and \
        last.value.func.attr == "write_chunk" and buf in names_in(last.value)
    col.add(rule, fn, "write_chunk(%s) after all copies" % buf, okw,
            "" if okw else "the assembled buffer is not written as the last "
            "step of the loop body")


def pyramid_sites(repo):
    """Functions of the pyramid computation that tile a scale: the driver and
    every local helper / nested function / partial target it reaches whose
    body holds a clamp template min(C*(i+1), S)."""
    from .core import helper_closure
    top = repo.func("dyadic_pyramid", "compute_dyadic_downscaling")
    out = []
    for h in helper_closure(top, depth=3):
        if h is top:
            continue
        t = norm(h.node)
        if "min(" in t and "+ 1" in t:
            out.append(h)
    return top, out
