"""E-ORIENT: the flip / axis-move statements of slices_to_raw_chunks evaluated
on axis *labels* for each of the 48 orientation codes (finite, exhaustive).

No array is created and the package is not run: the three statements that
re-orient the block are located in the AST and their index expressions are
evaluated by a tiny evaluator (tuples, generators over tuples, dict lookups
in the literal tables, +,-,*, reversed, invert_permutation, permute).  The
effect of basic slicing with step -1, numpy.moveaxis and numpy.transpose on a
list of (axis label, sign) pairs is modelled below."""
import ast
import itertools

from .core import AnalysisError, norm, walk_local, call_name, stmts_of
from .dataflow import local_defs


class CantEval(Exception):
    pass


def invert_permutation(p):
    s = [0] * len(p)
    for i, v in enumerate(p):
        s[v] = i
    return tuple(s)


FUNCS = {
    "tuple": tuple, "list": list, "reversed": lambda x: tuple(reversed(x)),
    "range": lambda *a: tuple(range(*a)), "len": len, "sorted": sorted,
    "invert_permutation": invert_permutation,
    "permute": lambda seq, p: tuple(seq[i] for i in p),
}


def ev(node, env):
    if isinstance(node, ast.Constant):
        return node.value
    if isinstance(node, ast.Name):
        if node.id in env:
            return env[node.id]
        raise CantEval(node.id)
    if isinstance(node, (ast.Tuple, ast.List)):
        out = []
        for e in node.elts:
            if isinstance(e, ast.Starred):
                out.extend(ev(e.value, env))
            else:
                out.append(ev(e, env))
        return tuple(out)
    if isinstance(node, ast.Dict):
        return {ev(k, env): ev(v, env) for k, v in zip(node.keys, node.values)}
    if isinstance(node, ast.UnaryOp) and isinstance(node.op, ast.USub):
        return -ev(node.operand, env)
    if isinstance(node, ast.BinOp):
        l, r = ev(node.left, env), ev(node.right, env)
        if isinstance(node.op, ast.Add):
            return l + r
        if isinstance(node.op, ast.Sub):
            return l - r
        if isinstance(node.op, ast.Mult):
            return l * r
        raise CantEval(norm(node))
    if isinstance(node, ast.Subscript):
        base = ev(node.value, env)
        if isinstance(node.slice, ast.Slice):
            lo = ev(node.slice.lower, env) if node.slice.lower else None
            hi = ev(node.slice.upper, env) if node.slice.upper else None
            st = ev(node.slice.step, env) if node.slice.step else None
            return base[lo:hi:st]
        return base[ev(node.slice, env)]
    if isinstance(node, (ast.GeneratorExp, ast.ListComp)):
        if len(node.generators) != 1 or node.generators[0].ifs:
            raise CantEval(norm(node))
        g = node.generators[0]
        out = []
        for item in ev(g.iter, env):
            e2 = dict(env)
            if isinstance(g.target, ast.Name):
                e2[g.target.id] = item
            elif isinstance(g.target, ast.Tuple):
                for t, v in zip(g.target.elts, item):
                    e2[t.id] = v
            out.append(ev(node.elt, e2))
        return tuple(out)
    if isinstance(node, ast.Call):
        nm = (call_name(node) or "").split(".")[-1]
        if nm in FUNCS:
            return FUNCS[nm](*[ev(a, env) for a in node.args])
        raise CantEval(norm(node))
    raise CantEval(norm(node))


def moveaxis(axes, source, dest):
    n = len(axes)
    source = [s % n for s in source]
    dest = [d % n for d in dest]
    if len(set(source)) != len(source) or len(set(dest)) != len(dest) or \
            len(source) != len(dest):
        raise CantEval("moveaxis arguments are not permutations")
    order = [i for i in range(n) if i not in source]
    for d, s in sorted(zip(dest, source)):
        order.insert(d, s)
    return [axes[i] for i in order]


def transpose(axes, perm):
    if sorted(perm) != list(range(len(axes))):
        raise CantEval("transpose axes are not a permutation")
    return [axes[i] for i in perm]


def orientation_semantics(repo, col):
    rule = "E-ORIENT"
    m = repo.module("scripts.slices_to_precomputed")
    fn = repo.func("scripts.slices_to_precomputed", "slices_to_raw_chunks")
    defs = local_defs(fn.node)
    tables = {}
    for name in ("AXIS_PERMUTATION_FOR_RAS", "AXIS_INVERSION_FOR_RAS",
                 "POSSIBLE_AXIS_ORIENTATIONS"):
        if m.const(name) is None:
            raise AnalysisError("anchor vanished: %s" % name)
        try:
            tables[name] = ast.literal_eval(m.const(name))
        except (ValueError, TypeError, SyntaxError):
            col.add("E-ORIENT", fn, "orientation tables", True,
                    "%s is computed, not a literal: the re-orientation is not "
                    "evaluated over the 48 codes" % name, undecided=True)
            return
    params = fn.params
    if "input_orientation" not in params:
        raise AnalysisError("anchor vanished: input_orientation parameter")

    def def_of(name):
        ds = [d.value for d in defs.get(name, []) if d.value is not None]
        return ds[0] if len(ds) == 1 else None
    perm_def = def_of("input_axis_permutation")
    inv_def = def_of("input_axis_inversions")
    # the statements that re-orient `block`, in source order
    steps = []
    slice_step = None
    for st in stmts_of(fn.node):
        if isinstance(st, ast.Assign) and isinstance(st.targets[0], ast.Name):
            tgt, v = st.targets[0].id, st.value
            if tgt == "slice_slicing" and isinstance(v, ast.Subscript) and \
                    isinstance(v.slice, ast.Slice):
                slice_step = v.slice.step
            if tgt == "block":
                if isinstance(v, ast.Subscript) and norm(v.value) == "block":
                    steps.append(("slice", v))
                elif isinstance(v, ast.Call) and \
                        (call_name(v) or "").endswith("moveaxis") and \
                        norm(v.args[0]) == "block":
                    steps.append(("moveaxis", v))
                elif isinstance(v, ast.Call) and \
                        (call_name(v) or "").endswith("transpose") and \
                        norm(v.args[0]) == "block":
                    steps.append(("transpose", v))
                elif isinstance(v, ast.Call) and \
                        (call_name(v) or "").endswith("concatenate"):
                    steps.append(("start", v))
                else:
                    steps.append(("unknown", v))
    if perm_def is None or inv_def is None or slice_step is None or \
            not any(k == "start" for k, _ in steps):
        col.add(rule, fn, "re-orientation statements", True,
                "the flip / axis-move statements are not in the recognised "
                "form", undecided=True)
        return 0
    axis_of = {"R": "X", "L": "X", "A": "Y", "P": "Y", "S": "Z", "I": "Z"}
    sign_of = {"R": 1, "A": 1, "S": 1, "L": -1, "P": -1, "I": -1}
    codes = ["".join(p) for t in itertools.product("LR", "AP", "IS")
             for p in itertools.permutations(t)]
    n = 0
    bad = []
    for code in codes:
        env = dict(tables)
        env["input_orientation"] = code
        try:
            env["input_axis_permutation"] = ev(perm_def, env)
            env["input_axis_inversions"] = ev(inv_def, env)
            axes = None
            for kind, v in steps:
                if kind == "start":
                    axes = [("C", 1), ("SLC", ev(slice_step, env)), ("ROW", 1),
                            ("COL", 1)]
                elif axes is None:
                    continue
                elif kind == "slice":
                    sl = v.slice.elts if isinstance(v.slice, ast.Tuple) \
                        else [v.slice]
                    if len(sl) != len(axes):
                        raise CantEval("slice arity")
                    new = []
                    for (lab, sg), s in zip(axes, sl):
                        if not isinstance(s, ast.Slice) or s.lower or s.upper:
                            raise CantEval("not a pure step slice")
                        step = ev(s.step, env) if s.step is not None else 1
                        if step not in (1, -1):
                            raise CantEval("step %r" % step)
                        new.append((lab, sg * step))
                    axes = new
                elif kind == "moveaxis":
                    axes = moveaxis(axes, list(ev(v.args[1], env)),
                                    list(ev(v.args[2], env)))
                elif kind == "transpose":
                    a = v.args[1] if len(v.args) > 1 else None
                    for k in v.keywords:
                        if k.arg == "axes":
                            a = k.value
                    axes = transpose(axes, list(ev(a, env)))
                else:
                    raise CantEval("unmodelled statement %s" % norm(v)[:40])
        except CantEval as exc:
            col.add(rule, fn, "code %s" % code, True,
                    "cannot evaluate: %s" % exc, undecided=True)
            continue
        except Exception as exc:     # evaluator error on odd input
            col.add(rule, fn, "code %s" % code, True,
                    "cannot evaluate: %r" % exc, undecided=True)
            continue
        n += 1
        want = [("C", 1), None, None, None]
        for j, (lab, letter) in enumerate(zip(("COL", "ROW", "SLC"), code)):
            pos = {"X": 3, "Y": 2, "Z": 1}[axis_of[letter]]
            want[pos] = (lab, sign_of[letter])
        ok = axes == want
        if not ok:
            bad.append(code)
        col.add(rule, fn, "code %s" % code, ok,
                "" if ok else "for orientation %s the block ends up as %s "
                "(position = C,Z,Y,X; sign -1 = reversed); the code "
                "designates %s" % (code, axes, want))
    return n
