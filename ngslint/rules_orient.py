"""E-ORIENT: the flip / axis-move statements of slices_to_raw_chunks evaluated
on axis *labels* for each of the 48 orientation codes (finite, exhaustive).

No array is created and the package is not run: the three statements that
re-orient the block are located in the AST and their index expressions are
evaluated by a tiny evaluator (tuples, generators over tuples, dict lookups
in the literal tables, +,-,*, reversed, invert_permutation, permute).  The
effect of basic slicing with step -1, numpy.moveaxis and numpy.transpose on a
list of (axis label, sign) pairs is modelled below."""
import ast
import itertools

from .core import AnalysisError, norm, walk_local, call_name, stmts_of
from .dataflow import local_defs


class CantEval(Exception):
    pass


def invert_permutation(p):
    s = [0] * len(p)
    for i, v in enumerate(p):
        s[v] = i
    return tuple(s)


FUNCS = {
    "tuple": tuple, "list": list, "reversed": lambda x: tuple(reversed(x)),
    "range": lambda *a: tuple(range(*a)), "len": len, "sorted": sorted,
    "invert_permutation": invert_permutation,
    "permute": lambda seq, p: tuple(seq[i] for i in p),
}


def ev(node, env):
    if isinstance(node, ast.Constant):
        return node.value
    if isinstance(node, ast.Name):
        try:
            return env[node.id]
        except KeyError:
            raise CantEval(node.id)
    if isinstance(node, ast.Attribute):
        base = ev(node.value, env)
        if isinstance(base, Record) and node.attr in base.fields:
            return base.fields[node.attr]
        raise CantEval(norm(node))
    if isinstance(node, (ast.Tuple, ast.List)):
        out = []
        for e in node.elts:
            if isinstance(e, ast.Starred):
                out.extend(ev(e.value, env))
            else:
                out.append(ev(e, env))
        return tuple(out)
    if isinstance(node, ast.Dict):
        return {ev(k, env): ev(v, env) for k, v in zip(node.keys, node.values)}
    if isinstance(node, ast.UnaryOp) and isinstance(node.op, ast.USub):
        return -ev(node.operand, env)
    if isinstance(node, ast.BinOp):
        l, r = ev(node.left, env), ev(node.right, env)
        if isinstance(node.op, ast.Add):
            return l + r
        if isinstance(node.op, ast.Sub):
            return l - r
        if isinstance(node.op, ast.Mult):
            return l * r
        raise CantEval(norm(node))
    if isinstance(node, ast.Subscript):
        base = ev(node.value, env)
        if isinstance(node.slice, ast.Slice):
            lo = ev(node.slice.lower, env) if node.slice.lower else None
            hi = ev(node.slice.upper, env) if node.slice.upper else None
            st = ev(node.slice.step, env) if node.slice.step else None
            return base[lo:hi:st]
        return base[ev(node.slice, env)]
    if isinstance(node, (ast.GeneratorExp, ast.ListComp)):
        if len(node.generators) != 1 or node.generators[0].ifs:
            raise CantEval(norm(node))
        g = node.generators[0]
        out = []
        for item in ev(g.iter, env):
            e2 = dict(env)
            if isinstance(g.target, ast.Name):
                e2[g.target.id] = item
            elif isinstance(g.target, ast.Tuple):
                for t, v in zip(g.target.elts, item):
                    e2[t.id] = v
            out.append(ev(node.elt, e2))
        return tuple(out)
    if isinstance(node, ast.Call):
        nm = (call_name(node) or "").split(".")[-1]
        if nm in FUNCS:
            return FUNCS[nm](*[ev(a, env) for a in node.args])
        module = getattr(env, "module", None)
        if module is not None and isinstance(node.func, ast.Name):
            # a namedtuple class of the module: a record of its fields
            cv = module.const(node.func.id)
            if isinstance(cv, ast.Call) and \
                    (call_name(cv) or "").split(".")[-1] == "namedtuple" \
                    and len(cv.args) >= 2:
                try:
                    names = ast.literal_eval(cv.args[1])
                except (ValueError, SyntaxError):
                    raise CantEval(norm(node))
                if isinstance(names, str):
                    names = names.replace(",", " ").split()
                vals = {}
                for k, a in zip(names, node.args):
                    vals[k] = ev(a, env)
                for k in node.keywords:
                    vals[k.arg] = ev(k.value, env)
                if set(vals) != set(names):
                    raise CantEval(norm(node))
                return Record(vals)
            # a straight-line helper of the module
            h = module.functions.get(node.func.id)
            if h is not None:
                from .dataflow import simple_return
                sr = simple_return(h.node)
                if sr is None:
                    raise CantEval("helper %s" % node.func.id)
                params, ret, _ = sr
                e2 = LazyEnv(module, None, {})
                for k, v in env.base_items():
                    e2[k] = v
                for p_, a in zip(params, node.args):
                    e2[p_] = ev(a, env)
                for k in node.keywords:
                    e2[k.arg] = ev(k.value, env)
                return ev(ret, e2)
        raise CantEval(norm(node))
    raise CantEval(norm(node))


class Record:
    """Value of a namedtuple-like record: a mapping of field names."""

    def __init__(self, fields):
        self.fields = fields

    def __eq__(self, other):
        return isinstance(other, Record) and self.fields == other.fields

    def __iter__(self):
        return iter(self.fields.values())

    def __getitem__(self, i):
        return list(self.fields.values())[i]


class LazyEnv(dict):
    """Environment that evaluates a local name from its single definition
    the first time it is needed."""

    def __init__(self, module, defs, init):
        super().__init__(init)
        self.module = module
        self.defs = defs or {}
        self._base = dict(init)
        self._busy = set()

    def base_items(self):
        return self._base.items()

    def __missing__(self, name):
        ds = [d for d in self.defs.get(name, []) if d.kind != "param"]
        if len(ds) != 1 or ds[0].value is None or ds[0].elem or \
                ds[0].kind != "assign" or name in self._busy:
            raise KeyError(name)
        self._busy.add(name)
        try:
            v = ev(ds[0].value, self)
            if ds[0].index is not None:
                v = tuple(v)[ds[0].index]
        except CantEval:
            raise KeyError(name)
        finally:
            self._busy.discard(name)
        self[name] = v
        return v


def moveaxis(axes, source, dest):
    n = len(axes)
    source = [s % n for s in source]
    dest = [d % n for d in dest]
    if len(set(source)) != len(source) or len(set(dest)) != len(dest) or \
            len(source) != len(dest):
        raise CantEval("moveaxis arguments are not permutations")
    order = [i for i in range(n) if i not in source]
    for d, s in sorted(zip(dest, source)):
        order.insert(d, s)
    return [axes[i] for i in order]


def transpose(axes, perm):
    if sorted(perm) != list(range(len(axes))):
        raise CantEval("transpose axes are not a permutation")
    return [axes[i] for i in perm]


def _crs_labels(expr, defs):
    """Labels (COL, ROW, SLC) of a 3-tuple of input-order quantities, read
    off the names its elements are built from; None if not such a tuple."""
    if isinstance(expr, ast.Name):
        ds = [d for d in defs.get(expr.id, []) if d.kind == "assign"
              and d.index is None and d.value is not None]
        if len(ds) != 1:
            return None
        expr = ds[0].value
    if not isinstance(expr, (ast.Tuple, ast.List)) or len(expr.elts) != 3:
        return None
    labs = []
    for e in expr.elts:
        found = set()
        for n in ast.walk(e):
            if isinstance(n, ast.Name):
                low = n.id.lower()
                if low.startswith("column") or low.startswith("col_"):
                    found.add("COL")
                elif low.startswith("row"):
                    found.add("ROW")
                elif "slice" in low and not low.startswith(("np", "numpy")):
                    found.add("SLC")
        labs.append(found.pop() if len(found) == 1 else None)
    if labs.count(None) == 1 and len(set(labs) - {None}) == 2:
        missing = ({"COL", "ROW", "SLC"} - set(labs)).pop()
        labs[labs.index(None)] = missing
    if None in labs or len(set(labs)) != 3:
        return None
    return tuple(labs)


def orientation_semantics(repo, col):
    rule = "E-ORIENT"
    m = repo.module("scripts.slices_to_precomputed")
    fn = repo.func("scripts.slices_to_precomputed", "slices_to_raw_chunks")
    defs = local_defs(fn.node)
    tables = {}
    for name in ("AXIS_PERMUTATION_FOR_RAS", "AXIS_INVERSION_FOR_RAS",
                 "POSSIBLE_AXIS_ORIENTATIONS"):
        if m.const(name) is None:
            raise AnalysisError("anchor vanished: %s" % name)
        try:
            tables[name] = ast.literal_eval(m.const(name))
        except (ValueError, TypeError, SyntaxError):
            col.add("E-ORIENT", fn, "orientation tables", True,
                    "%s is computed, not a literal: the re-orientation is not "
                    "evaluated over the 48 codes" % name, undecided=True)
            return
    params = fn.params
    if "input_orientation" not in params:
        raise AnalysisError("anchor vanished: input_orientation parameter")

    def def_of(name):
        ds = [d.value for d in defs.get(name, []) if d.value is not None]
        return ds[0] if len(ds) == 1 else None
    perm_def = inv_def = True     # evaluated on demand through LazyEnv
    # the statements that re-orient `block`, in source order
    steps = []
    slice_step = None
    for st in stmts_of(fn.node):
        if isinstance(st, ast.Assign) and isinstance(st.targets[0], ast.Name):
            tgt, v = st.targets[0].id, st.value
            if tgt == "slice_slicing" and isinstance(v, ast.Subscript) and \
                    isinstance(v.slice, ast.Slice):
                slice_step = v.slice.step
            if tgt == "block":
                if isinstance(v, ast.Subscript) and norm(v.value) == "block":
                    steps.append(("slice", v))
                elif isinstance(v, ast.Call) and \
                        (call_name(v) or "").endswith("moveaxis") and \
                        norm(v.args[0]) == "block":
                    steps.append(("moveaxis", v))
                elif isinstance(v, ast.Call) and \
                        (call_name(v) or "").endswith("transpose") and \
                        norm(v.args[0]) == "block":
                    steps.append(("transpose", v))
                elif isinstance(v, ast.Call) and \
                        (call_name(v) or "").endswith("concatenate"):
                    steps.append(("start", v))
                else:
                    steps.append(("unknown", v))
    if perm_def is None or inv_def is None or slice_step is None or \
            not any(k == "start" for k, _ in steps):
        col.add(rule, fn, "re-orientation statements", True,
                "the flip / axis-move statements are not in the recognised "
                "form", undecided=True)
        return 0
    axis_of = {"R": "X", "L": "X", "A": "Y", "P": "Y", "S": "Z", "I": "Z"}
    sign_of = {"R": 1, "A": 1, "S": 1, "L": -1, "P": -1, "I": -1}
    codes = ["".join(p) for t in itertools.product("LR", "AP", "IS")
             for p in itertools.permutations(t)]
    # re-orientation constructs that are NOT among the statements modelled
    # above (flips / axis moves applied to another array, or in a helper):
    # the model is then incomplete and a mismatch proves nothing
    modelled = {id(v) for _, v in steps}
    from .core import helper_closure as _hc
    extra_ops = []
    # what builds the block in input order (the `start` step and the loader
    # it calls) is the model's starting point, not a later re-orientation
    from .core import resolve_local_call as _rlc, calls_in as _ci
    loader_nodes = set()
    for kind_, v_ in steps:
        if kind_ != "start":
            continue
        for c_ in _ci(v_):
            h_ = _rlc(fn, c_)
            if h_ is not None:
                for hh in _hc(h_, 1):
                    loader_nodes |= {id(y) for y in ast.walk(hh.node)}
    for f_ in _hc(fn, 2):
        for x in ast.walk(f_.node):
            if id(x) in loader_nodes:
                continue
            if id(x) in modelled:
                continue
            if isinstance(x, ast.Call) and (call_name(x) or "").split(
                    ".")[-1] in ("moveaxis", "transpose", "flip", "swapaxes",
                                 "rollaxis", "fliplr", "flipud"):
                if not any(x is v or any(x is y for y in ast.walk(v))
                           for _, v in steps):
                    extra_ops.append(x)
            if isinstance(x, ast.Subscript) and isinstance(x.slice, ast.Tuple) \
                    and any(isinstance(e, ast.Slice) and e.step is not None
                            for e in x.slice.elts):
                if not any(x is v or any(x is y for y in ast.walk(v))
                           for _, v in steps):
                    extra_ops.append(x)
    # the layout the re-oriented block must have is that of its consumer:
    # chunks are (C, Z, Y, X); volume_to_precomputed takes the nibabel
    # layout (X, Y, Z, C) and transposes itself
    final_layout = "CZYX"
    for c_ in _ci(fn.node):
        if (call_name(c_) or "").split(".")[-1] == "volume_to_precomputed" \
                and any(isinstance(a_, ast.Name) and a_.id == "block"
                        for a_ in list(c_.args) +
                        [k_.value for k_ in c_.keywords]):
            final_layout = "XYZC"
    n = 0
    bad = []
    # per-axis vectors moved between volume order (X, Y, Z) and input order
    # (column, row, slice): every permute(...) of the function, evaluated on
    # axis labels
    label_seed = {}
    for name, ds in defs.items():
        for d in ds:
            if d.value is not None and d.kind == "assign" and \
                    d.index is None and isinstance(d.value, ast.Subscript):
                t = norm(d.value)
                if t.endswith("['size']") or "['chunk_sizes'][" in t:
                    label_seed[name] = ("X", "Y", "Z")
        for pre, lab in (("column_", "COL"), ("row_", "ROW"),
                         ("slice_", "SLC")):
            if name.startswith(pre) and all(d.kind != "param" for d in ds):
                label_seed[name] = lab
    perm_calls = [c for c in walk_local(fn.node) if isinstance(c, ast.Call)
                  and (call_name(c) or "").split(".")[-1] == "permute"
                  and len(c.args) == 2]
    vec_bad = {id(c): [] for c in perm_calls}
    vec_und = {id(c): None for c in perm_calls}
    for code in codes:
        init = dict(tables)
        init["input_orientation"] = code
        init.update(label_seed)
        env = LazyEnv(m, defs, init)
        for c in perm_calls:
            try:
                try:
                    src = tuple(ev(c.args[0], env))
                except CantEval:
                    src = _crs_labels(c.args[0], defs)
                    if src is None:
                        raise
                res = FUNCS["permute"](src, ev(c.args[1], env))
            except CantEval as exc:
                vec_und[id(c)] = str(exc)
                continue
            except Exception as exc:
                vec_und[id(c)] = repr(exc)
                continue
            if set(src) == {"X", "Y", "Z"}:
                want_v = tuple(axis_of[ch] for ch in code)
            elif set(src) == {"COL", "ROW", "SLC"}:
                want_v = tuple(
                    ("COL", "ROW", "SLC")[[axis_of[ch] for ch in code].index(a)]
                    for a in ("X", "Y", "Z"))
            else:
                vec_und[id(c)] = "operand labels %r" % (src,)
                continue
            if res != want_v:
                vec_bad[id(c)].append((code, res, want_v))
        init = dict(tables)
        init["input_orientation"] = code
        env = LazyEnv(m, defs, init)
        try:
            axes = None
            for kind, v in steps:
                if kind == "start":
                    axes = [("C", 1), ("SLC", ev(slice_step, env)), ("ROW", 1),
                            ("COL", 1)]
                elif axes is None:
                    continue
                elif kind == "slice":
                    sl = v.slice.elts if isinstance(v.slice, ast.Tuple) \
                        else [v.slice]
                    if len(sl) != len(axes):
                        raise CantEval("slice arity")
                    new = []
                    for (lab, sg), s in zip(axes, sl):
                        if not isinstance(s, ast.Slice) or s.lower or s.upper:
                            raise CantEval("not a pure step slice")
                        step = ev(s.step, env) if s.step is not None else 1
                        if step not in (1, -1):
                            raise CantEval("step %r" % step)
                        new.append((lab, sg * step))
                    axes = new
                elif kind == "moveaxis":
                    axes = moveaxis(axes, list(ev(v.args[1], env)),
                                    list(ev(v.args[2], env)))
                elif kind == "transpose":
                    a = v.args[1] if len(v.args) > 1 else None
                    for k in v.keywords:
                        if k.arg == "axes":
                            a = k.value
                    axes = transpose(axes, list(ev(a, env)))
                else:
                    raise CantEval("unmodelled statement %s" % norm(v)[:40])
        except CantEval as exc:
            col.add(rule, fn, "code %s" % code, True,
                    "cannot evaluate: %s" % exc, undecided=True)
            continue
        except Exception as exc:     # evaluator error on odd input
            col.add(rule, fn, "code %s" % code, True,
                    "cannot evaluate: %r" % exc, undecided=True)
            continue
        n += 1
        if final_layout == "XYZC":
            want = [None, None, None, ("C", 1)]
            posmap = {"X": 0, "Y": 1, "Z": 2}
        else:
            want = [("C", 1), None, None, None]
            posmap = {"X": 3, "Y": 2, "Z": 1}
        for j, (lab, letter) in enumerate(zip(("COL", "ROW", "SLC"), code)):
            pos = posmap[axis_of[letter]]
            want[pos] = (lab, sign_of[letter])
        ok = axes == want
        if not ok:
            bad.append(code)
        col.add(rule, fn, "code %s" % code, ok or bool(extra_ops),
                "" if ok else ("the block is also re-oriented by `%s`, which "
                               "this model does not include"
                               % norm(extra_ops[0])[:50] if extra_ops else
                               "for orientation %s the block ends up as %s "
                               "(position = %s; sign -1 = reversed); the "
                               "code designates %s" % (
                                   code, axes, ",".join(final_layout), want)),
                undecided=not ok and bool(extra_ops))
    for c in perm_calls:
        b = vec_bad[id(c)]
        if b:
            code, res, want_v = b[0]
            col.add(rule + ".vector", fn, norm(c)[:70], False,
                    "for %d of the 48 orientation codes (e.g. %s) this "
                    "re-ordering yields %s where the code designates %s: the "
                    "per-axis values are attached to the wrong axes"
                    % (len(b), code, "/".join(res), "/".join(want_v)), node=c)
        elif vec_und[id(c)] is not None:
            col.add(rule + ".vector", fn, norm(c)[:70], True,
                    "cannot evaluate: %s" % vec_und[id(c)], node=c,
                    undecided=True)
        else:
            col.add(rule + ".vector", fn, norm(c)[:70], True,
                    "agrees with the orientation code for all 48 codes",
                    node=c)
    return n
