"""Load-time canonicalisation of a module's AST (analysis view only).

The rules are about behaviour, so spellings that cannot change behaviour are
normalised away once, when a module is loaded, instead of being taught to
every rule:

  C1  module-level scalar literal constants (`_GZ = ".gz"`, `_HDR = 4`) are
      substituted for their names inside function bodies (unless the name is
      rebound, shadowed by a local, or is one of the few constants rules refer
      to by name);
  C2  a single-use temporary defined immediately before its only use is
      propagated into that use (`_bad = a >= n` / `if _bad: raise`,
      `_ret = f(x)` / `return _ret`);

  C4  a local that merely renames a never-rebound parameter (`q = p`) is
      replaced by the parameter.

Nodes keep the source positions of the statement they came from, so reports
still point at real lines.  The transformation never adds behaviour: every
rewritten form is equivalent for all inputs (C2 changes evaluation order only
between the temporary's expression and sub-expressions evaluated earlier in
the very next statement, which no rule depends on)."""
import ast
import copy

# constants the rules address by name (their *value* is checked separately)
PROTECTED = {"_CHUNK_PATTERN_FLAT", "_CHUNK_PATTERN_SUBDIR"}


def _scalar(node):
    return isinstance(node, ast.Constant) and not isinstance(
        node.value, bool) and isinstance(node.value, (str, int, float, bytes))


def _module_scalars(tree):
    counts = {}
    values = {}
    for st in tree.body:
        tgt = None
        if isinstance(st, ast.Assign) and len(st.targets) == 1 and \
                isinstance(st.targets[0], ast.Name):
            tgt, val = st.targets[0].id, st.value
        elif isinstance(st, ast.AnnAssign) and isinstance(st.target, ast.Name) \
                and st.value is not None:
            tgt, val = st.target.id, st.value
        if tgt is None:
            continue
        counts[tgt] = counts.get(tgt, 0) + 1
        values[tgt] = val
    out = {n: v for n, v in values.items()
           if counts[n] == 1 and _scalar(v) and n not in PROTECTED}
    # rebound anywhere else (global statement, augmented assignment, for ...)
    for n in ast.walk(tree):
        if isinstance(n, ast.Global):
            for nm in n.names:
                out.pop(nm, None)
        elif isinstance(n, ast.AugAssign) and isinstance(n.target, ast.Name):
            if n in tree.body:
                out.pop(n.target.id, None)
    return out


def _local_names(fnode):
    names = {a.arg for a in ast.walk(fnode.args) if isinstance(a, ast.arg)}
    for n in ast.walk(fnode):
        if isinstance(n, ast.Name) and isinstance(n.ctx, (ast.Store, ast.Del)):
            names.add(n.id)
        elif isinstance(n, ast.arg):
            names.add(n.arg)
        elif isinstance(n, (ast.Import, ast.ImportFrom)):
            for a in n.names:
                names.add((a.asname or a.name).split(".")[0])
        elif isinstance(n, ast.ExceptHandler) and n.name:
            names.add(n.name)
    return names


class _SubstConsts(ast.NodeTransformer):
    def __init__(self, table):
        self.table = table
        self.shadow = [set()]

    def _func(self, node):
        self.shadow.append(self.shadow[-1] | _local_names(node))
        # defaults and decorators are evaluated at definition time: keep
        node.body = [self.visit(s) for s in node.body]
        self.shadow.pop()
        return node

    visit_FunctionDef = _func
    visit_AsyncFunctionDef = _func

    def visit_Name(self, node):
        if isinstance(node.ctx, ast.Load) and node.id in self.table and \
                node.id not in self.shadow[-1]:
            return ast.copy_location(copy.deepcopy(self.table[node.id]), node)
        return node


def _subst_consts(tree):
    table = _module_scalars(tree)
    if not table:
        return
    tr = _SubstConsts(table)
    for st in tree.body:
        if isinstance(st, (ast.FunctionDef, ast.AsyncFunctionDef)):
            tr.visit(st)
        elif isinstance(st, ast.ClassDef):
            for s2 in st.body:
                if isinstance(s2, (ast.FunctionDef, ast.AsyncFunctionDef)):
                    tr.visit(s2)


# ---------------------------------------------------------------------
def _name_uses(node, name):
    return [n for n in ast.walk(node) if isinstance(n, ast.Name)
            and n.id == name]


def _header_exprs(st):
    """Expression fields of a statement that are evaluated when control
    reaches it (not the bodies of compound statements)."""
    out = []
    for field, value in ast.iter_fields(st):
        if field in ("body", "orelse", "finalbody", "handlers", "cases"):
            continue
        for sub in (value if isinstance(value, list) else [value]):
            if isinstance(sub, ast.AST):
                out.append((field, sub))
    return out


class _Replace(ast.NodeTransformer):
    def __init__(self, name, value):
        self.name, self.value = name, value

    def visit_Name(self, node):
        if node.id == self.name and isinstance(node.ctx, ast.Load):
            return ast.copy_location(self.value, node)
        return node

    def visit_Lambda(self, node):
        return node

    def visit_FunctionDef(self, node):
        return node


def _propagate_temps(fnode):
    """C2 on one function (nested functions are handled on their own)."""
    # count stores and loads of every name in the function, nested scopes
    # included (a name read by a closure is not a pure temporary)
    stores, loads = {}, {}
    for n in ast.walk(fnode):
        if isinstance(n, ast.Name):
            d = stores if isinstance(n.ctx, (ast.Store, ast.Del)) else loads
            d[n.id] = d.get(n.id, 0) + 1
    params = {a.arg for a in ast.walk(fnode.args) if isinstance(a, ast.arg)}
    declared = set()
    for n in ast.walk(fnode):
        if isinstance(n, (ast.Global, ast.Nonlocal)):
            declared |= set(n.names)

    def rewrite(stmts):
        out = []
        i = 0
        while i < len(stmts):
            st = stmts[i]
            if not isinstance(st, (ast.FunctionDef, ast.AsyncFunctionDef,
                                   ast.ClassDef)):
                for field in ("body", "orelse", "finalbody"):
                    sub = getattr(st, field, None)
                    if isinstance(sub, list) and sub and \
                            isinstance(sub[0], ast.stmt):
                        setattr(st, field, rewrite(sub))
                for h in getattr(st, "handlers", []) or []:
                    h.body = rewrite(h.body)
            nxt = stmts[i + 1] if i + 1 < len(stmts) else None
            if isinstance(st, ast.Assign) and len(st.targets) == 1 and \
                    isinstance(st.targets[0], ast.Name) and nxt is not None \
                    and isinstance(nxt, (ast.If, ast.Return, ast.Raise,
                                         ast.Assert)):
                name = st.targets[0].id
                if stores.get(name) == 1 and loads.get(name) == 1 and \
                        name not in params and name not in declared and \
                        not isinstance(st.value, (ast.Yield, ast.YieldFrom,
                                                  ast.Await)):
                    hdr = _header_exprs(nxt)
                    uses = [u for _, e in hdr for u in _name_uses(e, name)]
                    in_lambda = any(isinstance(x, (ast.Lambda, ast.ListComp,
                                                   ast.GeneratorExp,
                                                   ast.SetComp, ast.DictComp))
                                    and _name_uses(x, name)
                                    for _, e in hdr for x in ast.walk(e))
                    if len(uses) == 1 and not in_lambda:
                        rep = _Replace(name, st.value)
                        for field, e in hdr:
                            new = rep.visit(e)
                            cur = getattr(nxt, field)
                            if isinstance(cur, list):
                                setattr(nxt, field,
                                        [new if x is e else x for x in cur])
                            else:
                                setattr(nxt, field, new)
                        # the temporary's line stays attached to the use
                        i += 1
                        continue
            out.append(st)
            i += 1
        return out
    fnode.body = rewrite(fnode.body)


def _fold_if_assign(fnode):
    """C3 on one function."""
    def same_target(a, b):
        return ast.dump(a) == ast.dump(b)

    def rewrite(stmts):
        out = []
        for st in stmts:
            if not isinstance(st, (ast.FunctionDef, ast.AsyncFunctionDef,
                                   ast.ClassDef)):
                for field in ("body", "orelse", "finalbody"):
                    sub = getattr(st, field, None)
                    if isinstance(sub, list) and sub and \
                            isinstance(sub[0], ast.stmt):
                        setattr(st, field, rewrite(sub))
                for h in getattr(st, "handlers", []) or []:
                    h.body = rewrite(h.body)
            if isinstance(st, ast.If) and len(st.body) == 1 and \
                    len(st.orelse) == 1 and \
                    isinstance(st.body[0], ast.Assign) and \
                    isinstance(st.orelse[0], ast.Assign) and \
                    len(st.body[0].targets) == 1 and \
                    len(st.orelse[0].targets) == 1 and \
                    isinstance(st.body[0].targets[0], (ast.Name,
                                                       ast.Attribute)) and \
                    same_target(st.body[0].targets[0],
                                st.orelse[0].targets[0]):
                new = ast.Assign(
                    targets=[st.body[0].targets[0]],
                    value=ast.copy_location(ast.IfExp(
                        test=st.test, body=st.body[0].value,
                        orelse=st.orelse[0].value), st))
                out.append(ast.copy_location(new, st))
                continue
            out.append(st)
        return out
    fnode.body = rewrite(fnode.body)


def _drop_param_aliases(fnode):
    """C4: `q = p` where p is a parameter that is never re-bound and q is
    bound exactly once: every read of q becomes a read of p and the
    assignment goes away."""
    params = {a.arg for a in ast.walk(fnode.args) if isinstance(a, ast.arg)}
    stores = {}
    declared = set()
    for n in ast.walk(fnode):
        if isinstance(n, ast.Name) and isinstance(n.ctx, (ast.Store, ast.Del)):
            stores[n.id] = stores.get(n.id, 0) + 1
        elif isinstance(n, (ast.Global, ast.Nonlocal)):
            declared |= set(n.names)
        elif isinstance(n, ast.arg) and n.arg not in params:
            stores[n.arg] = stores.get(n.arg, 0) + 2
    # nested functions' own parameters shadow: leave those names alone
    nested_params = set()
    for n in ast.walk(fnode):
        if n is not fnode and isinstance(n, (ast.FunctionDef, ast.Lambda,
                                             ast.AsyncFunctionDef)):
            for x in ast.walk(n.args):
                if isinstance(x, ast.arg):
                    nested_params.add(x.arg)
    loads = {}
    for n in ast.walk(fnode):
        if isinstance(n, ast.Name) and isinstance(n.ctx, ast.Load):
            loads[n.id] = loads.get(n.id, 0) + 1
    table = {}
    keep = []
    seen = set()
    for st in fnode.body:
        if isinstance(st, ast.Assign) and len(st.targets) == 1 and \
                isinstance(st.targets[0], ast.Name) and \
                isinstance(st.value, ast.Name):
            q, p_ = st.targets[0].id, st.value.id
            plain = p_ in params and stores.get(p_, 0) == 0 and \
                q not in params and q not in declared and \
                q not in nested_params and p_ not in nested_params and \
                q not in seen and q not in table.values()
            # (a) q is bound only here, or (b) the parameter is not used
            # again, so q simply takes over its role (and may be re-bound)
            if plain and (stores.get(q, 0) == 1 or loads.get(p_, 0) == 1):
                table[q] = p_
                continue
        for n in ast.walk(st):
            if isinstance(n, ast.Name):
                seen.add(n.id)
        keep.append(st)
    if not table:
        return
    fnode.body = keep or [ast.Pass()]
    for n in ast.walk(fnode):
        if isinstance(n, ast.Name) and n.id in table:
            n.id = table[n.id]


class _DebugIf(ast.NodeTransformer):
    """C5: `if __debug__: body` -> body (the analysed configuration is the
    one in which assert statements are active, which is also what every rule
    assumes when it reads an assert as a guard)."""

    def visit_If(self, node):
        self.generic_visit(node)
        if isinstance(node.test, ast.Name) and node.test.id == "__debug__":
            return node.body
        return node


def canonicalise(tree):
    _DebugIf().visit(tree)
    _subst_consts(tree)
    for n in ast.walk(tree):
        if isinstance(n, (ast.FunctionDef, ast.AsyncFunctionDef)):
            _drop_param_aliases(n)
    for n in ast.walk(tree):
        if isinstance(n, (ast.FunctionDef, ast.AsyncFunctionDef)):
            _propagate_temps(n)
    ast.fix_missing_locations(tree)
    return tree
