"""Load-time canonicalisation of a module's AST (analysis view only).

The rules are about behaviour, so spellings that cannot change behaviour are
normalised away once, when a module is loaded, instead of being taught to
every rule:

  C1  module-level scalar literal constants (`_GZ = ".gz"`, `_HDR = 4`) are
      substituted for their names inside function bodies (unless the name is
      rebound, shadowed by a local, or is one of the few constants rules refer
      to by name);
  C2  a single-use temporary defined immediately before its only use is
      propagated into that use (`_bad = a >= n` / `if _bad: raise`,
      `_ret = f(x)` / `return _ret`);

  C4  a local that merely renames a never-rebound parameter (`q = p`) is
      replaced by the parameter;
  C5  `if __debug__:` bodies are taken as written;
  C6  a call to a private module-level function, or to a private method
      through self, whose body is a single `return <expression>` is replaced
      by that expression (the pinned tree has one, CMCReadWrite._hash, which
      stays a call: this normalises helper extraction);
  C8  a call statement of a module-level "require" helper (`if not cond:
      raise E(msg)`, or a one-line wrapper of one) becomes that if-statement.

Nodes keep the source positions of the statement they came from, so reports
still point at real lines.  The transformation never adds behaviour: every
rewritten form is equivalent for all inputs (C2 changes evaluation order only
between the temporary's expression and sub-expressions evaluated earlier in
the very next statement, which no rule depends on)."""
import ast
import copy

# constants the rules address by name (their *value* is checked separately)
PROTECTED = {"_CHUNK_PATTERN_FLAT", "_CHUNK_PATTERN_SUBDIR"}
# private one-expression methods the rules address by name
PROTECTED_METHODS = {"_hash"}


def _scalar(node):
    return isinstance(node, ast.Constant) and not isinstance(
        node.value, bool) and isinstance(node.value, (str, int, float, bytes))


def _module_scalars(tree):
    counts = {}
    values = {}
    for st in tree.body:
        tgt = None
        if isinstance(st, ast.Assign) and len(st.targets) == 1 and \
                isinstance(st.targets[0], ast.Name):
            tgt, val = st.targets[0].id, st.value
        elif isinstance(st, ast.AnnAssign) and isinstance(st.target, ast.Name) \
                and st.value is not None:
            tgt, val = st.target.id, st.value
        if tgt is None:
            continue
        counts[tgt] = counts.get(tgt, 0) + 1
        values[tgt] = val
    out = {n: v for n, v in values.items()
           if counts[n] == 1 and _scalar(v) and n not in PROTECTED}
    # rebound anywhere else (global statement, augmented assignment, for ...)
    for n in ast.walk(tree):
        if isinstance(n, ast.Global):
            for nm in n.names:
                out.pop(nm, None)
        elif isinstance(n, ast.AugAssign) and isinstance(n.target, ast.Name):
            if n in tree.body:
                out.pop(n.target.id, None)
    return out


def _local_names(fnode):
    names = {a.arg for a in ast.walk(fnode.args) if isinstance(a, ast.arg)}
    for n in ast.walk(fnode):
        if isinstance(n, ast.Name) and isinstance(n.ctx, (ast.Store, ast.Del)):
            names.add(n.id)
        elif isinstance(n, ast.arg):
            names.add(n.arg)
        elif isinstance(n, (ast.Import, ast.ImportFrom)):
            for a in n.names:
                names.add((a.asname or a.name).split(".")[0])
        elif isinstance(n, ast.ExceptHandler) and n.name:
            names.add(n.name)
    return names


class _SubstConsts(ast.NodeTransformer):
    def __init__(self, table):
        self.table = table
        self.shadow = [set()]

    def _func(self, node):
        self.shadow.append(self.shadow[-1] | _local_names(node))
        # defaults and decorators are evaluated at definition time: keep
        node.body = [self.visit(s) for s in node.body]
        self.shadow.pop()
        return node

    visit_FunctionDef = _func
    visit_AsyncFunctionDef = _func

    def visit_Name(self, node):
        if isinstance(node.ctx, ast.Load) and node.id in self.table and \
                node.id not in self.shadow[-1]:
            return ast.copy_location(copy.deepcopy(self.table[node.id]), node)
        return node


def _subst_consts(tree):
    table = _module_scalars(tree)
    if not table:
        return
    tr = _SubstConsts(table)
    for st in tree.body:
        if isinstance(st, (ast.FunctionDef, ast.AsyncFunctionDef)):
            tr.visit(st)
        elif isinstance(st, ast.ClassDef):
            for s2 in st.body:
                if isinstance(s2, (ast.FunctionDef, ast.AsyncFunctionDef)):
                    tr.visit(s2)


# ---------------------------------------------------------------------
def _name_uses(node, name):
    return [n for n in ast.walk(node) if isinstance(n, ast.Name)
            and n.id == name]


def _header_exprs(st):
    """Expression fields of a statement that are evaluated when control
    reaches it (not the bodies of compound statements)."""
    out = []
    for field, value in ast.iter_fields(st):
        if field in ("body", "orelse", "finalbody", "handlers", "cases"):
            continue
        for sub in (value if isinstance(value, list) else [value]):
            if isinstance(sub, ast.AST):
                out.append((field, sub))
    return out


class _Replace(ast.NodeTransformer):
    def __init__(self, name, value):
        self.name, self.value = name, value

    def visit_Name(self, node):
        if node.id == self.name and isinstance(node.ctx, ast.Load):
            return ast.copy_location(self.value, node)
        return node

    def visit_Lambda(self, node):
        return node

    def visit_FunctionDef(self, node):
        return node


def _propagate_temps(fnode):
    """C2 on one function (nested functions are handled on their own)."""
    # count stores and loads of every name in the function, nested scopes
    # included (a name read by a closure is not a pure temporary)
    stores, loads = {}, {}
    for n in ast.walk(fnode):
        if isinstance(n, ast.Name):
            d = stores if isinstance(n.ctx, (ast.Store, ast.Del)) else loads
            d[n.id] = d.get(n.id, 0) + 1
    params = {a.arg for a in ast.walk(fnode.args) if isinstance(a, ast.arg)}
    declared = set()
    for n in ast.walk(fnode):
        if isinstance(n, (ast.Global, ast.Nonlocal)):
            declared |= set(n.names)

    def rewrite(stmts):
        out = []
        i = 0
        while i < len(stmts):
            st = stmts[i]
            if not isinstance(st, (ast.FunctionDef, ast.AsyncFunctionDef,
                                   ast.ClassDef)):
                for field in ("body", "orelse", "finalbody"):
                    sub = getattr(st, field, None)
                    if isinstance(sub, list) and sub and \
                            isinstance(sub[0], ast.stmt):
                        setattr(st, field, rewrite(sub))
                for h in getattr(st, "handlers", []) or []:
                    h.body = rewrite(h.body)
            nxt = stmts[i + 1] if i + 1 < len(stmts) else None
            if isinstance(st, ast.Assign) and len(st.targets) == 1 and \
                    isinstance(st.targets[0], ast.Name) and nxt is not None \
                    and isinstance(nxt, (ast.If, ast.Return, ast.Raise,
                                         ast.Assert)):
                name = st.targets[0].id
                if stores.get(name) == 1 and loads.get(name) == 1 and \
                        name not in params and name not in declared and \
                        not isinstance(st.value, (ast.Yield, ast.YieldFrom,
                                                  ast.Await)):
                    hdr = _header_exprs(nxt)
                    uses = [u for _, e in hdr for u in _name_uses(e, name)]
                    in_lambda = any(isinstance(x, (ast.Lambda, ast.ListComp,
                                                   ast.GeneratorExp,
                                                   ast.SetComp, ast.DictComp))
                                    and _name_uses(x, name)
                                    for _, e in hdr for x in ast.walk(e))
                    if len(uses) == 1 and not in_lambda:
                        rep = _Replace(name, st.value)
                        for field, e in hdr:
                            new = rep.visit(e)
                            cur = getattr(nxt, field)
                            if isinstance(cur, list):
                                setattr(nxt, field,
                                        [new if x is e else x for x in cur])
                            else:
                                setattr(nxt, field, new)
                        # the temporary's line stays attached to the use
                        i += 1
                        continue
            out.append(st)
            i += 1
        return out
    fnode.body = rewrite(fnode.body)


def _fold_if_assign(fnode):
    """C3 on one function."""
    def same_target(a, b):
        return ast.dump(a) == ast.dump(b)

    def rewrite(stmts):
        out = []
        for st in stmts:
            if not isinstance(st, (ast.FunctionDef, ast.AsyncFunctionDef,
                                   ast.ClassDef)):
                for field in ("body", "orelse", "finalbody"):
                    sub = getattr(st, field, None)
                    if isinstance(sub, list) and sub and \
                            isinstance(sub[0], ast.stmt):
                        setattr(st, field, rewrite(sub))
                for h in getattr(st, "handlers", []) or []:
                    h.body = rewrite(h.body)
            if isinstance(st, ast.If) and len(st.body) == 1 and \
                    len(st.orelse) == 1 and \
                    isinstance(st.body[0], ast.Assign) and \
                    isinstance(st.orelse[0], ast.Assign) and \
                    len(st.body[0].targets) == 1 and \
                    len(st.orelse[0].targets) == 1 and \
                    isinstance(st.body[0].targets[0], (ast.Name,
                                                       ast.Attribute)) and \
                    same_target(st.body[0].targets[0],
                                st.orelse[0].targets[0]):
                new = ast.Assign(
                    targets=[st.body[0].targets[0]],
                    value=ast.copy_location(ast.IfExp(
                        test=st.test, body=st.body[0].value,
                        orelse=st.orelse[0].value), st))
                out.append(ast.copy_location(new, st))
                continue
            out.append(st)
        return out
    fnode.body = rewrite(fnode.body)


def _drop_param_aliases(fnode):
    """C4: `q = p` where p is a parameter that is never re-bound and q is
    bound exactly once: every read of q becomes a read of p and the
    assignment goes away."""
    params = {a.arg for a in ast.walk(fnode.args) if isinstance(a, ast.arg)}
    stores = {}
    declared = set()
    for n in ast.walk(fnode):
        if isinstance(n, ast.Name) and isinstance(n.ctx, (ast.Store, ast.Del)):
            stores[n.id] = stores.get(n.id, 0) + 1
        elif isinstance(n, (ast.Global, ast.Nonlocal)):
            declared |= set(n.names)
        elif isinstance(n, ast.arg) and n.arg not in params:
            stores[n.arg] = stores.get(n.arg, 0) + 2
    # nested functions' own parameters shadow: leave those names alone
    nested_params = set()
    for n in ast.walk(fnode):
        if n is not fnode and isinstance(n, (ast.FunctionDef, ast.Lambda,
                                             ast.AsyncFunctionDef)):
            for x in ast.walk(n.args):
                if isinstance(x, ast.arg):
                    nested_params.add(x.arg)
    loads = {}
    for n in ast.walk(fnode):
        if isinstance(n, ast.Name) and isinstance(n.ctx, ast.Load):
            loads[n.id] = loads.get(n.id, 0) + 1
    table = {}
    keep = []
    seen = set()
    for st in fnode.body:
        if isinstance(st, ast.Assign) and len(st.targets) == 1 and \
                isinstance(st.targets[0], ast.Name) and \
                isinstance(st.value, ast.Name):
            q, p_ = st.targets[0].id, st.value.id
            plain = p_ in params and stores.get(p_, 0) == 0 and \
                q not in params and q not in declared and \
                q not in nested_params and p_ not in nested_params and \
                q not in seen and q not in table.values()
            # (a) q is bound only here, or (b) the parameter is not used
            # again, so q simply takes over its role (and may be re-bound)
            if plain and (stores.get(q, 0) == 1 or loads.get(p_, 0) == 1):
                table[q] = p_
                continue
        for n in ast.walk(st):
            if isinstance(n, ast.Name):
                seen.add(n.id)
        keep.append(st)
    if not table:
        return
    fnode.body = keep or [ast.Pass()]
    for n in ast.walk(fnode):
        if isinstance(n, ast.Name) and n.id in table:
            n.id = table[n.id]


MUTATORS = {"append", "extend", "clear", "pop", "insert", "remove", "update",
            "sort", "reverse", "resize", "setdefault", "popitem", "add",
            "discard", "write", "seek", "truncate"}
PROJ_ATTRS = {"shape", "dtype", "itemsize", "size", "ndim", "nbytes", "T"}


def _inline_projections(fnode):
    """C7: a local bound once to a projection of a parameter that is never
    re-bound - `n = len(buf)`, `dt = chunk.dtype`, `bx = block_size[0]`,
    `view = memoryview(buf)`, `bx, by = bs[0], bs[1]`, `z, y, x =
    chunk.shape[1:]` - is replaced by that projection in the statements that
    read it.  len() is only followed for parameters the function never grows
    (no augmented assignment, no mutating method call)."""
    params = {a.arg for a in ast.walk(fnode.args) if isinstance(a, ast.arg)}
    own = {a.arg for a in fnode.args.posonlyargs + fnode.args.args +
           fnode.args.kwonlyargs}
    stores, declared, mutated = {}, set(), set()
    for n in ast.walk(fnode):
        if isinstance(n, ast.Name) and isinstance(n.ctx, (ast.Store, ast.Del)):
            stores[n.id] = stores.get(n.id, 0) + 1
        elif isinstance(n, (ast.Global, ast.Nonlocal)):
            declared |= set(n.names)
        elif isinstance(n, ast.arg) and n.arg not in own:
            stores[n.arg] = stores.get(n.arg, 0) + 2     # nested parameter
        elif isinstance(n, ast.AugAssign) and isinstance(n.target, ast.Name):
            mutated.add(n.target.id)
        elif isinstance(n, ast.Call) and isinstance(n.func, ast.Attribute) \
                and isinstance(n.func.value, ast.Name) and \
                n.func.attr in MUTATORS:
            mutated.add(n.func.value.id)

    def stable(name):
        return name in own and stores.get(name, 0) == 0 and name != "self"

    def projection(v):
        """The expression if v is a projection of a stable parameter."""
        if isinstance(v, ast.Call) and isinstance(v.func, ast.Name) and \
                len(v.args) == 1 and not v.keywords and \
                isinstance(v.args[0], ast.Name) and stable(v.args[0].id):
            if v.func.id == "len" and v.args[0].id not in mutated:
                return v
            if v.func.id == "memoryview":
                return v.args[0]
            return None
        if isinstance(v, ast.Attribute) and v.attr in PROJ_ATTRS and \
                isinstance(v.value, ast.Name) and stable(v.value.id):
            return v
        if isinstance(v, ast.Subscript) and isinstance(v.slice, ast.Constant) \
                and isinstance(v.slice.value, int):
            b = v.value
            if isinstance(b, ast.Name) and stable(b.id) and \
                    b.id not in mutated:
                return v
            if isinstance(b, ast.Attribute) and b.attr == "shape" and \
                    isinstance(b.value, ast.Name) and stable(b.value.id):
                return v
        return None
    table = {}

    def consider(name, v):
        if name in params or name in declared or stores.get(name, 0) != 1:
            return False
        e = projection(v)
        if e is None:
            return False
        table[name] = e
        return True

    def rewrite(stmts):
        out = []
        for st in stmts:
            if isinstance(st, ast.Assign) and len(st.targets) == 1:
                t, v = st.targets[0], st.value
                if isinstance(t, ast.Name) and consider(t.id, v):
                    continue
                if isinstance(t, (ast.Tuple, ast.List)) and \
                        all(isinstance(e, ast.Name) for e in t.elts):
                    vals = None
                    if isinstance(v, (ast.Tuple, ast.List)) and \
                            len(v.elts) == len(t.elts):
                        vals = list(v.elts)
                    elif isinstance(v, ast.Subscript) and \
                            isinstance(v.slice, ast.Slice) and \
                            v.slice.step is None and v.slice.upper is None \
                            and isinstance(v.value, ast.Attribute) and \
                            v.value.attr == "shape":
                        lo = v.slice.lower
                        lo = 0 if lo is None else (
                            lo.value if isinstance(lo, ast.Constant) and
                            isinstance(lo.value, int) else None)
                        if lo is not None and lo >= 0:
                            vals = [ast.copy_location(ast.Subscript(
                                value=copy.deepcopy(v.value),
                                slice=ast.Constant(value=lo + k),
                                ctx=ast.Load()), v)
                                for k in range(len(t.elts))]
                    if vals is not None and all(
                            projection(x) is not None and
                            e.id not in params and e.id not in declared and
                            stores.get(e.id, 0) == 1
                            for e, x in zip(t.elts, vals)):
                        for e, x in zip(t.elts, vals):
                            table[e.id] = projection(x)
                        continue
            for field in ("body", "orelse", "finalbody"):
                sub = getattr(st, field, None)
                if isinstance(sub, list) and sub and \
                        isinstance(sub[0], ast.stmt) and not isinstance(
                            st, (ast.FunctionDef, ast.AsyncFunctionDef,
                                 ast.ClassDef)):
                    setattr(st, field, rewrite(sub) or
                            [ast.copy_location(ast.Pass(), st)])
            for h in getattr(st, "handlers", []) or []:
                h.body = rewrite(h.body) or [ast.copy_location(ast.Pass(), h)]
            out.append(st)
        return out
    fnode.body = rewrite(fnode.body) or [ast.copy_location(ast.Pass(), fnode)]
    if not table:
        return

    class _S(ast.NodeTransformer):
        def visit_Name(self, n):
            if isinstance(n.ctx, ast.Load) and n.id in table:
                e = copy.deepcopy(table[n.id])
                for x in ast.walk(e):
                    ast.copy_location(x, n)
                return e
            return n
    _S().visit(fnode)


class _DebugIf(ast.NodeTransformer):
    """C5: `if __debug__: body` -> body (the analysed configuration is the
    one in which assert statements are active, which is also what every rule
    assumes when it reads an assert as a guard)."""

    def visit_If(self, node):
        self.generic_visit(node)
        if isinstance(node.test, ast.Name) and node.test.id == "__debug__":
            return node.body
        return node


# ---------------------------------------------------------------------
# C6: private one-expression helpers
# ---------------------------------------------------------------------
def _expr_helper(fn):
    """(params, defaults, expr) if fn is `def _name(a, b=1): return <expr>`
    (docstring allowed), else None."""
    if fn.decorator_list or not fn.name.startswith("_") or \
            (fn.name.startswith("__") and fn.name.endswith("__")):
        return None
    a = fn.args
    if a.vararg or a.kwarg or a.kwonlyargs or a.posonlyargs:
        return None
    body = [s for s in fn.body if not (isinstance(s, ast.Expr) and
                                       isinstance(s.value, ast.Constant))]
    if len(body) != 1 or not isinstance(body[0], ast.Return) or \
            body[0].value is None:
        return None
    expr = body[0].value
    for n in ast.walk(expr):
        if isinstance(n, (ast.Yield, ast.YieldFrom, ast.Await, ast.NamedExpr)):
            return None
        if isinstance(n, ast.Call) and isinstance(n.func, ast.Name) and \
                n.func.id in (fn.name, "super", "locals", "vars"):
            return None
    params = [x.arg for x in a.args]
    defaults = dict(zip(params[len(params) - len(a.defaults):], a.defaults))
    return params, defaults, expr


class _InlineHelpers(ast.NodeTransformer):
    def __init__(self, funcs, methods):
        self.funcs = funcs
        self.methods = methods
        self.n = 0
        self._k = 0

    def _bind(self, params, defaults, call):
        if any(isinstance(x, ast.Starred) for x in call.args) or \
                any(k.arg is None for k in call.keywords) or \
                len(call.args) > len(params):
            return None
        table = dict(zip(params, call.args))
        for k in call.keywords:
            if k.arg not in params or k.arg in table:
                return None
            table[k.arg] = k.value
        for p_ in params:
            if p_ not in table:
                if p_ not in defaults:
                    return None
                table[p_] = defaults[p_]
        return table

    def _subst(self, expr, table, node):
        e = copy.deepcopy(expr)
        # names bound by comprehensions of the helper must not capture names
        # of the argument expressions
        self._k += 1
        bound = {}
        for n in ast.walk(e):
            if isinstance(n, ast.comprehension):
                for t in ast.walk(n.target):
                    if isinstance(t, ast.Name):
                        bound.setdefault(t.id, "%s__c%d" % (t.id, self._k))
        table = {k: v for k, v in table.items() if k not in bound}

        class R(ast.NodeTransformer):
            def visit_Name(self_, n):
                if n.id in bound:
                    return ast.copy_location(
                        ast.Name(id=bound[n.id], ctx=n.ctx), n)
                if n.id in table and isinstance(n.ctx, ast.Load):
                    return copy.deepcopy(table[n.id])
                return n
        e = R().visit(e)
        for n in ast.walk(e):
            ast.copy_location(n, node)
        return e

    def visit_Call(self, node):
        self.generic_visit(node)
        f = node.func
        h = None
        params = None
        if isinstance(f, ast.Name) and f.id in self.funcs:
            params, defaults, expr = self.funcs[f.id]
        elif isinstance(f, ast.Attribute) and isinstance(f.value, ast.Name) \
                and f.value.id == "self" and f.attr in self.methods:
            params, defaults, expr = self.methods[f.attr]
            params = params[1:]
        if params is None:
            return node
        table = self._bind(params, defaults, node)
        if table is None:
            return node
        self.n += 1
        return self._subst(expr, table, node)


def _inline_expr_helpers(tree):
    """C6: a call to a private module-level function (or private method,
    through self) whose body is one `return <expression>` is replaced by that
    expression with the arguments substituted.  The helper stays defined."""
    for _ in range(3):
        funcs, methods, seen_m = {}, {}, {}
        for st in tree.body:
            if isinstance(st, ast.FunctionDef):
                h = _expr_helper(st)
                if h is not None:
                    funcs[st.name] = h
            elif isinstance(st, ast.ClassDef):
                for m in st.body:
                    if isinstance(m, ast.FunctionDef):
                        seen_m[m.name] = seen_m.get(m.name, 0) + 1
                        h = _expr_helper(m)
                        if h is not None and h[0] and h[0][0] == "self":
                            methods[m.name] = h
        # a method name defined by several classes may be overridden; the
        # few private one-liners the rules address by name stay calls
        methods = {k: v for k, v in methods.items()
                   if seen_m.get(k) == 1 and k not in PROTECTED_METHODS}
        # a function rebound at module level is not a fixed helper
        for st in tree.body:
            if isinstance(st, (ast.Assign, ast.AnnAssign)):
                tg = st.targets if isinstance(st, ast.Assign) else [st.target]
                for t in tg:
                    if isinstance(t, ast.Name):
                        funcs.pop(t.id, None)
        if not funcs and not methods:
            return
        tr = _InlineHelpers(funcs, methods)
        tr.visit(tree)
        if not tr.n:
            return


# ---------------------------------------------------------------------
# C8: `_require(condition, message)` helpers
# ---------------------------------------------------------------------
def _subst_names(node, table):
    node = copy.deepcopy(node)

    class R(ast.NodeTransformer):
        def visit_Name(self, n):
            if n.id in table and isinstance(n.ctx, ast.Load):
                return copy.deepcopy(table[n.id])
            return n
    return R().visit(node)


def _bind_call(fn, call):
    a = fn.args
    if a.vararg or a.kwarg or a.kwonlyargs or a.posonlyargs:
        return None
    params = [x.arg for x in a.args]
    if any(isinstance(x, ast.Starred) for x in call.args) or \
            any(k.arg is None for k in call.keywords) or \
            len(call.args) > len(params):
        return None
    table = dict(zip(params, call.args))
    for k in call.keywords:
        if k.arg not in params or k.arg in table:
            return None
        table[k.arg] = k.value
    defaults = dict(zip(params[len(params) - len(a.defaults):], a.defaults))
    for p_ in params:
        if p_ not in table:
            if p_ not in defaults:
                return None
            table[p_] = defaults[p_]
    return table


def _inline_require_helpers(tree):
    """C8: a call statement `_require(cond, msg)` of a module-level function
    whose whole body is `if not <cond>: raise E(...)` (or a one-line wrapper
    around such a function) is replaced by that if-statement, so that guard
    rules see `if not cond: raise`."""
    funcs = {st.name: st for st in tree.body
             if isinstance(st, ast.FunctionDef) and not st.decorator_list}
    helpers = {}      # name -> (fn, test expression, raise statement)

    def body_of(fn):
        return [s for s in fn.body if not (isinstance(s, ast.Expr) and
                                           isinstance(s.value, ast.Constant))]
    for name, fn in funcs.items():
        b = body_of(fn)
        if len(b) == 1 and isinstance(b[0], ast.If) and not b[0].orelse and \
                len(b[0].body) == 1 and isinstance(b[0].body[0], ast.Raise):
            helpers[name] = (fn, b[0].test, b[0].body[0])
    for _ in range(2):
        for name, fn in funcs.items():
            if name in helpers:
                continue
            b = body_of(fn)
            if len(b) == 1 and isinstance(b[0], ast.Expr) and \
                    isinstance(b[0].value, ast.Call) and \
                    isinstance(b[0].value.func, ast.Name) and \
                    b[0].value.func.id in helpers:
                hfn, test, rs = helpers[b[0].value.func.id]
                table = _bind_call(hfn, b[0].value)
                if table is not None:
                    helpers[name] = (fn, _subst_names(test, table),
                                     _subst_names(rs, table))
    if not helpers:
        return

    def rewrite(stmts):
        out = []
        for st in stmts:
            if isinstance(st, ast.Expr) and isinstance(st.value, ast.Call) \
                    and isinstance(st.value.func, ast.Name) and \
                    st.value.func.id in helpers:
                hfn, test, rs = helpers[st.value.func.id]
                table = _bind_call(hfn, st.value)
                if table is not None:
                    new = ast.If(test=_subst_names(test, table),
                                 body=[_subst_names(rs, table)], orelse=[])
                    for x in ast.walk(new):
                        ast.copy_location(x, st)
                    out.append(new)
                    continue
            for field in ("body", "orelse", "finalbody"):
                sub = getattr(st, field, None)
                if isinstance(sub, list) and sub and \
                        isinstance(sub[0], ast.stmt):
                    setattr(st, field, rewrite(sub))
            for h in getattr(st, "handlers", []) or []:
                h.body = rewrite(h.body)
            out.append(st)
        return out
    for node in ast.walk(tree):
        if isinstance(node, (ast.FunctionDef, ast.AsyncFunctionDef)) and \
                node.name not in helpers:
            node.body = rewrite(node.body)


def _attr_local_aliases(tree):
    """C9.  `buf = self.buf` as a top-level statement of a method, where
    `buf` is bound nowhere else in the method and the class assigns
    `self.buf` only in its constructor: from that statement on, `self.buf`
    and `buf` are the same value; later loads of the attribute are written
    as the local (the form the code has before 'turn the functions into a
    class')."""
    for cls in [n for n in ast.walk(tree) if isinstance(n, ast.ClassDef)]:
        stores = {}
        meths = [m for m in cls.body
                 if isinstance(m, (ast.FunctionDef, ast.AsyncFunctionDef))]
        for m in meths:
            for x in ast.walk(m):
                if isinstance(x, ast.Attribute) and \
                        isinstance(x.ctx, (ast.Store, ast.Del)) and \
                        isinstance(x.value, ast.Name) and x.value.id == "self":
                    stores.setdefault(x.attr, set()).add(m.name)
        for m in meths:
            if m.name == "__init__" or not m.args.args or \
                    m.args.args[0].arg != "self":
                continue
            bound = {}
            for x in ast.walk(m):
                if isinstance(x, ast.Name) and isinstance(x.ctx, ast.Store):
                    bound[x.id] = bound.get(x.id, 0) + 1
            params = {a.arg for a in m.args.args + m.args.kwonlyargs}
            for i, st in enumerate(m.body):
                if not (isinstance(st, ast.Assign) and len(st.targets) == 1
                        and isinstance(st.targets[0], ast.Name)
                        and isinstance(st.value, ast.Attribute)
                        and isinstance(st.value.value, ast.Name)
                        and st.value.value.id == "self"):
                    continue
                loc, attr = st.targets[0].id, st.value.attr
                if bound.get(loc, 0) != 1 or loc in params or \
                        not stores.get(attr, set()) <= {"__init__"}:
                    continue
                # nested functions binding the same name would shadow it
                if any(isinstance(y, (ast.FunctionDef, ast.Lambda)) and any(
                        a.arg == loc for a in y.args.args)
                        for y in ast.walk(m) if y is not m):
                    continue

                class R(ast.NodeTransformer):
                    def visit_Attribute(self, n):
                        if isinstance(n.ctx, ast.Load) and \
                                isinstance(n.value, ast.Name) and \
                                n.value.id == "self" and n.attr == attr:
                            return ast.copy_location(
                                ast.Name(id=loc, ctx=ast.Load()), n)
                        return self.generic_visit(n)
                for j in range(i + 1, len(m.body)):
                    m.body[j] = R().visit(m.body[j])


def canonicalise(tree):
    _DebugIf().visit(tree)
    _inline_require_helpers(tree)
    _inline_expr_helpers(tree)
    _attr_local_aliases(tree)
    _subst_consts(tree)
    for n in ast.walk(tree):
        if isinstance(n, (ast.FunctionDef, ast.AsyncFunctionDef)):
            _drop_param_aliases(n)
    for n in ast.walk(tree):
        if isinstance(n, (ast.FunctionDef, ast.AsyncFunctionDef)):
            _inline_projections(n)
    for n in ast.walk(tree):
        if isinstance(n, (ast.FunctionDef, ast.AsyncFunctionDef)):
            _propagate_temps(n)
    ast.fix_missing_locations(tree)
    return tree
