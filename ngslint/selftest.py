"""Self-validation of the checker (thorough tier).

Every variant is applied to a scratch copy of /repo's *current* src tree
(under one mkdtemp root outside /repo and /verif, removed afterwards), parsed
and analysed - never executed.  A breaking variant must make the named
property check report a NEW violation of the named rule; a benign twin must
leave every listed check silent.  A variant whose edit site no longer exists
in the current tree is skipped (reported), never guessed.

A failed self-validation means the checker is broken: ANALYSIS-ERROR, exit 2.
"""
import glob
import json
import os
import shutil
import subprocess
import tempfile
import time
from concurrent.futures import ProcessPoolExecutor

from .core import AnalysisError, Repo, repo_root
from .report import Collector, load_known, match_known, FAIL, VERIF


def _apply(variant, root):
    """Apply one variant to the copy at `root`; return None or a skip reason."""
    if "patch" in variant:
        p = subprocess.run(["patch", "-p1", "-s", "--no-backup-if-mismatch",
                            "-d", root] + (["-R"] if variant.get("reverse")
                                           else []),
                           input=open(variant["patch"], "rb").read(),
                           stdout=subprocess.PIPE, stderr=subprocess.STDOUT)
        if p.returncode != 0:
            return "patch does not apply to the current tree"
        return None
    for rel, old, new, count in variant["edits"]:
        path = os.path.join(root, "src", "neuroglancer_scripts", rel)
        if not os.path.exists(path):
            return "file %s missing" % rel
        s = open(path).read()
        if s.count(old) != count:
            return "edit site occurs %d times (expected %d) in %s" % (
                s.count(old), count, rel)
        open(path, "w").write(s.replace(old, new))
    return None


def _new_violations(prop, root):
    from . import props
    repo = Repo(root)
    col = Collector(prop)
    props.PROPS[prop].run(repo, col)
    floors = col.check_floors()
    if floors:
        raise AnalysisError("; ".join(floors))
    known = load_known()
    return [o for o in col.obs if o.status == FAIL
            and not match_known(prop, o, known)]


def _run_one(args):
    variant, scratch_root = args
    d = tempfile.mkdtemp(prefix="v.", dir=scratch_root)
    res = {"id": variant["id"], "kind": variant["kind"], "results": []}
    try:
        shutil.copytree(os.path.join(repo_root(), "src"),
                        os.path.join(d, "src"))
        skip = _apply(variant, d)
        if skip:
            res["skipped"] = skip
            return res
        try:
            import ast
            for path in glob.glob(os.path.join(d, "src", "**", "*.py"),
                                  recursive=True):
                ast.parse(open(path).read())
        except SyntaxError as exc:
            res["skipped"] = "variant does not parse: %s" % exc
            return res
        for prop, prefixes in variant["expect"].items():
            try:
                viol = _new_violations(prop, d)
                rules = sorted({o.rule for o in viol})
                if variant["kind"] == "break":
                    ok = any(r.startswith(p) for r in rules for p in prefixes)
                else:
                    ok = not viol
                res["results"].append({"prop": prop, "ok": ok, "rules": rules,
                                       "want": prefixes})
            except AnalysisError as exc:
                # a vanished anchor is an acceptable verdict for a breaking
                # variant only if the variant says so
                ok = variant["kind"] == "break" and "ANALYSIS-ERROR" in prefixes
                res["results"].append({"prop": prop, "ok": ok,
                                       "rules": ["ANALYSIS-ERROR: %s" % exc],
                                       "want": prefixes})
        return res
    finally:
        shutil.rmtree(d, ignore_errors=True)


def load_variants():
    from . import variants
    out = list(variants.VARIANTS)
    for meta in sorted(glob.glob(os.path.join(VERIF, "seeded", "*",
                                              "meta.json"))):
        m = json.load(open(meta))
        if m.get("kind") == "benign":
            out.append({"id": "seeded/" + os.path.basename(
                            os.path.dirname(meta)), "kind": "benign",
                        "patch": os.path.join(os.path.dirname(meta),
                                              "patch.diff"),
                        "expect": {p: [] for p in m.get("expected_silent", [])}})
            continue
        exp = m.get("expected_detection") or {}
        if not exp:
            continue
        out.append({"id": "seeded/" + os.path.basename(os.path.dirname(meta)),
                    "kind": "break",
                    "patch": os.path.join(os.path.dirname(meta), "patch.diff"),
                    "expect": exp})
    return out


def run(props=None, jobs=16, evidence=False):
    t0 = time.time()
    variants = load_variants()
    if props:
        sel = []
        for v in variants:
            exp = {p: r for p, r in v["expect"].items() if p in props}
            if exp:
                v = dict(v, expect=exp)
                sel.append(v)
        variants = sel
    scratch = tempfile.mkdtemp(prefix="ngs-selftest.")
    try:
        with ProcessPoolExecutor(max_workers=max(1, jobs)) as ex:
            results = list(ex.map(_run_one, [(v, scratch) for v in variants]))
    finally:
        shutil.rmtree(scratch, ignore_errors=True)
    bad, skipped, n_break, n_benign = [], [], 0, 0
    for r in results:
        if "skipped" in r:
            skipped.append(r)
            continue
        if r["kind"] == "break":
            n_break += 1
        else:
            n_benign += 1
        for x in r["results"]:
            if not x["ok"]:
                bad.append((r, x))
    print("self-validation: %d breaking variants, %d benign twins, %d skipped"
          ", %d failed, %.1fs" % (n_break, n_benign, len(skipped), len(bad),
                                  time.time() - t0))
    for r in skipped:
        print("  skipped %s: %s" % (r["id"], r["skipped"]))
    for r, x in bad:
        if r["kind"] == "break":
            print("ANALYSIS-ERROR self-validation: breaking variant %s not "
                  "reported by %s (wanted rule %s, got %s)"
                  % (r["id"], x["prop"], x["want"], x["rules"]))
        else:
            print("ANALYSIS-ERROR self-validation: benign twin %s raises an "
                  "alarm in %s: %s" % (r["id"], x["prop"], x["rules"]))
    if evidence and props:
        for p in props:
            path = os.path.join(VERIF, "evidence", "%s.json" % p)
            if os.path.exists(path) and not os.environ.get("NGS_NO_EVIDENCE"):
                ev = json.load(open(path))
                mine = [r for r in results if any(x["prop"] == p
                                                  for x in r.get("results", []))]
                ev["coverage"]["self_validation"] = {
                    "breaking_variants": sum(1 for r in mine
                                             if r["kind"] == "break"),
                    "benign_twins": sum(1 for r in mine
                                        if r["kind"] == "benign"),
                    "skipped": [r["id"] for r in skipped],
                    "failed": [r["id"] for r, x in bad if x["prop"] == p],
                    "samples": [{"variant": r["id"], "kind": r["kind"],
                                 "reported": [x["rules"] for x in r["results"]
                                              if x["prop"] == p][0]}
                                for r in mine[:12]],
                }
                ev["tier"] = "thorough"
                ev["wall_s"] = round(ev["wall_s"] + time.time() - t0, 3)
                json.dump(ev, open(path, "w"), indent=1)
    return 2 if bad else 0
