"""ngslint driver.

  python -m ngslint check Cxx [--tier quick|thorough]
  python -m ngslint explain <violations.json>
  python -m ngslint selftest [Cxx ...]
  python -m ngslint list

Exit: 0 property's decided clauses hold (KNOWN-FINDING lines allowed),
      1 VIOLATION, 2 ANALYSIS-ERROR (checker or anchors broken).
"""
import argparse
import json
import os
import sys
import time
import traceback

from .core import AnalysisError, Repo
from .report import Collector, finish


def run_check(prop, tier, repo_root=None, quiet=False):
    from . import props
    t0 = time.time()
    seed = int(os.environ.get("VERIF_SEED", "0") or 0)
    spec = props.PROPS.get(prop)
    if spec is None:
        print("ANALYSIS-ERROR property=%s has no check" % prop)
        return 2
    try:
        repo = Repo(repo_root)
        col = Collector(prop)
        spec.run(repo, col)
        col.notes.append("source digest of consulted modules: %s (%s)"
                         % (repo.digest(), ", ".join(sorted(
                             m.split(".", 1)[1] for m in repo.consulted
                             if "." in m))))
        extra = {"call_resolution": getattr(repo, "call_stats", None),
                 "source_digest": repo.digest(),
                 "repo_root": repo.root}
        rc = finish(col, tier, seed, t0, spec.level_text, spec.technique,
                    extra)
        if tier == "thorough" and rc == 0:
            from . import selftest
            jobs = int(os.environ.get("NGS_JOBS", "16"))
            st_rc = selftest.run([prop], jobs=jobs, evidence=True)
            if st_rc != 0:
                return st_rc
            # informational single-site mutation sweep (never changes the
            # verdict): how much of a generic mutant population the rules of
            # this property report
            from . import mutsweep
            from .report import VERIF
            sw = mutsweep.sweep(prop, jobs=jobs,
                                limit=int(os.environ.get("NGS_SWEEP", "300")),
                                seed=seed)
            print("mutation sweep: %d single-site mutants of %d modules, %d "
                  "reported, %d undecided/anchor, %d silent, %.1fs"
                  % (sw["mutants"], len(sw["modules"]), sw["reported"],
                     sw["undecided_or_anchor"], sw["silent"], sw["wall_s"]))
            # informational behaviour-preserving transformation sweep: how
            # many automatically refactored copies of the anchor files keep
            # this check silent (a non-silent one is a false alarm of the
            # checker; it is recorded, it never changes the verdict)
            from . import benignsweep
            bs = benignsweep.sweep(
                props=[prop], jobs=jobs, seed=seed,
                limit=int(os.environ.get("NGS_BENIGN", "96")),
                modules=mutsweep._consulted(prop))
            print("benign sweep: %d behaviour-preserving rewrites of the "
                  "anchor files, %d not silent, %.1fs"
                  % (bs["trees"], bs["alarming"], bs["wall_s"]))
            for r in bs["alarms"][:5]:
                print("  NOTE false alarm on %s %s %s: %s" % (
                    r["op"], r["file"], r["function"], r["alarms"][:2]))
            path = os.path.join(VERIF, "evidence", "%s.json" % prop)
            if os.path.exists(path) and not os.environ.get("NGS_NO_EVIDENCE"):
                ev = json.load(open(path))
                ev["coverage"]["mutation_sweep"] = sw
                ev["coverage"]["benign_sweep"] = bs
                ev["wall_s"] = round(ev["wall_s"] + sw["wall_s"]
                                     + bs["wall_s"], 3)
                json.dump(ev, open(path, "w"), indent=1)
        return rc
    except AnalysisError as exc:
        print("ANALYSIS-ERROR property=%s %s" % (prop, exc))
        return 2
    except Exception:
        print("ANALYSIS-ERROR property=%s checker raised:" % prop)
        traceback.print_exc(file=sys.stdout)
        return 2


def main(argv=None):
    ap = argparse.ArgumentParser(prog="ngslint")
    sub = ap.add_subparsers(dest="cmd", required=True)
    c = sub.add_parser("check")
    c.add_argument("prop")
    c.add_argument("--tier", default=os.environ.get("VERIF_TIER", "quick"),
                   choices=("quick", "thorough"))
    c.add_argument("--repo", default=None)
    e = sub.add_parser("explain")
    e.add_argument("path")
    s = sub.add_parser("selftest")
    s.add_argument("props", nargs="*")
    s.add_argument("--jobs", type=int, default=16)
    sub.add_parser("list")
    args = ap.parse_args(argv)
    if args.cmd == "check":
        return run_check(args.prop, args.tier, args.repo)
    if args.cmd == "explain":
        with open(args.path) as f:
            data = json.load(f)
        print("property %s: %d violation(s) recorded; re-deriving on the "
              "current tree" % (data["property"], len(data["violations"])))
        for v in data["violations"]:
            print(json.dumps(v, indent=1))
        return run_check(data["property"], "quick")
    if args.cmd == "selftest":
        from . import selftest
        return selftest.run(args.props or None, jobs=args.jobs)
    if args.cmd == "list":
        from . import props
        for k in sorted(props.PROPS):
            print(k, props.PROPS[k].title)
        return 0


if __name__ == "__main__":
    sys.exit(main())
