"""E-SIB (sibling agreement) and E-EXC scope B (accessor I/O error discipline).
"""
import ast
import re

from .core import PKG as PKG_

from .core import (ftext, cnorm, closure_text, AnalysisError, dotted, norm, walk_local, const_int,
                   stmts_of, calls_in, call_name, kwarg, enclosing_stmt_map,
                   block_always_raises, raised_names, PKG, canon_exc)
from .dataflow import (local_defs, names_in, closure_names, holds,
                       raise_guards)
from .rules_exc import Scope, facts

DAE = PKG + ".accessor.DataAccessError"
IO_OK = {DAE, "OSError", PKG + ".sharded_base.ShardedIOError",
         "NotImplementedError"}

FS_ATTR_CALLS = {"is_file", "exists", "open", "mkdir", "unlink", "write",
                 "read", "seek", "is_dir", "stat", "touch", "rename",
                 "replace"}
FS_FUNC_CALLS = {"open", "gzip.open", "os.makedirs", "os.remove", "os.unlink",
                 "os.rename", "os.replace", "shutil.rmtree"}
NET_ATTR_CALLS = {"get", "head", "raise_for_status"}


def _io_sites(fn, _depth=0):
    """[(call, effects, kind)] I/O-effect calls in a function.  A call of a
    module-level function of the package has the effects of the I/O calls in
    that function (followed two levels)."""
    from .rules_more4 import resolve_pkg_call
    defs = local_defs(fn.node)
    gz_names = set()
    for name, ds in defs.items():
        for d in ds:
            if d.value is not None and any(
                    (fn.module.resolve(call_name(c) or "") or "") == "gzip.open"
                    for c in walk_local(d.value) if isinstance(c, ast.Call)):
                gz_names.add(name)
    out = []
    for c in calls_in(fn.node):
        nm = fn.module.resolve(call_name(c) or "") or ""
        f = c.func
        if nm.startswith(PKG_ + "."):
            h = resolve_pkg_call(fn, c)
            if h is not None and h.cls is None and h.key != fn.key:
                if _depth < 2:
                    inner = _io_sites(h, _depth + 1)
                    effs, kinds = [], set()
                    for _, e_, k_ in inner:
                        for x_ in e_:
                            if x_ not in effs:
                                effs.append(x_)
                        kinds.add(k_)
                    if effs:
                        out.append((c, effs, "net" if kinds == {"net"}
                                    else "fs"))
                continue
        if nm in FS_FUNC_CALLS:
            out.append((c, ["OSError"], "fs"))
        elif isinstance(f, ast.Attribute) and f.attr in FS_ATTR_CALLS:
            recv = norm(f.value)
            if f.attr in ("get",):
                continue
            # receivers that are plainly not files / paths
            if f.attr in ("read", "write", "seek", "open", "exists") and \
                    isinstance(f.value, ast.Name) and \
                    f.value.id in ("self", "json", "struct"):
                continue
            if f.attr in ("read", "write") and recv in ("logger", "tqdm",
                                                        "sys.stdout"):
                continue
            eff = ["OSError"]
            if f.attr == "read" and isinstance(f.value, ast.Name) and \
                    f.value.id in gz_names:
                eff = ["OSError", "EOFError", "zlib.error"]
            out.append((c, eff, "fs"))
        elif isinstance(f, ast.Attribute) and f.attr in ("get", "head") and \
                "session" in norm(f.value).lower():
            out.append((c, ["requests.exceptions.RequestException"], "net"))
        elif isinstance(f, ast.Attribute) and f.attr == "raise_for_status":
            out.append((c, ["requests.exceptions.HTTPError"], "net"))
    # `with f:` closes f: the with statement itself is an I/O site
    return out


def accessor_io_errors(repo, col):
    """B1: every I/O call of the plain accessors is converted to
    DataAccessError; in the sharded accessors no handler swallows or
    re-labels an I/O error as an unrelated exception."""
    rule = "E-EXC.B"
    strict = [("file_accessor", "FileAccessor", ["file_exists", "fetch_file",
                                                 "store_file", "fetch_chunk",
                                                 "store_chunk"]),
              ("http_accessor", "HttpAccessor", ["file_exists", "fetch_file"])]
    n = 0
    for ms, cls, meths in strict:
        ci = repo.cls(ms, cls)
        todo = [repo.func(ms, "%s.%s" % (cls, mn)) for mn in meths]
        # private helpers of the class that the API methods call
        seen = {f.key for f in todo}
        i = 0
        helper_callsites = {}
        while i < len(todo):
            fn = todo[i]
            i += 1
            for c in calls_in(fn.node):
                f = c.func
                if isinstance(f, ast.Attribute) and isinstance(f.value, ast.Name) \
                        and f.value.id == "self" and f.attr in ci.methods:
                    h = ci.methods[f.attr]
                    helper_callsites.setdefault(h.key, []).append((fn, c))
                    if h.key not in seen:
                        seen.add(h.key)
                        todo.append(h)
        scope = Scope(repo, [], {})
        for fn in todo:
            scope.funcs[fn.key] = fn
            scope.taint[fn.key] = set()
        for fn in todo:
            ff = facts(scope, fn)
            for call, effects, kind in _io_sites(fn):
                n += 1
                ok, how = ff.try_discharge(call, effects, {DAE})
                if ok is None:
                    col.add(rule + ".convert", fn, norm(call)[:70], True, how,
                            node=call, undecided=True)
                    continue
                if not ok and fn.key in helper_callsites:
                    # helper: every call site must be inside a converting try
                    oks = []
                    for cfn, cc in helper_callsites[fn.key]:
                        oks.append(facts(scope, cfn).try_discharge(
                            cc, effects, {DAE}))
                    if oks and all(o for o, _ in oks):
                        ok, how = True, "converted at the call sites: " + \
                            oks[0][1]
                col.add(rule + ".convert", fn, norm(call)[:70], ok,
                        how if ok else "%s can raise %s which reaches the "
                        "caller of %s.%s unconverted (%s); the accessor "
                        "contract is DataAccessError"
                        % (norm(call)[:50], "/".join(e.rsplit(".", 1)[-1]
                                                     for e in effects),
                           cls, fn.qualname.split(".")[-1], how), node=call)
    # sharded accessors and shards: not swallowed, not re-labelled
    loose = [("sharded_file_accessor", ["Shard", "ShardedScale",
                                        "ShardedFileAccessor", "MiniShard",
                                        "OnDiskBytesDict", "OnDiskByteArray"]),
             ("sharded_http_accessor", ["HttpShard", "HttpShardedScale",
                                        "ShardedHttpAccessor"]),
             ("sharded_base", ["ShardCMC", "ReadableMiniShardCMC",
                               "ShardedScaleBase"])]
    for ms, classes in loose:
        m = repo.module(ms)
        for cn in classes:
            ci = repo.cls(ms, cn)
            for mname, fn in sorted(ci.methods.items()):
                owner = enclosing_stmt_map(fn.node)
                for st in stmts_of(fn.node):
                    if not isinstance(st, ast.Try):
                        continue
                    body_sites = [s for s in _io_sites(fn)
                                  if any(x is s[0] for b in st.body
                                         for x in walk_local(b))]
                    for h in st.handlers:
                        names = raised_names(h.body)
                        reraise = block_always_raises(h.body)
                        ok = reraise and all(
                            rn == "<reraise>" or repo.exc_fullname(m, rn) in IO_OK
                            or any(canon_exc(a) == "OSError" for a in
                                   repo.exc_ancestors(repo.exc_fullname(m, rn)))
                            for rn in names)
                        if not body_sites:
                            continue
                        # best-effort removal of a scratch file: nothing a
                        # reader relies on is lost when it was already gone
                        if all(isinstance(s_[0].func, ast.Attribute) and
                               s_[0].func.attr in ("unlink", "rmdir") or
                               (call_name(s_[0]) or "") in (
                                   "os.remove", "os.unlink", "os.rmdir",
                                   "shutil.rmtree")
                               for s_ in body_sites) and h.type is not None \
                                and "FileNotFoundError" in norm(h.type):
                            continue
                        n += 1
                        col.add(rule + ".no-swallow", fn,
                                "except %s" % norm(h.type), ok,
                                "" if ok else "handler around I/O %s: a failed "
                                "operation returns normally or surfaces as an "
                                "unrelated exception"
                                % ("does not re-raise" if not reraise else
                                   "raises %s" % names), node=h)
    # store paths of every accessor: no handler without raise
    for ms, cls in (("file_accessor", "FileAccessor"),
                    ("sharded_file_accessor", "ShardedFileAccessor"),
                    ("sharded_file_accessor", "Shard")):
        ci = repo.cls(ms, cls)
        for mname in ("store_file", "store_chunk", "close", "store_cmc_chunk"):
            fn = ci.methods.get(mname)
            if fn is None:
                continue
            for st in stmts_of(fn.node):
                if isinstance(st, ast.Try):
                    for h in st.handlers:
                        n += 1
                        ok = block_always_raises(h.body)
                        col.add(rule + ".store-raises", fn,
                                "except %s" % norm(h.type), ok, "" if ok else
                                "a failed store returns normally", node=h)
                        # no deletion of the target in an error handler
                        dels = [c for s in h.body for c in calls_in(s)
                                if (isinstance(c.func, ast.Attribute) and
                                    c.func.attr in ("unlink",)) or
                                (call_name(c) or "") in ("os.remove",
                                                         "os.unlink")]
                        col.add(rule + ".no-delete-on-error", fn,
                                "except %s" % norm(h.type), not dels,
                                "" if not dels else "the error handler deletes "
                                "the target: when the failure is the refusal "
                                "to overwrite (exclusive create), the "
                                "previously stored file is destroyed",
                                node=h, nontrivial=False)
    # helpers of FileAccessor that delete in handlers (refactored store path)
    ci = repo.cls("file_accessor", "FileAccessor")
    for mname, fn in ci.methods.items():
        for st in stmts_of(fn.node):
            if isinstance(st, ast.Try):
                for h in st.handlers:
                    dels = [c for s in h.body for c in calls_in(s)
                            if (isinstance(c.func, ast.Attribute) and
                                c.func.attr == "unlink") or
                            (call_name(c) or "") in ("os.remove", "os.unlink")]
                    # deleting what a failed write left behind is fine when
                    # the open itself happened before the try: the only files
                    # the handler can meet are files this call created
                    def _is_open(c_):
                        nm_ = call_name(c_) or ""
                        return nm_ in ("open", "gzip.open", "io.open",
                                       "os.open") or (
                            isinstance(c_.func, ast.Attribute)
                            and c_.func.attr == "open")
                    opens_inside = any(
                        isinstance(c_, ast.Call) and _is_open(c_)
                        for b_ in st.body for c_ in ast.walk(b_))
                    if dels and not opens_inside and \
                            mname not in ("store_file", "store_chunk"):
                        n += 1
                        col.add(rule + ".no-delete-on-error", fn,
                                "except %s" % norm(h.type), True,
                                "clean-up of a file opened before the try",
                                node=h)
                        continue
                    if dels and mname not in ("store_file", "store_chunk"):
                        n += 1
                        col.add(rule + ".no-delete-on-error", fn,
                                "except %s" % norm(h.type), False,
                                "the error handler deletes the target: when "
                                "the failure is the refusal to overwrite "
                                "(exclusive create), the previously stored "
                                "file is destroyed", node=h)
    return n


def http_content_after_status(repo, col):
    """B2/B3: response content is returned only after raise_for_status, and
    Range replies are length-checked."""
    rule = "E-EXC.B.http"
    sites = [("http_accessor", "HttpAccessor.fetch_file", False),
             ("sharded_http_accessor", "HttpShard.read_bytes", True)]
    for ms, qn, ranged in sites:
        fn = repo.func(ms, qn, inline=True)
        cfg = fn.cfg()
        owner = enclosing_stmt_map(fn.node)
        defs = local_defs(fn.node)
        rfs_nodes = []
        for c in calls_in(fn.node):
            if isinstance(c.func, ast.Attribute) and \
                    c.func.attr == "raise_for_status":
                st = owner.get(id(c))
                if st is not None and cfg.node_of(st) is not None:
                    rfs_nodes.append(cfg.node_of(st))
        rets = [s for s in stmts_of(fn.node) if isinstance(s, ast.Return)
                and s.value is not None]
        content_rets = []
        for r in rets:
            clos = closure_names(fn.node, names_in(r.value), defs)
            is_content = ".content" in norm(r.value) or any(
                ".content" in norm(d.value) for nm in clos
                for d in defs.get(nm, []) if d.value is not None)
            if is_content:
                content_rets.append(r)
        if not content_rets:
            col.add(rule + ".status", fn, "return of the response content",
                    True, "no return of `.content` recognised in %s (built in "
                    "a helper that cannot be inlined)" % fn.key,
                    undecided=True)
            continue
        for r in content_rets:
            rn = cfg.node_of(r)
            ok = bool(rfs_nodes) and cfg.every_path_passes(cfg.entry, rn,
                                                           rfs_nodes)
            path = None
            if not ok:
                p = cfg.path(cfg.entry, rn, avoiding=rfs_nodes)
                path = [norm(x.ast)[:50] if x.ast is not None else x.label
                        for x in (p or [])]
            # the status check may sit in a local helper that hands out the
            # response: not provable here, but not evidence of a defect
            und_s = False
            if not ok:
                from .core import helper_closure, resolve_local_call
                base_fn = getattr(fn, "inlined_from", fn)
                # the response comes from a local helper: every path of the
                # helper that returns a response object (not a constant
                # sentinel) must pass raise_for_status
                verdicts = []
                for h_ in helper_closure(base_fn):
                    if h_ is base_fn:
                        continue
                    hrfs = []
                    hcfg = h_.cfg()
                    hown = enclosing_stmt_map(h_.node)
                    for c_ in calls_in(h_.node):
                        if isinstance(c_.func, ast.Attribute) and \
                                c_.func.attr == "raise_for_status":
                            n_ = hcfg.node_of(hown.get(id(c_)))
                            if n_ is not None:
                                hrfs.append(n_)
                    if not hrfs:
                        continue
                    for r_ in stmts_of(h_.node):
                        if isinstance(r_, ast.Return) and r_.value is not None \
                                and not isinstance(r_.value, ast.Constant):
                            rn_ = hcfg.node_of(r_)
                            verdicts.append(hcfg.every_path_passes(
                                hcfg.entry, rn_, hrfs))
                if verdicts and all(verdicts):
                    ok = True
                    path = None
                elif verdicts and not all(verdicts):
                    und_s = False      # a response escapes unchecked: FAIL
                else:
                    und_s = any(
                        isinstance(c_.func, ast.Attribute) and
                        c_.func.attr == "raise_for_status"
                        for h_ in helper_closure(base_fn) if h_ is not base_fn
                        for c_ in calls_in(h_.node))
            col.add(rule + ".status", fn, "return %s" % norm(r.value)[:50],
                    ok or und_s,
                    "every path to the return checks the HTTP status" if ok
                    else "a path returns the response body without "
                    "raise_for_status(): an error page is handed out as data",
                    node=r, path=path, undecided=und_s and not ok)
            if ranged:
                params = fn.params
                length = "length" if "length" in params else params[-1]
                okl = False
                from .dataflow import single_defs, expand
                sd = single_defs(fn.node)
                for g, atoms in raise_guards(fn.node):
                    gn = cfg.node_of(g)
                    if gn is None or isinstance(g, ast.Assert):
                        continue
                    for a in atoms:
                        if a.op == "==" and {norm(a.left), norm(a.right)} >= \
                                {length} and any("len(" in norm(expand(x, sd))
                                                 for x in (a.left, a.right)):
                            if cfg.every_path_passes(cfg.entry, rn, [gn]):
                                okl = True
                if not okl:
                    # positive form: `if len(content) == length: return ...`
                    from .rules_more3 import _tests_enclosing
                    ctx = _tests_enclosing(fn.node, r) or []
                    for t_, tr_ in ctx:
                        for a in holds(t_, tr_):
                            if a.op == "==" and {norm(a.left),
                                                 norm(a.right)} >= {length} \
                                    and any("len(" in norm(expand(x, sd))
                                            for x in (a.left, a.right)):
                                okl = True
                col.add(rule + ".range-length", fn,
                        "return %s" % norm(r.value)[:50], okl,
                        "reply length equals the requested length on every "
                        "path to the return" if okl else
                        "content is returned on a path where its length was "
                        "not required to equal the requested range length: "
                        "short or over-long replies yield partial / wrong "
                        "data", node=r)
        if ranged:
            # the Range header covers [offset, offset + length - 1]
            txt = ftext(fn)
            rp = [p_ for p_ in fn.params if p_ != "self"]
            o_, l_ = (rp + ["offset", "length"])[:2]
            okr = ("f'bytes={%s}-{%s + %s - 1}'" % (o_, o_, l_)) in txt or \
                ("'bytes={}-{}'.format(%s, %s + %s - 1)" % (o_, o_, l_)) in txt
            col.add(rule + ".range-header", fn, "bytes={offset}-{offset+length-1}",
                    okr, "" if okr else "Range header is not the inclusive "
                    "byte range of the request", undecided=not okr)
            # legacy layout: offsets into .data are rebased exactly once
            reb = [n for n in walk_local(fn.node) if isinstance(n, ast.Assign)
                   and norm(n.targets[0]) == o_]
            okb = len(reb) == 1 and norm(reb[0].value) == \
                "%s - self.header_byte_length" % o_
            col.add(rule + ".legacy-rebase", fn, "offset rebased once", okb,
                    "" if okb else "legacy .data offset is not rebased "
                    "exactly once by the index length", undecided=len(reb) != 1)
            rec = [c for c in calls_in(fn.node)
                   if (call_name(c) or "").endswith("self.read_bytes")]
            col.add(rule + ".legacy-rebase", fn, "no recursive re-entry",
                    not rec, "" if not rec else "read_bytes re-enters itself "
                    "with an already rebased offset: for legacy shards the "
                    "index length is subtracted twice", nontrivial=False)
    # file_exists probes
    from .rules_more4 import probe_raises_for_failures
    probe_raises_for_failures(repo, col, "sharded_http_accessor",
                              "HttpShard.file_exists", rule=rule + ".probe")


# ---------------------------------------------------------------------
# E-SIB: local accessors (C12)
# ---------------------------------------------------------------------
def _confinement_guard_kind(test):
    """'joined' if the test establishes confinement on the joined path,
    'dotdot+abs', 'dotdot-only' or None."""
    t = norm(test)
    has_dd = "'..'" in t or '".."' in t
    if ".relative_to(" in t or "is_relative_to(" in t or "commonpath(" in t:
        return "joined"
    if has_dd and ("is_absolute" in t or "isabs" in t or "startswith('/')" in t
                   or ".anchor" in t or ".root" in t):
        return "dotdot+abs"
    if has_dd:
        return "dotdot-only"
    return None


def confinement(repo, col):
    rule = "E-SIB.confinement"
    for ms, cls in (("file_accessor", "FileAccessor"),
                    ("sharded_file_accessor", "ShardedFileAccessor")):
        ci = repo.cls(ms, cls)
        # helpers that establish confinement: top-level raise-guard
        helper_kind = {}
        inherited = {}
        for cc in reversed(repo.mro(ci)):
            inherited.update(cc.methods)
        for mname, f in inherited.items():
            for g, atoms in raise_guards(f.node):
                if isinstance(g, ast.If) and g in f.node.body:
                    k = _confinement_guard_kind(g.test)
                    if k:
                        helper_kind[mname] = k
        for mname in ("file_exists", "fetch_file", "store_file"):
            fn = repo.func(ms, "%s.%s" % (cls, mname))
            cfg = fn.cfg()
            owner = enclosing_stmt_map(fn.node)
            guards = []
            kinds = set()
            for g, atoms in raise_guards(fn.node):
                if isinstance(g, ast.If):
                    k = _confinement_guard_kind(g.test)
                    if k:
                        guards.append(cfg.node_of(g))
                        kinds.add(k)
            for c in calls_in(fn.node):
                f = c.func
                if isinstance(f, ast.Attribute) and isinstance(f.value, ast.Name) \
                        and f.value.id == "self" and f.attr in helper_kind \
                        and f.attr != mname:
                    st = owner.get(id(c))
                    # the call must be evaluated whenever the statement is:
                    # not a later operand of and/or, not an arm of a
                    # conditional expression
                    conditional = False
                    if st is not None:
                        for x in walk_local(st):
                            if isinstance(x, ast.BoolOp):
                                for later in x.values[1:]:
                                    if any(y is c for y in walk_local(later)):
                                        conditional = True
                            if isinstance(x, ast.IfExp):
                                for arm in (x.body, x.orelse):
                                    if any(y is c for y in walk_local(arm)):
                                        conditional = True
                    if conditional:
                        continue
                    if st is not None and cfg.node_of(st) is not None:
                        guards.append(cfg.node_of(st))
                        kinds.add(helper_kind[f.attr])
            touches = [c for c, eff, kind in _io_sites(fn) if kind == "fs"]
            if not touches and not guards:
                col.add(rule, fn, "guard before file-system access", False,
                        "no confinement guard and no recognisable file-system "
                        "access", undecided=True)
                continue
            okall = bool(guards)
            for c in touches:
                st = owner.get(id(c))
                tn = cfg.node_of(st) if st is not None else None
                # a touch inside the guarding statement itself (helper call as
                # argument) is guarded by construction
                if tn is not None and tn in guards:
                    continue
                if tn is None or not guards or \
                        not cfg.every_path_passes(cfg.entry, tn, guards):
                    okall = False
            col.add(rule, fn, "guard dominates every file-system access", okall,
                    "relative paths are checked before the file system is "
                    "touched" if okall else "a file-system access is reachable "
                    "without passing the relative-path confinement check: "
                    "names such as '../x' are read / written outside the "
                    "dataset directory")
            if guards:
                okk = bool(kinds & {"joined", "dotdot+abs"})
                col.add(rule + ".absolute", fn, "guard kind %s" % sorted(kinds),
                        okk, "" if okk else "the check only looks for '..' in "
                        "the given name: an absolute name replaces the base "
                        "directory when joined and escapes the dataset")


def overwrite_and_gzip(repo, col):
    rule = "E-SIB.store"
    fa = repo.cls("file_accessor", "FileAccessor")
    for mname in ("store_file", "store_chunk"):
        fn = repo.func("file_accessor", "FileAccessor." + mname, inline=True)
        defs = local_defs(fn.node)
        opens = []
        via_helper = {}
        for c in calls_in(fn.node):
            nm = fn.module.resolve(call_name(c) or "") or ""
            if nm in ("gzip.open", "gzip.GzipFile", "os.open", "open") or (
                    isinstance(c.func, ast.Attribute)
                    and c.func.attr == "open" and nm != "os.open"):
                opens.append(c)
        if not opens:
            # refactored into a helper: look one level down
            for c in calls_in(fn.node):
                f = c.func
                if isinstance(f, ast.Attribute) and isinstance(f.value, ast.Name) \
                        and f.value.id == "self" and f.attr in fa.methods:
                    h = fa.methods[f.attr]
                    for c2 in calls_in(h.node):
                        nm = h.module.resolve(call_name(c2) or "") or ""
                        if nm in ("gzip.open", "open") or (
                                isinstance(c2.func, ast.Attribute) and
                                c2.func.attr == "open"):
                            opens.append(c2)
                            via_helper[id(c2)] = (h, c)
        if not opens:
            col.add(rule + ".overwrite", fn, "write-open", True,
                    "no write-open found", undecided=True)
            continue
        from .dataflow import control_names
        # file objects opened to be wrapped: GzipFile(fileobj=<open call>)
        wrapped = set()
        scopes = [fn.node] + [h_.node for h_, _ in via_helper.values()]
        for sc_ in scopes:
            sdefs = local_defs(sc_)
            for g_ in calls_in(sc_):
                if (call_name(g_) or "").split(".")[-1] != "GzipFile":
                    continue
                fo = kwarg(g_, "fileobj")
                if isinstance(fo, ast.Call):
                    wrapped.add(id(fo))
                elif isinstance(fo, ast.Name):
                    for d in sdefs.get(fo.id, []):
                        if isinstance(d.value, ast.Call):
                            wrapped.add(id(d.value))

        def depends_on_overwrite(expr, stmt_defs=None):
            """Data dependence of expr on `overwrite`, or control dependence
            of the statements that define the names it uses."""
            names = names_in(expr)
            clos = closure_names(fn.node, names, defs)
            if "overwrite" in clos:
                return True
            for nm_ in clos:
                for d in defs.get(nm_, []):
                    if d.stmt is not None and "overwrite" in closure_names(
                            fn.node, control_names(fn.node, d.stmt), defs):
                        return True
            return False

        def exclusive_somewhere(expr):
            t_ = cnorm(fn.module, expr)
            if "'x" in t_ or "O_EXCL" in t_:
                return True
            for nm_ in closure_names(fn.node, names_in(expr), defs):
                for d in defs.get(nm_, []):
                    if d.value is not None:
                        tv = cnorm(fn.module, d.value)
                        if "'x" in tv or "O_EXCL" in tv:
                            return True
            return False
        for c in opens:
            nm = fn.module.resolve(call_name(c) or "") or ""
            # open(<file descriptor>, mode): the descriptor was opened
            # elsewhere (os.open), the mode string decides nothing
            if nm in ("open", "io.open", "os.fdopen") and c.args and (
                    (isinstance(c.args[0], ast.Call) and (fn.module.resolve(
                        call_name(c.args[0]) or "") or "") == "os.open") or
                    (isinstance(c.args[0], ast.Name) and any(
                        isinstance(d.value, ast.Call) and (fn.module.resolve(
                            call_name(d.value) or "") or "") == "os.open"
                        for d in defs.get(c.args[0].id, [])))):
                continue
            # GzipFile(fileobj=f): wraps a file that was opened elsewhere,
            # its own mode string creates / truncates nothing
            if nm == "gzip.GzipFile" and kwarg(c, "fileobj") is not None:
                continue
            mode = None
            if nm in ("gzip.open", "open", "io.open", "gzip.GzipFile"):
                mode = c.args[1] if len(c.args) > 1 else kwarg(c, "mode")
            elif nm == "os.open":
                mode = c.args[1] if len(c.args) > 1 else kwarg(c, "flags")
            else:
                mode = c.args[0] if c.args else kwarg(c, "mode")
            if mode is None:
                col.add(rule + ".overwrite", fn, norm(c)[:60], True,
                        "open mode not given explicitly", node=c,
                        undecided=True)
                continue
            if id(c) in via_helper:
                # the open sits in a helper: its mode depends on `overwrite`
                # when it derives from a helper parameter that receives a
                # value depending on `overwrite` at the call
                h, hc = via_helper[id(c)]
                hdefs = local_defs(h.node)
                hp = [p_ for p_ in h.params if p_ not in ("self", "cls")]
                carrying = set()
                for p_, a_ in zip(hp, hc.args):
                    if depends_on_overwrite(a_):
                        carrying.add(p_)
                for k_ in hc.keywords:
                    if k_.arg and depends_on_overwrite(k_.value):
                        carrying.add(k_.arg)
                hclos = closure_names(h.node, names_in(mode), hdefs)
                for nm_ in list(hclos):
                    for d in hdefs.get(nm_, []):
                        if d.stmt is not None:
                            hclos |= closure_names(
                                h.node, control_names(h.node, d.stmt), hdefs)
                dep = bool(hclos & carrying)
                t_ = " ".join(cnorm(h.module, d.value)
                              for nm_ in hclos for d in hdefs.get(nm_, [])
                              if d.value is not None) + cnorm(h.module, mode)
                excl = "'x" in t_ or "O_EXCL" in t_
            else:
                dep = depends_on_overwrite(mode)
                excl = exclusive_somewhere(mode)
            okm = dep and excl
            und = not okm and (dep or excl)
            col.add(rule + ".overwrite", fn, norm(c)[:60], okm or und,
                    "open mode derives from `overwrite` (exclusive creation "
                    "when false)" if okm else "this write-open does not "
                    "depend on `overwrite`: an existing file is replaced "
                    "although overwriting was not permitted", node=c,
                    undecided=und)
            # gz pairing
            if nm == "gzip.GzipFile":
                nm = "gzip.open"
                if kwarg(c, "fileobj") is not None and not (
                        c.args and not (isinstance(c.args[0], ast.Constant)
                                        and c.args[0].value is None)):
                    continue    # the name is that of the wrapped file object
            if id(c) in wrapped:
                nm = "gzip.open"   # bytes pass through a GzipFile wrapper
            path_arg = c.args[0] if nm in ("gzip.open", "open", "os.open") \
                and c.args \
                else (c.func.value if isinstance(c.func, ast.Attribute) else None)
            ptxt = cnorm(fn.module, path_arg) if path_arg is not None else ""
            appended = ".name + '.gz'" in ptxt or "+ '.gz'" in ptxt
            replaced = "with_suffix('.gz')" in ptxt
            # helper function building the gz name
            for cc in walk_local(path_arg) if path_arg is not None else []:
                if isinstance(cc, ast.Call):
                    h = fn.module.functions.get(call_name(cc) or "")
                    if h is not None:
                        ht = ftext(h)
                        appended = appended or "+ '.gz'" in ht
                        replaced = replaced or "with_suffix('.gz')" in ht
            opaque = False
            for cc in walk_local(path_arg) if path_arg is not None else []:
                if isinstance(cc, ast.Name) and not appended and not replaced \
                        and cc.id not in defs and cc.id != "self":
                    opaque = True      # a helper's parameter: built elsewhere
            if opaque:
                col.add(rule + ".gz-name", fn, ptxt[:60], True,
                        "path is a helper parameter built by the caller",
                        node=c, undecided=True)
            elif nm == "gzip.open":
                ok = appended and not replaced
                col.add(rule + ".gz-name", fn, ptxt[:60], ok,
                        "gzip stream goes to <name>.gz" if ok else
                        "gzip output name is not <name> + '.gz' (%s): names "
                        "that already contain a dot collide or are not found "
                        "again" % ("suffix is replaced" if replaced else
                                   "suffix not appended"), node=c)
            else:
                ok = not appended and not replaced
                col.add(rule + ".gz-name", fn, ptxt[:60], ok,
                        "plain bytes go to <name>" if ok else
                        "uncompressed bytes are written to a .gz name", node=c)
        txt = ftext(fn)
        okn = "self.gzip and mime_type not in NO_COMPRESS_MIME_TYPES" in txt
        col.add(rule + ".mime", fn, "gzip unless MIME type is exempt", okn,
                "" if okn else "store method does not consult "
                "NO_COMPRESS_MIME_TYPES like its sibling", undecided=not okn
                and "NO_COMPRESS_MIME_TYPES" not in txt)
    # read side: .gz names opened with gzip.open, plain names with open
    for mname in ("fetch_file", "fetch_chunk"):
        fn = repo.func("file_accessor", "FileAccessor." + mname)
        for c in calls_in(fn.node):
            nm = fn.module.resolve(call_name(c) or "") or ""
            if nm == "gzip.open" and c.args:
                kind = _gz_name_kind(fn, c.args[0])
                ptxt = norm(c.args[0])
                col.add(rule + ".gz-name", fn, ptxt[:60], kind != "replaced"
                        and kind != "plain",
                        "" if kind == "appended" else
                        ("gzip reader does not open <name>.gz (%s)" % (
                            "the suffix is replaced" if kind == "replaced"
                            else "the name it opens has no .gz part")
                         if kind in ("replaced", "plain") else
                         "name of the gzip file is built where this rule "
                         "does not follow it"),
                        node=c, undecided=kind == "opaque")
            elif isinstance(c.func, ast.Attribute) and c.func.attr == "open":
                kind = _gz_name_kind(fn, c.func.value)
                ptxt = norm(c.func.value)
                ok = kind not in ("appended", "replaced")
                # the receiver has to be the path itself: a record or a list
                # element whose `open` member is something else is not decided
                from .dataflow import single_defs as _sd, expand as _ex
                rtxt = norm(_ex(c.func.value, _sd(fn.node)))
                direct = ".with_name(" in rtxt or ".with_suffix(" in rtxt \
                    or "'.gz'" in rtxt
                col.add(rule + ".gz-name", fn, ptxt[:60], ok or not direct,
                        "" if ok else
                        "a .gz name is read without decompression", node=c,
                        undecided=not ok and not direct)
    # defaults: chunks overwrite, files refuse
    sc = repo.func("file_accessor", "FileAccessor.store_chunk")
    sf = repo.func("file_accessor", "FileAccessor.store_file")

    def default_of(fn, p):
        a = fn.node.args
        ps = a.posonlyargs + a.args
        ds = [None] * (len(ps) - len(a.defaults)) + list(a.defaults)
        for x, d in zip(ps, ds):
            if x.arg == p:
                return d.value if isinstance(d, ast.Constant) else None
        return None
    col.add(rule + ".defaults", sc, "store_chunk(overwrite=True)",
            default_of(sc, "overwrite") is True, "" if default_of(
                sc, "overwrite") is True else "chunk writes no longer "
            "overwrite by default: re-running a conversion step fails or "
            "keeps stale chunks")
    col.add(rule + ".defaults", sf, "store_file(overwrite=False)",
            default_of(sf, "overwrite") is False, "" if default_of(
                sf, "overwrite") is False else "file writes overwrite by "
            "default")
    # K4: exclusive create protects only the name that is opened, while
    # fetch_file treats <name> and <name>.gz as the same file
    txt = ftext(sf)
    both = False
    sfi = repo.func("file_accessor", "FileAccessor.store_file", inline=True)
    for g, atoms in raise_guards(sfi.node):
        t_ = norm(g.test) if isinstance(g, ast.If) else ""
        if ("file_exists(" in t_ or ".is_file()" in t_) and \
                "overwrite" in t_:
            both = True
    und_both = not both and "file_exists(" not in txt and \
        ".is_file()" not in txt and ("os.link(" in txt or "O_EXCL" in txt)
    col.add(rule + ".exclusive-both-names", sf,
            "refusal covers <name> and <name>.gz", both or und_both,
            "" if both else "without permission to overwrite, store_file only "
            "refuses when the very name it opens exists; the other spelling "
            "(<name> vs <name>.gz, chosen by MIME type) is silently shadowed "
            "and fetch_file keeps returning the stale plain file",
            undecided=und_both and not both)
    # sharded accessor: existence check dominates the write-open
    ss = repo.func("sharded_file_accessor", "ShardedFileAccessor.store_file")
    okc = False
    for g, atoms in raise_guards(ss.node):
        if isinstance(g, ast.If) and "overwrite" in norm(g.test) and \
                "exists" in norm(g.test):
            okc = True
    col.add(rule + ".overwrite", ss, "existence check unless overwrite", okc,
            "" if okc else "ShardedFileAccessor.store_file replaces existing "
            "files without permission")


# ---------------------------------------------------------------------
# E-SIB: tables, encoder switch, dispatch (C03, C14)
# ---------------------------------------------------------------------
def _const_tuple(module, node, depth=0):
    if isinstance(node, (ast.Tuple, ast.List, ast.Set)):
        out = []
        for e in node.elts:
            if isinstance(e, ast.Constant):
                out.append(e.value)
            else:
                return None
        return tuple(out)
    if isinstance(node, ast.BinOp) and isinstance(node.op, ast.Add):
        a = _const_tuple(module, node.left, depth)
        b = _const_tuple(module, node.right, depth)
        return a + b if a is not None and b is not None else None
    if isinstance(node, ast.Name) and node.id in module.constants and depth < 3:
        return _const_tuple(module, module.constants[node.id], depth + 1)
    # a table defined in another module of the package (alias / import)
    if isinstance(node, (ast.Name, ast.Attribute)) and depth < 3:
        tgt = module.resolve(dotted(node) or "") or ""
        if tgt.startswith(PKG + ".") and "." in tgt:
            modname, cname = tgt.rsplit(".", 1)
            om = module.repo.modules.get(modname)
            if om is not None and cname in om.constants:
                module.repo.consulted.add(modname)
                return _const_tuple(om, om.constants[cname], depth + 1)
    return None


def data_type_tables(repo, col):
    rule = "E-SIB.tables"
    ce = repo.module("chunk_encoding")
    dt = repo.module("data_types")
    a = _const_tuple(ce, ce.const("NEUROGLANCER_DATA_TYPES"))
    b = _const_tuple(dt, dt.const("NG_DATA_TYPES"))
    if a is None or b is None:
        col.add(rule, "chunk_encoding:NEUROGLANCER_DATA_TYPES",
                "data type tables", True, "a data type table is not a literal "
                "tuple (or an alias of one)", undecided=True)
        return
    col.add(rule, "chunk_encoding:NEUROGLANCER_DATA_TYPES",
            "== data_types.NG_DATA_TYPES", set(a) == set(b),
            "" if set(a) == set(b) else "the two lists of Neuroglancer data "
            "types differ: %s vs %s" % (a, b))
    want = ("uint8", "uint16", "uint32", "uint64", "float32")
    col.add(rule, "chunk_encoding:NEUROGLANCER_DATA_TYPES", "the five "
            "Neuroglancer types", set(a) == set(want), "" if set(a) ==
            set(want) else "data types %s differ from the format's %s"
            % (a, want))
    # compressed_segmentation type set, three spellings
    cs = repo.func("chunk_encoding", "CompressedSegmentationEncoder.__init__")
    sets = []
    for fn in (cs, repo.func("scripts.generate_scales_info", "set_info_params")):
        for n in walk_local(fn.node):
            if isinstance(n, ast.Compare) and isinstance(n.ops[0], ast.NotIn) \
                    and "data_type" in norm(n.left):
                cmp_ = n.comparators[0]
                if not isinstance(cmp_, (ast.Tuple, ast.List, ast.Set)) and \
                        "SEGMENTATION" not in (dotted(cmp_) or "").upper():
                    continue      # some other table (all integer types, ...)
                t = _const_tuple(fn.module, cmp_)
                if t and all(isinstance(x, str) for x in t):
                    sets.append((fn, set(t)))
    okc = len(sets) >= 1 and all(s == {"uint32", "uint64"} for _, s in sets)
    col.add(rule, cs, "compressed_segmentation types {uint32, uint64}", okc,
            "" if okc else "compressed_segmentation type sets disagree: %s"
            % [sorted(s) for _, s in sets], undecided=not sets)
    m = repo.module("_compressed_segmentation")
    t = norm(m.const("COMPRESSED_SEGMENTATION_DATA_TYPES"))
    okd = "np.uint32" in t and "np.uint64" in t and t.count("newbyteorder('<')") == 2
    col.add(rule, "_compressed_segmentation:COMPRESSED_SEGMENTATION_DATA_TYPES",
            "little-endian uint32 / uint64", okd, "" if okd else
            "codec dtype table is not (<u4, <u8)")
    # encoder switch vs CLI choices
    from .core import helper_closure
    ge = repo.func("chunk_encoding", "get_encoder")
    branches = set()
    # the switch may live in a parameter object's method
    # (EncoderParams.create_encoder): follow calls on local objects too
    from .scope import reach
    closure = [h for h in reach(repo, ge, 3)
               if h.module.short == "chunk_encoding"]
    for h in closure:
        for n in walk_local(h.node):
            if isinstance(n, ast.Compare) and "encoding" in norm(n.left) and \
                    isinstance(n.ops[0], ast.Eq) and \
                    isinstance(n.comparators[0], ast.Constant) and \
                    isinstance(n.comparators[0].value, str):
                branches.add(n.comparators[0].value)
    # table-driven dispatch: a module-level table of (name, factory) pairs
    # or a dict keyed by encoding name, referenced by the switch
    table_driven = False
    for h in closure:
        for nm in names_in(h.node):
            tv = h.module.const(nm)
            keys = []
            if isinstance(tv, (ast.Tuple, ast.List)):
                for e in tv.elts:
                    if isinstance(e, (ast.Tuple, ast.List)) and e.elts and \
                            isinstance(e.elts[0], ast.Constant) and \
                            isinstance(e.elts[0].value, str):
                        keys.append(e.elts[0].value)
            elif isinstance(tv, ast.Dict):
                keys = [k.value for k in tv.keys
                        if isinstance(k, ast.Constant)
                        and isinstance(k.value, str)]
            if keys and len(keys) >= 2 and any(
                    isinstance(v, (ast.Name, ast.Attribute, ast.Lambda))
                    for v in (tv.values if isinstance(tv, ast.Dict) else
                              [e.elts[-1] for e in tv.elts
                               if isinstance(e, (ast.Tuple, ast.List))])):
                branches |= set(keys)
                table_driven = True
    choices = set()
    for mod in repo.modules.values():
        if ".scripts." not in mod.name:
            continue
        for fn in mod.functions.values():
            for c in calls_in(fn.node):
                if (call_name(c) or "").endswith("add_argument") and c.args and \
                        isinstance(c.args[0], ast.Constant) and \
                        c.args[0].value == "--encoding":
                    ch = kwarg(c, "choices")
                    t = _const_tuple(mod, ch) if ch is not None else None
                    if t:
                        choices |= set(t)
                        repo.consulted.add(mod.name)
    col.add(rule, ge, "branches %s cover CLI choices %s" % (sorted(branches),
                                                             sorted(choices)),
            (bool(choices) and choices <= branches) or not branches,
            "" if choices <= branches
            else "--encoding offers %s which get_encoder does not handle"
            % sorted(choices - branches),
            undecided=not branches)
    oke = any(isinstance(s, ast.Raise) and "InvalidInfoError" in norm(s)
              and "Invalid encoding" in norm(s)
              for h in closure for s in stmts_of(h.node))
    # positive evidence of a fall-through: an if/elif chain on the encoding
    # whose final else does not raise
    falls = False
    for h in closure:
        for st in stmts_of(h.node):
            if isinstance(st, ast.If) and "encoding" in norm(st.test) and \
                    isinstance(st.test, ast.Compare):
                cur = st
                while len(cur.orelse) == 1 and isinstance(cur.orelse[0],
                                                          ast.If):
                    cur = cur.orelse[0]
                if cur is not st and cur.orelse and not \
                        block_always_raises_(cur.orelse):
                    falls = True
    col.add(rule, ge, "unknown encoding raises InvalidInfoError",
            oke or not falls,
            "" if oke else ("unknown encodings fall through" if falls else
                            "no raise for an unknown encoding recognised"),
            undecided=not oke and not falls)
    # raw codec: same dtype and shape order on both sides
    rd = repo.func("chunk_encoding", "RawChunkEncoder.decode")
    okr = "np.frombuffer(buf, dtype=self.dtype)" in ftext(rd)
    col.add(rule, rd, "frombuffer(dtype=self.dtype)", okr, "" if okr else
            "raw decoder does not read the little-endian stored dtype",
            undecided=not okr)
    ini = repo.func("chunk_encoding", "ChunkEncoder.__init__")
    from .core import inline_view as _iv
    iv = _iv(ini)
    stores = [st for st in ast.walk(iv.node) if isinstance(st, ast.Assign)
              and any(norm(t) == "self.dtype" for t in st.targets)]
    okl = bool(stores) and all("newbyteorder('<')" in norm(st.value)
                               for st in stores)
    # positively wrong: the dtype is stored as given (or in another order)
    badl = any(re.fullmatch(r"np\.dtype\(\w+\)(\.newbyteorder\((?!'<').*\))?"
                            r"|\w+", norm(st.value)) for st in stores)
    col.add(rule, ini, "self.dtype little-endian", okl or not badl,
            "" if okl else "codec dtype is not forced to little-endian",
            undecided=not okl and not badl)


from .core import block_always_raises as block_always_raises_


def _gz_name_kind(fn, path_expr):
    from .core import resolve_local_call
    """How the file name in path_expr relates to the plain name: 'appended'
    (<name> + '.gz'), 'replaced' (with_suffix('.gz')), 'plain' (no .gz part)
    or 'opaque' (built by code this rule does not follow)."""
    from .dataflow import single_defs, expand
    table = single_defs(fn.node)
    e = expand(path_expr, table, depth=4)
    txt = cnorm(fn.module, e)
    appended = "+ '.gz'" in txt or '+ ".gz"' in txt
    replaced = "with_suffix('.gz')" in txt
    opaque = False
    params = set(fn.params) - {"self", "cls"}
    multi = {n for n, ds in local_defs(fn.node).items()
             if len([d for d in ds if d.kind != "param"]) > 1}

    def visit(x):
        nonlocal appended, replaced, opaque
        if isinstance(x, ast.Call):
            h = resolve_local_call(fn, x)
            if h is None:
                h = fn.module.functions.get(call_name(x) or "")
            if h is not None and h is not fn:
                ht = ftext(h)
                appended = appended or "+ '.gz'" in ht
                replaced = replaced or "with_suffix('.gz')" in ht
                return      # the helper builds the name from its arguments
            nm_ = (call_name(x) or "").split(".")[-1]
            if nm_ not in ("str", "fspath", "Path", "PurePath", "with_name",
                           "with_suffix", "joinpath", "format", "join"):
                opaque = True
        if isinstance(x, ast.Name) and isinstance(x.ctx, ast.Load) and \
                (x.id in params or x.id in multi):
            opaque = True
        for ch in ast.iter_child_nodes(x):
            visit(ch)
    visit(e)
    if replaced:
        return "replaced"
    if appended:
        return "appended"
    if ".gz" in txt:
        return "opaque"
    return "opaque" if opaque else "plain"


def _flat_pattern_use(fn):
    """(ok, undecided): fn (or a straight-line helper it calls) returns
    _CHUNK_PATTERN_FLAT.format(c0, ..., c5, key=<key>) where c0..c5 are the six
    chunk coordinates in order."""
    from .core import helper_closure
    seen_format = False
    for h in helper_closure(fn):
        params = [p_ for p_ in h.params if p_ not in ("self", "cls")]
        hdefs = local_defs(h.node)
        for c in calls_in(h.node):
            if not (isinstance(c.func, ast.Attribute) and c.func.attr == "format"
                    and norm(c.func.value).endswith("_CHUNK_PATTERN_FLAT")):
                continue
            seen_format = True
            kw = kwarg(c, "key")
            if kw is None or not isinstance(kw, ast.Name) or \
                    kw.id not in params:
                continue
            args = c.args
            if len(args) == 1 and isinstance(args[0], ast.Starred) and \
                    isinstance(args[0].value, ast.Name) and \
                    args[0].value.id in params:
                return True, False
            if len(args) != 6 or not all(isinstance(a, ast.Name) for a in args):
                continue
            idx = []
            src = set()
            for a in args:
                ds = [d for d in hdefs.get(a.id, []) if d.index is not None
                      and isinstance(d.value, ast.Name)]
                if len(ds) != 1:
                    idx.append(None)
                    continue
                idx.append(ds[0].index)
                src.add(ds[0].value.id)
            if idx == [0, 1, 2, 3, 4, 5] and len(src) == 1 and \
                    src <= set(params):
                return True, False
            if None not in idx:
                return False, False
    return False, not seen_format


def dispatch_agreement(repo, col):
    rule = "E-SIB.dispatch"
    fn = repo.func("accessor", "get_accessor_for_url")
    # arms of the scheme dispatch, found by evaluating the tests for each
    # scheme value (so `in`, `==`, `not`, swapped arms and elif/else chains
    # are all the same to the rule)
    def eval_test(t, scheme):
        if isinstance(t, ast.UnaryOp) and isinstance(t.op, ast.Not):
            v = eval_test(t.operand, scheme)
            return None if v is None else not v
        if isinstance(t, ast.BoolOp):
            vs = [eval_test(v, scheme) for v in t.values]
            if any(v is None for v in vs):
                return None
            return all(vs) if isinstance(t.op, ast.And) else any(vs)
        if isinstance(t, ast.Compare) and len(t.ops) == 1 and \
                isinstance(t.left, ast.Attribute) and t.left.attr == "scheme":
            c = t.comparators[0]
            op = t.ops[0]
            if isinstance(c, (ast.Tuple, ast.List, ast.Set)) and all(
                    isinstance(e, ast.Constant) for e in c.elts):
                vals = [e.value for e in c.elts]
                if isinstance(op, ast.In):
                    return scheme in vals
                if isinstance(op, ast.NotIn):
                    return scheme not in vals
            if isinstance(c, ast.Constant):
                if isinstance(op, ast.Eq):
                    return scheme == c.value
                if isinstance(op, ast.NotEq):
                    return scheme != c.value
        return None

    def arm_for(scheme):
        block = None
        for st in fn.node.body:
            if isinstance(st, ast.If) and any(
                    isinstance(x, ast.Attribute) and x.attr == "scheme"
                    for x in ast.walk(st.test)):
                block = [st]
        steps = 0
        while block and len([x for x in block if not isinstance(
                x, (ast.Import, ast.ImportFrom))]) >= 1 and steps < 6:
            real = [x for x in block if not isinstance(x, (ast.Import,
                                                           ast.ImportFrom))]
            head = real[0]
            if len(real) == 1 and isinstance(head, ast.If) and any(
                    isinstance(x, ast.Attribute) and x.attr == "scheme"
                    for x in ast.walk(head.test)):
                v = eval_test(head.test, scheme)
                if v is None:
                    return None
                block = head.body if v else head.orelse
                steps += 1
                continue
            return block
        return block

    arms = []
    for label, schemes in (("file", ("", "file")), ("http", ("http", "https"))):
        blocks = [arm_for(sc) for sc in schemes]
        if any(b_ is None or not b_ for b_ in blocks) or \
                any(b_ is not blocks[0] for b_ in blocks):
            col.add(rule, fn, "%s arm" % label, True, "scheme dispatch not in "
                    "a recognised form", undecided=True)
            continue
        body = blocks[0]
        # 'extract function': the arm only delegates to a module helper
        real = [x for x in body if not isinstance(x, (ast.Import,
                                                      ast.ImportFrom))]
        if len(real) == 1 and isinstance(real[0], ast.Return) and \
                isinstance(real[0].value, ast.Call):
            h = fn.module.functions.get(call_name(real[0].value) or "")
            if h is not None and h is not fn:
                body = h.node.body
        arms.append((label, body))
    other = arm_for("ftp")
    ok_other = other is not None and block_always_raises_(other)
    col.add(rule, fn, "other schemes raise", ok_other, "" if ok_other else
            "an unsupported URL scheme does not end in an error",
            undecided=other is None)
    preds = []
    for test, body in arms:
        calls = [c for s_ in body for c in calls_in(s_)]
        pred = ["info_is_sharded" for c in calls
                if "info_is_sharded" in norm(c.func)]
        fetch = [norm(c) for c in calls if norm(c).endswith(
            ".fetch_file('info')")]
        ok = len(pred) == 1 and len(fetch) >= 1
        und_p = False
        if not ok:
            from .core import helper_closure as _hc
            for c in calls:
                h = fn.module.functions.get(call_name(c) or "")
                if h is None:
                    continue
                ht = " ".join(ftext(x) for x in _hc(h, 2))
                if "info_is_sharded" in ht and "fetch_file('info')" in ht:
                    pred = ["via " + h.qualname]
                    ok = True
            # a branch that cannot produce a sharded accessor at all, or one
            # whose decision is made where this rule does not follow it, is
            # not evidence of a wrong dispatch
            btxt = " ".join(norm(s_) for s_ in body)
            if not ok and "info_is_sharded" not in btxt and \
                    "Sharded" in btxt and not any(
                        isinstance(c.func, ast.Name) and
                        c.func.id not in fn.module.functions and
                        c.func.id[:1].islower() for c in calls):
                pass
            elif not ok:
                und_p = True
        col.add(rule, fn, "%s: sharded iff info_is_sharded(fetched info)"
                % test[:40], ok or und_p, "" if ok else "this branch does "
                "not decide 'sharded' from the fetched info with "
                "info_is_sharded", undecided=und_p)
        preds.append((test, pred, fetch))
        bdefs = {}
        for s_ in body:
            for x in ast.walk(s_):
                if isinstance(x, ast.Assign) and len(x.targets) == 1 and \
                        isinstance(x.targets[0], ast.Name):
                    bdefs.setdefault(x.targets[0].id, []).append(x.value)
        kinds = set()
        for s_ in body:
            for x in ast.walk(s_):
                if not (isinstance(x, ast.Return) and x.value is not None):
                    continue
                vals = [x.value]
                if isinstance(x.value, ast.Name):
                    vals = bdefs.get(x.value.id, []) or [x.value]
                for v in vals:
                    t_ = norm(v)
                    if "Sharded" in t_:
                        kinds.add("sharded")
                    elif isinstance(v, ast.Call) and (
                            call_name(v) or "").endswith(("FileAccessor",
                                                          "HttpAccessor")):
                        kinds.add("plain")
                    else:
                        kinds.add("?")
        oks = {"sharded", "plain"} <= kinds
        col.add(rule, fn, "%s: returns sharded or plain accessor" % test[:40],
                oks or "?" in kinds, "" if oks else
                "branch does not return both kinds",
                undecided=not oks and "?" in kinds)
        # the sharded accessor is returned only when sharding was decided
        for s_ in body:
            if isinstance(s_, ast.If) and any(
                    isinstance(x, ast.Return) and x.value is not None and
                    "Sharded" in norm(x.value) for x in ast.walk(s_)):
                tt = norm(s_.test)
                okg, und = False, False
                if isinstance(s_.test, ast.Name):
                    flag = s_.test.id
                    # the flag is set to True under the info predicate
                    for st2 in [y for b_ in body for y in ast.walk(b_)
                                if isinstance(y, ast.If)]:
                        if ("info_is_sharded" in norm(st2.test) or any(
                                p_.replace("via ", "") in norm(st2.test)
                                for p_ in pred if p_.startswith("via "))) \
                                and any(isinstance(z, ast.Assign) and
                                        norm(z.targets[0]) == flag and
                                        isinstance(z.value, ast.Constant) and
                                        z.value.value is True
                                        for z in ast.walk(st2)):
                            okg = True
                    und = not okg
                else:
                    pos = s_.test.values if isinstance(
                        s_.test, ast.BoolOp) and isinstance(
                            s_.test.op, ast.Or) else [s_.test]
                    names = [p_.replace("via ", "") for p_ in pred]
                    if any(isinstance(o, ast.Call) and (
                            "info_is_sharded" in norm(o.func) or
                            (call_name(o) or "") in names) for o in pos):
                        okg = True
                    elif not isinstance(s_.test, ast.UnaryOp):
                        und = True
                col.add(rule, fn, "%s: sharded accessor under `is_sharding`"
                        % test[:40], okg or und, "" if okg else "sharded "
                        "accessor is returned under `%s`" % tt,
                        undecided=und)
    if len(preds) >= 2:
        same = len({tuple(p_[1]) for p_ in preds}) == 1
        col.add(rule, fn, "file and http branches share one predicate", same,
                "" if same else "the two branches decide 'sharded' "
                "differently: %s" % [p_[1] for p_ in preds])
    isf = repo.func("sharded_base", "ShardedAccessorBase.info_is_sharded")
    t = ftext(isf)
    okp = "len(scales) > 0 and all((ShardedScaleBase.is_sharded(s) for s in scales))" in t
    col.add(rule, isf, "every scale declares sharding", okp, "" if okp else
            "info_is_sharded is not 'at least one scale and all scales "
            "sharded'", undecided=not okp)
    sc = repo.func("sharded_base", "ShardedScaleBase.is_sharded")
    oks = "scale['sharding']['@type'] == 'neuroglancer_uint64_sharded_v1'" \
        in ftext(sc)
    col.add(rule, sc, "@type == neuroglancer_uint64_sharded_v1", oks,
            "" if oks else "sharding marker test changed", undecided=not oks)
    # URL pattern shared between HTTP and flat files
    ha = repo.func("http_accessor", "HttpAccessor.chunk_relative_url")
    okh, undh = _flat_pattern_use(ha)
    col.add(rule, ha, "HTTP chunk URL = flat file pattern", okh or undh,
            "" if okh else
            "HTTP chunk URLs are not built from the shared flat pattern",
            undecided=undh and not okh)
    acc = repo.module("accessor")
    okp = isinstance(acc.const("_CHUNK_PATTERN_FLAT"), ast.Constant) and \
        acc.const("_CHUNK_PATTERN_FLAT").value == \
        "{key}/{0}-{1}_{2}-{3}_{4}-{5}"
    col.add(rule, "accessor:_CHUNK_PATTERN_FLAT", "{key}/{0}-{1}_{2}-{3}_{4}-{5}",
            okp, "" if okp else "flat chunk name pattern differs from the "
            "Neuroglancer precomputed naming x0-x1_y0-y1_z0-z1")
    fam = repo.module("file_accessor")
    oksd = isinstance(fam.const("_CHUNK_PATTERN_SUBDIR"), ast.Constant) \
        and fam.const("_CHUNK_PATTERN_SUBDIR").value == \
        "{key}/{0}-{1}/{2}-{3}/{4}-{5}"
    col.add(rule, "file_accessor:_CHUNK_PATTERN_SUBDIR",
            "{key}/{0}-{1}/{2}-{3}/{4}-{5}", oksd, "" if oksd else
            "sub-directory chunk pattern changed")
    # base URL normalisation
    hi = repo.func("http_accessor", "HttpAccessor.__init__")
    oku = "r.path if r.path[-1] == '/' else r.path + '/'" in ftext(hi)
    col.add(rule, hi, "base URL ends with exactly one slash", oku, "" if oku
            else "base URL normalisation changed", undecided=not oku)
    sp = repo.func("accessor", "_strip_precomputed")
    okpr = "url.startswith('precomputed://')" in ftext(sp)
    col.add(rule, sp, "precomputed:// prefix stripped", okpr, "" if okpr else
            "precomputed:// URLs are no longer recognised",
            undecided=not okpr)


# ---------------------------------------------------------------------
# E-SIB: pipeline composition (C19)
# ---------------------------------------------------------------------
STAGES = ["nibabel_image_to_info", "split_rgb_channels", "set_info_params",
          "fill_scales_for_dyadic_pyramid", "get_IO_for_new_dataset",
          "nibabel_image_to_precomputed", "get_downscaler",
          "compute_dyadic_scales"]
VALUE_PARAMS = {
    "nibabel_image_to_info": ["ignore_scaling", "input_min", "input_max"],
    "set_info_params": ["dataset_type", "encoding"],
    "fill_scales_for_dyadic_pyramid": ["target_chunk_size", "max_scales"],
    "nibabel_image_to_precomputed": ["ignore_scaling", "input_min",
                                     "input_max", "load_full_volume"],
    "get_downscaler": ["downscaling_method", "info", "options"],
}


def _ordered_calls(stmts):
    """Calls in execution-like source order: statement by statement (headers
    before bodies), by position inside one simple statement."""
    from .core import iter_child_stmts, calls_postorder
    out = []
    for st in stmts:
        if isinstance(st, (ast.FunctionDef, ast.AsyncFunctionDef,
                           ast.ClassDef)):
            continue
        kids = list(iter_child_stmts(st))
        if not kids:
            out += calls_postorder(st)
            continue
        hdr = []
        for field, value in ast.iter_fields(st):
            if field in ("body", "orelse", "finalbody", "handlers", "cases"):
                continue
            for sub in (value if isinstance(value, list) else [value]):
                if isinstance(sub, ast.AST):
                    hdr += calls_postorder(sub)
        out += hdr
        out += _ordered_calls(kids)
    return out


def _stage_seq(fn, depth=2):
    """[(stage name, call, foreign)]: stage calls of fn in order, seen
    through local helpers - inlinable ones are inlined (their arguments are
    then expressed in fn's names), other local helpers are spliced in and
    marked foreign (their arguments live in the helper's namespace)."""
    from .core import inline_view, resolve_local_call
    base = getattr(fn, "inlined_from", fn)
    try:
        view = inline_view(base, keep=tuple(STAGES))
    except Exception:
        view = base
    out = []

    def walk(f, node, foreign, level):
        for c in _ordered_calls(node.body):
            nm = (call_name(c) or "").split(".")[-1]
            if nm in STAGES:
                out.append((nm, c, foreign))
                continue
            h = resolve_local_call(f, c)
            if h is not None and h is not f and h is not base and level > 0:
                walk(h, h.node, True, level - 1)
    walk(base, view.node, False, depth)
    return out


def _find_func(repo, name):
    for m in repo.modules.values():
        if name in m.functions:
            repo.consulted.add(m.name)
            return m.functions[name]
    raise AnalysisError("anchor vanished: function %s" % name)


def _bound_args(call, callee):
    a = callee.node.args
    params = [x.arg for x in a.posonlyargs + a.args]
    out = {}
    for p, v in zip(params, call.args):
        out[p] = v
    for k in call.keywords:
        if k.arg:
            out[k.arg] = k.value
    defaults = dict(zip(params[len(params) - len(a.defaults):], a.defaults))
    return out, defaults


def _cli_default(repo, module, dest):
    """Default of the option whose dest is `dest` in the module's parser
    (including the shared add_argparse_options helpers)."""
    fns = [f for f in module.functions.values()
           if f.qualname == "parse_command_line"]
    helpers = []
    for f in fns:
        for c in calls_in(f.node):
            nm = call_name(c) or ""
            if nm.endswith("add_argparse_options"):
                modname = module.resolve(nm).rsplit(".", 1)[0]
                hm = repo.modules.get(modname)
                if hm and "add_argparse_options" in hm.functions:
                    helpers.append(hm.functions["add_argparse_options"])
    for f in fns + helpers:
        for c in calls_in(f.node):
            if not (call_name(c) or "").endswith("add_argument"):
                continue
            opts = [a.value for a in c.args if isinstance(a, ast.Constant)
                    and isinstance(a.value, str)]
            d = kwarg(c, "dest")
            dname = d.value if isinstance(d, ast.Constant) else None
            if dname is None and opts:
                long = [o for o in opts if o.startswith("--")]
                dname = (long[0][2:] if long else opts[0]).replace("-", "_")
            if dname != dest:
                continue
            dv = kwarg(c, "default")
            act = kwarg(c, "action")
            if dv is not None:
                return True, (dv.value if isinstance(dv, ast.Constant)
                              else norm(dv))
            if act is not None and isinstance(act, ast.Constant):
                if act.value == "store_true":
                    return True, False
                if act.value == "store_false":
                    return True, True
            return True, None
    return False, None


def _trace_param(repo, fn, pname, depth):
    """Follow parameter `pname` of `fn` up its (unique) call chain to the
    command-line option that feeds it."""
    if depth > 4:
        return ("expr", pname)
    idx = getattr(repo, "_callers_by_name", None)
    if idx is None:
        idx = {}
        for m in repo.modules.values():
            for f in m.functions.values():
                for c in calls_in(f.node):
                    nm = (call_name(c) or "").split(".")[-1]
                    if nm:
                        idx.setdefault(nm, []).append((f, c))
        repo._callers_by_name = idx
    callers = [(f, c) for f, c in idx.get(fn.qualname, []) if f is not fn]
    if not callers:
        return ("expr", pname)
    results = set()
    for f, c in callers:
        b2, d2 = _bound_args(c, fn)
        if pname in b2:
            t = norm(b2[pname])
            if t.startswith("args."):
                found, dflt = _cli_default(repo, f.module, t[5:])
                results.add(("cli", t[5:], dflt if found else "?"))
            elif isinstance(b2[pname], ast.Name) and b2[pname].id in f.params:
                results.add(_trace_param(repo, f, b2[pname].id, depth + 1))
            elif isinstance(b2[pname], ast.Constant):
                results.add(("const", b2[pname].value))
            else:
                results.add(("expr", t))
        else:
            dv = d2.get(pname)
            results.add(("default", dv.value if isinstance(dv, ast.Constant)
                         else norm(dv)))
    if len(results) == 1:
        return results.pop()
    return ("expr", "%s fed in %d ways" % (pname, len(results)))


def _effective(repo, driver, main, stage_call, stage_fn, param):
    """('cli', dest, default) / ('const', v) / ('default', v) / ('expr', t)"""
    bound, defaults = _bound_args(stage_call, stage_fn)
    if param not in bound:
        dv = defaults.get(param)
        return ("default", dv.value if isinstance(dv, ast.Constant)
                else norm(dv))
    v = bound[param]
    if isinstance(v, ast.Constant):
        return ("const", v.value)
    if isinstance(v, ast.Name) and v.id in driver.params:
        return _trace_param(repo, driver, v.id, 0)
    return ("expr", norm(v))


def pipeline_composition(repo, col):
    rule = "E-SIB.pipeline"
    allin = repo.func("scripts.volume_to_precomputed_pyramid",
                      "volume_to_precomputed_pyramid")
    steps = [("volume_reader", "nibabel_image_to_info_driver",
              repo.func("volume_reader", "store_nibabel_image_to_fullres_info"),
              repo.func("scripts.volume_to_precomputed", "main")),
             ("scripts.generate_scales_info", "generate_scales_info",
              repo.func("scripts.generate_scales_info", "generate_scales_info"),
              repo.func("scripts.generate_scales_info", "main")),
             ("volume_reader", "volume_file_to_precomputed",
              repo.func("volume_reader", "volume_file_to_precomputed"),
              repo.func("scripts.volume_to_precomputed", "main")),
             ("scripts.compute_scales", "compute_scales",
              repo.func("scripts.compute_scales", "compute_scales"),
              repo.func("scripts.compute_scales", "main"))]
    seq_all = _stage_seq(allin)
    seq_steps = []
    for _, _, fn, mainfn in steps:
        seq_steps += [(nm, c, fn, mainfn, fg) for nm, c, fg in _stage_seq(fn)]
    names_all = [n for n, _, _ in seq_all]
    names_steps = [n for n, _, _, _, _ in seq_steps]
    # the RGB split stage: present in both programs, before the chunk writer
    def rgb_before_write(names):
        return "split_rgb_channels" in names and \
            "nibabel_image_to_precomputed" in names and \
            names.index("split_rgb_channels") < \
            names.index("nibabel_image_to_precomputed")
    ok_rgb = rgb_before_write(names_all) and rgb_before_write(names_steps)
    col.add(rule + ".rgb-stage", allin, "RGB split stage before the chunk "
            "writer in both programs", ok_rgb, "" if ok_rgb else
            "RGB (structured dtype) volumes are split into channels before "
            "writing by %s only: the other program hands the structured image "
            "to the chunk writer and fails" % (
                "the step-by-step command" if rgb_before_write(names_steps)
                else "the all-in-one command" if rgb_before_write(names_all)
                else "neither program"))
    a = [n for n in names_all if n != "split_rgb_channels"]
    b = [n for n in names_steps if n != "split_rgb_channels"]
    ok = a == b
    col.add(rule + ".order", allin, " -> ".join(a), ok,
            "same stage order as the documented step sequence" if ok else
            "all-in-one stage order %s differs from the step-by-step order %s: "
            "a stage sees the info before / after a step that changes it"
            % (a, b))
    # value-affecting parameters
    main_all = repo.func("scripts.volume_to_precomputed_pyramid", "main")
    by_name_steps = {}
    for nm, c, fn, mainfn, fg in seq_steps:
        by_name_steps.setdefault(nm, (c, fn, mainfn, fg))
    for nm, c, fg in seq_all:
        if nm not in VALUE_PARAMS or nm not in by_name_steps:
            continue
        stage_fn = _find_func(repo, nm)
        c2, fn2, main2, fg2 = by_name_steps[nm]
        if fg or fg2:
            col.add(rule + ".param", allin, "%s(...)" % nm, True,
                    "stage is called from a helper whose arguments are not "
                    "expressed in the driver's names", undecided=True)
            continue
        for p in VALUE_PARAMS[nm]:
            ea = _effective(repo, allin, main_all, c, stage_fn, p)
            eb = _effective(repo, fn2, main2, c2, stage_fn, p)
            if p == "info":
                ok = ea[0] != "default" and eb[0] != "default"
                col.add(rule + ".param", allin, "%s(%s)" % (nm, p), ok,
                        "" if ok else "%s is called without the info in one "
                        "program" % nm)
                continue
            if ea[0] == "expr" and eb[0] == "expr":
                same = ea[1] == eb[1]
                col.add(rule + ".param", allin, "%s(%s): %s vs %s"
                        % (nm, p, ea[1], eb[1]), same, "" if same else
                        "parameter %s of stage %s is `%s` in the all-in-one "
                        "command but `%s` in the step-by-step command: options "
                        "given on the command line reach only one of them"
                        % (p, nm, ea[1], eb[1]),
                        undecided=not same and "vars(args)" not in (ea[1], eb[1]))
                continue
            va = ea[2] if ea[0] == "cli" else ea[1]
            vb = eb[2] if eb[0] == "cli" else eb[1]
            same_opt = ea[0] == eb[0] == "cli" and ea[1] == eb[1]
            ok = (same_opt and va == vb) or (ea[0] != "expr" and eb[0] != "expr"
                                             and not same_opt and va == vb
                                             and "cli" in (ea[0], eb[0],
                                                           "cli")
                                             and (ea[0] == "default" or
                                                  eb[0] == "default" or
                                                  ea[0] == eb[0]))
            und = "expr" in (ea[0], eb[0]) or "?" in (va, vb)
            col.add(rule + ".param", allin, "%s(%s): %s vs %s"
                    % (nm, p, ea, eb), ok, "" if ok else
                    "parameter %s of stage %s is fed differently by the two "
                    "programs (all-in-one %s, step-by-step %s)"
                    % (p, nm, ea, eb), undecided=und and not ok)
    # the info a stage works on is the one the previous stage produced
    txt = closure_text(allin)
    okw = "precomputed_io.get_IO_for_new_dataset(info, accessor)" in txt and \
        "compute_dyadic_scales(precomputed_writer, downscaler)" in txt and \
        "nibabel_image_to_precomputed(img, precomputed_writer" in txt
    col.add(rule + ".handoff", allin, "writer of the info is the writer of the "
            "chunks and the pyramid", okw, "" if okw else
            "the all-in-one command no longer threads one dataset handle "
            "through its stages", undecided=not okw)
    return len(seq_all)


def accessor_options_plumbing(repo, col):
    rule = "E-SIB.options"
    fn = repo.func("accessor", "get_accessor_for_url")
    from .core import helper_closure
    ctor, owner_fn = None, None
    for h in helper_closure(fn):
        for c in calls_in(h.node):
            if (call_name(c) or "").endswith("FileAccessor") and \
                    "Sharded" not in (call_name(c) or ""):
                ctor, owner_fn = c, h
    for opt, dflt in (("flat", "False"), ("gzip", "True"),
                      ("compresslevel", "9")):
        label = "%s = accessor_options.get('%s', %s)" % (opt, opt, dflt)
        if ctor is None:
            col.add(rule, fn, label, True, "FileAccessor construction not "
                    "found", undecided=True)
            continue
        v = kwarg(ctor, opt)
        if v is None:
            col.add(rule, fn, label, True, "option %s is not passed by "
                    "keyword" % opt, undecided=True)
            continue
        odefs = local_defs(owner_fn.node)
        vals = [v]
        if isinstance(v, ast.Name):
            vals = [d.value for d in odefs.get(v.id, []) if d.value is not None]
        gets = [x for x in vals if isinstance(x, ast.Call) and
                isinstance(x.func, ast.Attribute) and x.func.attr == "get"
                and x.args and isinstance(x.args[0], ast.Constant)]
        if not gets or len(gets) != len(vals):
            col.add(rule, fn, label, True, "value of %s is not read with "
                    "<options>.get(...)" % opt, undecided=True)
            continue
        g = gets[0]
        ok = g.args[0].value == opt and len(g.args) == 2 and \
            norm(g.args[1]) == dflt
        col.add(rule, fn, label, ok, "" if ok else "option %s is not passed "
                "from accessor_options to FileAccessor with default %s (%s)"
                % (opt, dflt, norm(g)), node=g)
    ini = repo.func("file_accessor", "FileAccessor.__init__")
    t = ftext(ini)
    ok = "if flat: self.chunk_pattern = _CHUNK_PATTERN_FLAT else: " \
        "self.chunk_pattern = _CHUNK_PATTERN_SUBDIR" in t.replace("\n", " ")
    ok = "self.chunk_pattern = _CHUNK_PATTERN_FLAT" in t and \
        "self.chunk_pattern = _CHUNK_PATTERN_SUBDIR" in t and "if flat" in t
    col.add(rule, ini, "flat selects the flat pattern", ok, "" if ok else
            "flat option no longer selects between the two chunk patterns",
            undecided=not ok)
    # CLI defaults of the shared options
    ao = repo.func("accessor", "add_argparse_options")
    at = ftext(ao)
    for p, why in (("'--no-gzip', '--no-compression', action='store_false', "
                    "dest='gzip'", "--no-gzip does not clear the gzip option"),
                   ("'--compresslevel', type=int, default=9",
                    "--compresslevel default is not 9"),
                   ("'--flat', action='store_true'", "--flat is not a flag")):
        col.add(rule, ao, p[:50], p in at, "" if p in at else why,
                undecided=p not in at)
