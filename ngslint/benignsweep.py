"""Automatic behaviour-preserving transformations (checker self-audit).

Each transformation rewrites the AST of one function or one module of a
scratch copy of /repo's src tree in a way that cannot change behaviour
(alpha-renaming of locals, literals behind named constants, conditional
expression <-> if/else, guard tests bound to a flag first, returned expression
bound to a name first, comparison mirrored, if/else arms swapped under a
negated test).  Every check must stay silent on every transformed tree: a
VIOLATION or ANALYSIS-ERROR here is a false alarm of the checker by
construction.  Nothing is executed; trees are parsed and analysed only.

    python -m ngslint.benignsweep [--jobs N] [--ops a,b] [--props C01,C02]
"""
import argparse
import ast
import builtins
import copy
import os
import shutil
import sys
import tempfile
import time
from concurrent.futures import ProcessPoolExecutor

from .core import Repo, repo_root, AnalysisError, PKG
from .report import Collector, load_known, match_known, FAIL

BUILTINS = set(dir(builtins))


# ---------------------------------------------------------------------
# transformations (all operate on a deep copy of a module tree)
# ---------------------------------------------------------------------
def _functions(tree):
    out = []

    def visit(node, prefix):
        for ch in ast.iter_child_nodes(node):
            if isinstance(ch, (ast.FunctionDef, ast.AsyncFunctionDef)):
                out.append((prefix + ch.name, ch))
                visit(ch, prefix + ch.name + ".")
            elif isinstance(ch, ast.ClassDef):
                visit(ch, prefix + ch.name + ".")
            elif isinstance(ch, (ast.If, ast.Try, ast.With, ast.For,
                                 ast.While)):
                visit(ch, prefix)
    visit(tree, "")
    return out


def _own_nodes(fnode):
    """Nodes of a function, not descending into nested defs / lambdas /
    comprehensions scopes are kept (their targets are separate scopes but
    reads of outer locals must be renamed too)."""
    stack = list(ast.iter_child_nodes(fnode))
    while stack:
        n = stack.pop()
        yield n
        stack.extend(ast.iter_child_nodes(n))


def rename_locals(fnode):
    """Alpha-rename the plain local variables of one function (not its
    parameters, not names declared global/nonlocal, not names that nested
    functions assign)."""
    params = {a.arg for a in ast.walk(fnode.args) if isinstance(a, ast.arg)}
    declared = set()
    stores = set()
    nested_params = set()
    for n in _own_nodes(fnode):
        if isinstance(n, (ast.Global, ast.Nonlocal)):
            declared |= set(n.names)
        elif isinstance(n, ast.Name) and isinstance(n.ctx, (ast.Store,
                                                            ast.Del)):
            stores.add(n.id)
        elif isinstance(n, ast.arg):
            nested_params.add(n.arg)
        elif isinstance(n, (ast.FunctionDef, ast.AsyncFunctionDef,
                            ast.ClassDef)):
            stores.discard(n.name)
            declared.add(n.name)
        elif isinstance(n, ast.ExceptHandler) and n.name:
            declared.add(n.name)
        elif isinstance(n, (ast.Import, ast.ImportFrom)):
            for a in n.names:
                declared.add((a.asname or a.name).split(".")[0])
    # names used in f-string debugging / locals() / eval: leave function alone
    for n in _own_nodes(fnode):
        if isinstance(n, ast.Call) and isinstance(n.func, ast.Name) and \
                n.func.id in ("locals", "vars", "eval", "exec"):
            return 0
    targets = {s for s in stores
               if s not in params and s not in declared
               and s not in nested_params and s not in BUILTINS
               and not s.startswith("__")}
    if not targets:
        return 0
    # opaque names: no rule may recognise a variable by (part of) its name
    table = {s: "v%d_" % k for k, s in enumerate(sorted(targets))}
    for n in _own_nodes(fnode):
        if isinstance(n, ast.Name) and n.id in table:
            n.id = table[n.id]
    return len(table)


def extract_literals(tree):
    """Module-level named constants for string literals used in function
    bodies (not docstrings, not f-string parts, not dict keys of literals used
    as keyword-like tables)."""
    consts = {}
    count = [0]

    class T(ast.NodeTransformer):
        def __init__(self):
            self.depth = 0

        def visit_FunctionDef(self, node):
            self.depth += 1
            # keep the docstring
            body = node.body
            doc = None
            if body and isinstance(body[0], ast.Expr) and isinstance(
                    body[0].value, ast.Constant) and isinstance(
                        body[0].value.value, str):
                doc = body[0]
            node.args = node.args          # defaults stay literal
            new_body = []
            for st in body:
                if st is doc:
                    new_body.append(st)
                else:
                    new_body.append(self.visit(st))
            node.body = new_body
            self.depth -= 1
            return node

        visit_AsyncFunctionDef = visit_FunctionDef

        def visit_JoinedStr(self, node):
            return node

        def visit_Constant(self, node):
            if self.depth and isinstance(node.value, str) and \
                    2 <= len(node.value) <= 40:
                name = consts.get(node.value)
                if name is None:
                    count[0] += 1
                    name = "_LIT_%d" % count[0]
                    consts[node.value] = name
                return ast.copy_location(ast.Name(id=name, ctx=ast.Load()),
                                         node)
            return node

        def visit_Expr(self, node):
            if isinstance(node.value, ast.Constant):
                return node        # stray docstring-like expression
            return self.generic_visit(node)

        def visit_ClassDef(self, node):
            # class-level statements are not touched, methods are
            node.body = [self.visit(s) if isinstance(
                s, (ast.FunctionDef, ast.AsyncFunctionDef)) else s
                for s in node.body]
            return node

    T().visit(tree)
    if not consts:
        return 0
    # insert after the imports / __future__ / module docstring
    idx = 0
    for i, st in enumerate(tree.body):
        if isinstance(st, (ast.Import, ast.ImportFrom)) or (
                isinstance(st, ast.Expr) and isinstance(st.value,
                                                        ast.Constant)):
            idx = i + 1
    assigns = [ast.Assign(targets=[ast.Name(id=n, ctx=ast.Store())],
                          value=ast.Constant(value=v), lineno=0, col_offset=0)
               for v, n in sorted(consts.items(), key=lambda kv: kv[1])]
    tree.body[idx:idx] = assigns
    return len(consts)


def ifexp_to_if(fnode):
    """`x = a if c else b` -> if c: x = a / else: x = b."""
    n = [0]

    class T(ast.NodeTransformer):
        def visit_FunctionDef(self, node):
            if node is fnode:
                return self.generic_visit(node)
            return node

        visit_AsyncFunctionDef = visit_FunctionDef

        def visit_Lambda(self, node):
            return node

        def visit_Assign(self, node):
            if isinstance(node.value, ast.IfExp) and len(node.targets) == 1 \
                    and isinstance(node.targets[0], (ast.Name, ast.Attribute)):
                n[0] += 1
                v = node.value
                return ast.copy_location(ast.If(
                    test=v.test,
                    body=[ast.Assign(targets=[copy.deepcopy(node.targets[0])],
                                     value=v.body)],
                    orelse=[ast.Assign(targets=[copy.deepcopy(
                        node.targets[0])], value=v.orelse)]), node)
            return node
    T().visit(fnode)
    return n[0]


def flag_guards(fnode):
    """`if <test>: raise ...` -> `_flag_k = <test>` / `if _flag_k: raise`."""
    n = [0]

    def rewrite(stmts):
        out = []
        for st in stmts:
            if isinstance(st, (ast.FunctionDef, ast.AsyncFunctionDef,
                               ast.ClassDef)):
                out.append(st)
                continue
            for field in ("body", "orelse", "finalbody"):
                sub = getattr(st, field, None)
                if isinstance(sub, list) and sub and isinstance(sub[0],
                                                                ast.stmt):
                    setattr(st, field, rewrite(sub))
            for h in getattr(st, "handlers", []) or []:
                h.body = rewrite(h.body)
            if isinstance(st, ast.If) and not st.orelse and st.body and \
                    isinstance(st.body[-1], ast.Raise) and \
                    not isinstance(st.test, ast.Name) and \
                    not any(isinstance(x, ast.NamedExpr)
                            for x in ast.walk(st.test)):
                n[0] += 1
                name = "_flag_%d" % n[0]
                out.append(ast.copy_location(ast.Assign(
                    targets=[ast.Name(id=name, ctx=ast.Store())],
                    value=st.test), st))
                st.test = ast.copy_location(ast.Name(id=name, ctx=ast.Load()),
                                            st)
            out.append(st)
        return out
    fnode.body = rewrite(fnode.body)
    return n[0]


def bind_returns(fnode):
    """`return <expr>` -> `_ret = <expr>` / `return _ret`."""
    n = [0]
    if any(isinstance(x, (ast.Yield, ast.YieldFrom)) for x in _own_nodes(fnode)):
        pass

    def rewrite(stmts):
        out = []
        for st in stmts:
            if isinstance(st, (ast.FunctionDef, ast.AsyncFunctionDef,
                               ast.ClassDef)):
                out.append(st)
                continue
            for field in ("body", "orelse", "finalbody"):
                sub = getattr(st, field, None)
                if isinstance(sub, list) and sub and isinstance(sub[0],
                                                                ast.stmt):
                    setattr(st, field, rewrite(sub))
            for h in getattr(st, "handlers", []) or []:
                h.body = rewrite(h.body)
            if isinstance(st, ast.Return) and st.value is not None and \
                    not isinstance(st.value, (ast.Name, ast.Constant)):
                n[0] += 1
                out.append(ast.copy_location(ast.Assign(
                    targets=[ast.Name(id="_ret", ctx=ast.Store())],
                    value=st.value), st))
                st.value = ast.copy_location(ast.Name(id="_ret",
                                                      ctx=ast.Load()), st)
            out.append(st)
        return out
    fnode.body = rewrite(fnode.body)
    return n[0]


def mirror_compares(fnode):
    """`a < b` -> `b > a` (single-operator order comparisons)."""
    n = [0]
    swap = {ast.Lt: ast.Gt, ast.Gt: ast.Lt, ast.LtE: ast.GtE, ast.GtE: ast.LtE}
    for node in _own_nodes(fnode):
        if isinstance(node, ast.Compare) and len(node.ops) == 1 and \
                type(node.ops[0]) in swap:
            node.left, node.comparators[0] = node.comparators[0], node.left
            node.ops = [swap[type(node.ops[0])]()]
            n[0] += 1
    return n[0]


def swap_branches(fnode):
    """`if c: A else: B` -> `if not c: B else: A` (plain two-armed ifs)."""
    n = [0]
    for node in _own_nodes(fnode):
        if isinstance(node, ast.If) and node.orelse and not (
                len(node.orelse) == 1 and isinstance(node.orelse[0], ast.If)):
            node.test = ast.UnaryOp(op=ast.Not(), operand=node.test)
            node.body, node.orelse = node.orelse, node.body
            n[0] += 1
    return n[0]


def alias_params(fnode):
    """`def f(p): ...` -> `def f(p): p_al = p; ...` with every use of p in the
    body replaced by p_al (tests that rules do not hinge on parameter
    spellings)."""
    a = fnode.args
    params = [x.arg for x in a.posonlyargs + a.args + a.kwonlyargs
              if x.arg not in ("self", "cls")]
    if not params:
        return 0
    nested_args = set()
    declared = set()
    for n in _own_nodes(fnode):
        if isinstance(n, ast.arg):
            nested_args.add(n.arg)
        elif isinstance(n, (ast.Global, ast.Nonlocal)):
            declared |= set(n.names)
        elif isinstance(n, ast.Call) and isinstance(n.func, ast.Name) and \
                n.func.id in ("locals", "vars", "eval", "exec", "super"):
            if n.func.id != "super":
                return 0
    own_args = {x.arg for x in ast.walk(a) if isinstance(x, ast.arg)}
    nested_only = set()
    for n in _own_nodes(fnode):
        if isinstance(n, (ast.FunctionDef, ast.AsyncFunctionDef, ast.Lambda)):
            for x in ast.walk(n.args):
                if isinstance(x, ast.arg):
                    nested_only.add(x.arg)
    targets = [p for p in params if p not in nested_only
               and p not in declared]
    if not targets:
        return 0
    table = {p: p + "_al" for p in targets}
    body = fnode.body
    doc = []
    if body and isinstance(body[0], ast.Expr) and isinstance(
            body[0].value, ast.Constant) and isinstance(body[0].value.value,
                                                        str):
        doc, body = [body[0]], body[1:]
    for st in body:
        for n in ast.walk(st):
            if isinstance(n, ast.Name) and n.id in table:
                n.id = table[n.id]
    pre = [ast.Assign(targets=[ast.Name(id=table[p], ctx=ast.Store())],
                      value=ast.Name(id=p, ctx=ast.Load()), lineno=fnode.lineno,
                      col_offset=0) for p in targets]
    fnode.body = doc + pre + body
    return len(targets)


def _bound_names(fnode):
    """Names bound in the scope of fnode itself (parameters, assignment /
    loop / with / except / import targets), not those bound only inside
    comprehensions or nested functions."""
    out = set()
    a = fnode.args
    for x in a.posonlyargs + a.args + a.kwonlyargs:
        out.add(x.arg)
    if a.vararg:
        out.add(a.vararg.arg)
    if a.kwarg:
        out.add(a.kwarg.arg)

    def visit(n):
        for ch in ast.iter_child_nodes(n):
            if isinstance(ch, (ast.FunctionDef, ast.AsyncFunctionDef,
                               ast.ClassDef)):
                out.add(ch.name)
                continue
            if isinstance(ch, ast.Lambda):
                continue
            if isinstance(ch, (ast.ListComp, ast.SetComp, ast.DictComp,
                               ast.GeneratorExp)):
                # only the first iterable is evaluated in this scope
                visit(ch.generators[0].iter)
                continue
            if isinstance(ch, ast.Name) and isinstance(ch.ctx, (ast.Store,
                                                                 ast.Del)):
                out.add(ch.id)
            elif isinstance(ch, ast.ExceptHandler) and ch.name:
                out.add(ch.name)
            elif isinstance(ch, ast.alias):
                out.add((ch.asname or ch.name).split(".")[0])
            visit(ch)
    visit(fnode)
    return out


def extract_methods(tree, qn, limit=8):
    """Like extract_helpers, for methods: the expression moves into a new
    private method of the same class, called through self."""
    return extract_helpers(tree, qn, limit, as_method=True)


def extract_helpers(tree, qn, limit=8, as_method=False):
    """`x = <expr>` -> `x = _xh_k(<locals used>)` with a new module-level
    function `_xh_k(<locals used>): return <expr>` (helper extraction, the
    most common step of a refactoring).  The expression is evaluated at the
    same point with the same values; expressions with yield / await / walrus
    / lambda / super / generator results are left alone."""
    chain = []          # enclosing functions, outermost first

    def find(node, prefix, stack):
        for ch in ast.iter_child_nodes(node):
            if isinstance(ch, (ast.FunctionDef, ast.AsyncFunctionDef)):
                if prefix + ch.name == qn:
                    chain.extend(stack + [ch])
                    return True
                if find(ch, prefix + ch.name + ".", stack + [ch]):
                    return True
            elif isinstance(ch, ast.ClassDef):
                if find(ch, prefix + ch.name + ".", stack):
                    return True
            elif isinstance(ch, (ast.If, ast.Try, ast.With, ast.For,
                                 ast.While)):
                if find(ch, prefix, stack):
                    return True
        return False
    if not find(tree, "", []):
        return 0
    fnode = chain[-1]
    if isinstance(fnode, ast.AsyncFunctionDef):
        return 0
    owner_cls = None
    if as_method:
        if len(chain) != 1 or not fnode.args.args or \
                fnode.args.args[0].arg != "self" or fnode.decorator_list:
            return 0
        for c in ast.walk(tree):
            if isinstance(c, ast.ClassDef) and fnode in c.body:
                owner_cls = c
        if owner_cls is None:
            return 0
    local_names = set()
    for f in chain:
        local_names |= _bound_names(f)
    declared = set()
    for n in ast.walk(fnode):
        if isinstance(n, (ast.Global, ast.Nonlocal)):
            declared |= set(n.names)
    existing = {n.id for n in ast.walk(tree) if isinstance(n, ast.Name)} | \
        {n.name for n in ast.walk(tree)
         if isinstance(n, (ast.FunctionDef, ast.ClassDef))}
    helpers = []
    count = [0]

    def eligible(e):
        if not isinstance(e, (ast.BinOp, ast.Call, ast.Compare, ast.BoolOp,
                              ast.Subscript, ast.IfExp, ast.Tuple, ast.List,
                              ast.ListComp, ast.UnaryOp)):
            return False
        loads = 0
        for n in ast.walk(e):
            if isinstance(n, (ast.Yield, ast.YieldFrom, ast.Await,
                              ast.NamedExpr, ast.Lambda, ast.Starred)):
                return False
            if isinstance(n, ast.GeneratorExp) and n is e:
                return False
            if isinstance(n, ast.Call) and isinstance(n.func, ast.Name) and \
                    n.func.id in ("super", "locals", "vars", "eval", "exec",
                                  "globals"):
                return False
            if isinstance(n, ast.Name) and isinstance(n.ctx, ast.Load):
                loads += 1
        return loads >= 2

    def free_locals(e):
        comp_bound = set()
        for n in ast.walk(e):
            if isinstance(n, ast.comprehension):
                for t in ast.walk(n.target):
                    if isinstance(t, ast.Name):
                        comp_bound.add(t.id)
        out = []
        for n in ast.walk(e):
            if isinstance(n, ast.Name) and isinstance(n.ctx, ast.Load) and \
                    n.id in local_names and n.id not in declared and \
                    n.id not in out:
                if n.id in comp_bound and n.id not in _bound_names(fnode):
                    continue
                out.append(n.id)
        return out

    def make(e):
        k = 0
        while True:
            name = "_xh_%s_%d" % (fnode.name.strip("_"), count[0] + k)
            if name not in existing:
                break
            k += 1
        existing.add(name)
        params = free_locals(e)
        if as_method:
            name = name.replace("_xh_", "_xm_")
            params = ["self"] + [p_ for p_ in params if p_ != "self"]
            h = ast.FunctionDef(
                name=name,
                args=ast.arguments(posonlyargs=[],
                                   args=[ast.arg(arg=p_) for p_ in params],
                                   kwonlyargs=[], kw_defaults=[], defaults=[]),
                body=[ast.Return(value=e)], decorator_list=[], type_params=[])
            helpers.append(h)
            count[0] += 1
            return ast.Call(
                func=ast.Attribute(value=ast.Name(id="self", ctx=ast.Load()),
                                   attr=name, ctx=ast.Load()),
                args=[ast.Name(id=p_, ctx=ast.Load()) for p_ in params[1:]],
                keywords=[])
        h = ast.FunctionDef(
            name=name,
            args=ast.arguments(posonlyargs=[], args=[ast.arg(arg=p_)
                                                     for p_ in params],
                               kwonlyargs=[], kw_defaults=[], defaults=[]),
            body=[ast.Return(value=e)], decorator_list=[], type_params=[])
        helpers.append(h)
        count[0] += 1
        return ast.Call(func=ast.Name(id=name, ctx=ast.Load()),
                        args=[ast.Name(id=p_, ctx=ast.Load())
                              for p_ in params], keywords=[])

    def walk_body(stmts):
        for st in stmts:
            if count[0] >= limit:
                return
            if isinstance(st, (ast.FunctionDef, ast.AsyncFunctionDef,
                               ast.ClassDef)):
                continue
            if isinstance(st, ast.Assign) and len(st.targets) == 1 and \
                    isinstance(st.targets[0], ast.Name) and eligible(st.value):
                st.value = make(st.value)
            elif isinstance(st, ast.Return) and st.value is not None and \
                    eligible(st.value):
                st.value = make(st.value)
            for field in ("body", "orelse", "finalbody"):
                sub = getattr(st, field, None)
                if isinstance(sub, list) and sub and \
                        isinstance(sub[0], ast.stmt):
                    walk_body(sub)
            for h in getattr(st, "handlers", []) or []:
                walk_body(h.body)
    walk_body(fnode.body)
    if not helpers:
        return 0
    if as_method:
        owner_cls.body.extend(helpers)
        return len(helpers)
    # after the leading imports / docstring of the module
    pos = 0
    for i, st in enumerate(tree.body):
        if isinstance(st, (ast.Import, ast.ImportFrom)) or (
                isinstance(st, ast.Expr) and isinstance(st.value, ast.Constant)):
            pos = i + 1
    tree.body[pos:pos] = helpers
    return len(helpers)


PER_FUNCTION_IN_MODULE = {
    "extract-helpers": extract_helpers,
    "extract-methods": extract_methods,
}
PER_FUNCTION = {
    "alias-params": alias_params,
    "rename-locals": rename_locals,
    "ifexp-to-if": ifexp_to_if,
    "flag-guards": flag_guards,
    "bind-returns": bind_returns,
    "mirror-compares": mirror_compares,
    "swap-branches": swap_branches,
}
PER_MODULE = {
    "extract-literals": extract_literals,
}


def private_attrs(repo):
    """Private instance attributes (`self._x = ...`) of the package's
    classes, excluding names that also occur in string literals (getattr,
    __slots__, ...) or as keyword names."""
    names = set()
    strings = set()
    for m in repo.modules.values():
        for n in ast.walk(ast.parse(m.source)):
            if isinstance(n, ast.Attribute) and isinstance(n.ctx, ast.Store) \
                    and isinstance(n.value, ast.Name) and n.value.id == "self" \
                    and n.attr.startswith("_") and not n.attr.startswith("__"):
                names.add(n.attr)
            elif isinstance(n, ast.Constant) and isinstance(n.value, str):
                strings.add(n.value)
            elif isinstance(n, ast.keyword) and n.arg:
                strings.add(n.arg)
    # attributes of library objects that happen to be private-looking
    # (nibabel's proxy._slope / _inter) are not ours to rename
    return sorted(a for a in names if a not in strings
                  and a not in ("_slope", "_inter"))


def _opaque(attr):
    import zlib
    return "_pa%x" % (zlib.crc32(attr.encode()) & 0xffff)


def rename_private_attr(tree, attr):
    n_ = 0
    for n in ast.walk(tree):
        if isinstance(n, ast.Attribute) and n.attr == attr:
            n.attr = _opaque(attr)
            n_ += 1
        elif isinstance(n, ast.ClassDef):
            for st in n.body:
                if isinstance(st, (ast.Assign, ast.AnnAssign)):
                    tg = st.targets if isinstance(st, ast.Assign) else [st.target]
                    for t in tg:
                        if isinstance(t, ast.Name) and t.id == attr:
                            t.id = _opaque(attr)
                            n_ += 1
    return n_


# ---------------------------------------------------------------------
def enumerate_tasks(ops):
    repo = Repo()
    tasks = []
    if "rename-private-attr" in ops:
        for a in private_attrs(repo):
            tasks.append(("rename-private-attr", None, a))
        ops = [o for o in ops if o != "rename-private-attr"]
    for mn, m in sorted(repo.modules.items()):
        tree = ast.parse(m.source)
        for op in ops:
            if op in PER_MODULE:
                t2 = copy.deepcopy(tree)
                if PER_MODULE[op](t2):
                    tasks.append((op, m.relpath, None))
            elif op in PER_FUNCTION_IN_MODULE:
                for qn, fnode in _functions(tree):
                    t2 = copy.deepcopy(tree)
                    if PER_FUNCTION_IN_MODULE[op](t2, qn):
                        tasks.append((op, m.relpath, qn))
            else:
                for qn, fnode in _functions(tree):
                    f2 = copy.deepcopy(fnode)
                    if PER_FUNCTION[op](f2):
                        tasks.append((op, m.relpath, qn))
    return tasks


def _run(args):
    op, relpath, qn, props, scratch = args
    from . import props as P
    d = tempfile.mkdtemp(prefix="b.", dir=scratch)
    try:
        shutil.copytree(os.path.join(repo_root(), "src"), os.path.join(d, "src"))
        if op == "rename-private-attr":
            import glob
            for path in glob.glob(os.path.join(d, "src", "**", "*.py"),
                                  recursive=True):
                tree = ast.parse(open(path).read())
                if rename_private_attr(tree, qn):
                    open(path, "w").write(ast.unparse(tree) + "\n")
        else:
            path = os.path.join(d, relpath)
            tree = ast.parse(open(path).read())
            if qn is None:
                PER_MODULE[op](tree)
            elif op in PER_FUNCTION_IN_MODULE:
                PER_FUNCTION_IN_MODULE[op](tree, qn)
            else:
                for q, fnode in _functions(tree):
                    if q == qn:
                        PER_FUNCTION[op](fnode)
            ast.fix_missing_locations(tree)
            open(path, "w").write(ast.unparse(tree) + "\n")
        alarms = []
        for prop in props:
            try:
                repo = Repo(d)
                col = Collector(prop)
                P.PROPS[prop].run(repo, col)
                known = load_known()
                viol = [o for o in col.obs if o.status == FAIL
                        and not match_known(prop, o, known)]
                for o in viol:
                    alarms.append((prop, o.rule, o.site, o.construct[:60]))
                fl = col.check_floors()
                if fl:
                    alarms.append((prop, "FLOOR", "", "; ".join(fl)[:100]))
            except AnalysisError as exc:
                alarms.append((prop, "ANALYSIS-ERROR", "", str(exc)[:120]))
            except Exception as exc:      # checker crash
                alarms.append((prop, "CRASH", "", "%s: %s" % (
                    type(exc).__name__, str(exc)[:100])))
        return (op, relpath, qn, alarms)
    finally:
        shutil.rmtree(d, ignore_errors=True)


def sweep(ops=None, props=None, jobs=16, limit=None, seed=0, modules=None):
    from . import props as P
    t0 = time.time()
    ops = ops or sorted(PER_FUNCTION) + sorted(PER_MODULE) + \
        sorted(PER_FUNCTION_IN_MODULE) + ["rename-private-attr"]
    props = props or sorted(P.PROPS)
    tasks = enumerate_tasks(ops)
    if modules is not None:
        rels = {"src/" + m.replace(".", "/") + ".py" for m in modules}
        tasks = [t for t in tasks if t[1] is None or t[1] in rels]
    if limit and len(tasks) > limit:
        step = len(tasks) / float(limit)
        tasks = sorted({tasks[int((i * step + seed) % len(tasks))]
                        for i in range(limit)}, key=str)
    scratch = tempfile.mkdtemp(prefix="ngs-benign.")
    try:
        with ProcessPoolExecutor(max_workers=max(1, jobs)) as ex:
            results = list(ex.map(_run, [t + (props, scratch) for t in tasks],
                                  chunksize=2))
    finally:
        shutil.rmtree(scratch, ignore_errors=True)
    bad = [r for r in results if r[3]]
    by_op = {}
    for op, rel, qn, alarms in results:
        d = by_op.setdefault(op, {"trees": 0, "alarming": 0})
        d["trees"] += 1
        d["alarming"] += 1 if alarms else 0
    return {"trees": len(results), "alarming": len(bad), "by_operator": by_op,
            "alarms": [{"op": r[0], "file": r[1], "function": r[2],
                        "alarms": [list(a) for a in r[3][:6]]} for r in bad],
            "wall_s": round(time.time() - t0, 1)}


def main(argv=None):
    ap = argparse.ArgumentParser()
    ap.add_argument("--jobs", type=int, default=16)
    ap.add_argument("--ops", default="")
    ap.add_argument("--props", default="")
    ap.add_argument("--limit", type=int, default=0)
    a = ap.parse_args(argv)
    res = sweep([o for o in a.ops.split(",") if o] or None,
                [p for p in a.props.split(",") if p] or None, a.jobs,
                a.limit or None)
    for r in res["alarms"]:
        print("%s %s %s" % (r["op"], r["file"], r["function"]))
        for al in r["alarms"]:
            print("    ", " | ".join(al))
    print("benign sweep: %d transformed trees, %d alarming, %s, %.1fs"
          % (res["trees"], res["alarming"], res["by_operator"], res["wall_s"]))
    return 1 if res["alarming"] else 0


if __name__ == "__main__":
    sys.exit(main())
