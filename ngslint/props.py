"""Property -> rules.  Each property check decides only the structural clauses
listed in `clauses`; `undecided` names what is out of this family's reach."""
from . import rules_axis as A
from . import rules_bound as B
from . import rules_dtype as D
from . import rules_exc as X
from . import rules_order as O
from . import rules_sib as SB
from . import rules_spec as SP
from . import rules_struct as S
from . import rules_tile as T
from . import rules_orient as OR
from . import rules_more as M
from . import rules_more2 as M2
from . import rules_more3 as M3, rules_more4 as M4, rules_more5 as M5
from .core import AnalysisError


class _Safe:
    """A rule module whose rules do not take the whole check down when the
    function they are anchored in has gone (renamed, turned into a class,
    moved under another name): that rule then says UNDECIDED - anchor
    vanished, the other rules of the property still decide what they can.
    Nothing is decided by name guessing."""

    def __init__(self, mod):
        self._mod = mod

    def __getattr__(self, name):
        f = getattr(self._mod, name)
        if not callable(f) or isinstance(f, type):
            return f
        label = "%s.%s" % (self._mod.__name__.rsplit(".", 1)[-1], name)

        def wrapped(*a, **k):
            col = a[1] if len(a) > 1 else k.get("col")
            try:
                return f(*a, **k)
            except AnalysisError as exc:
                if "anchor vanished" not in str(exc) or \
                        not hasattr(col, "add"):
                    raise
                col.add("E-ANCHOR", label, str(exc)[:120], True,
                        "the rule %s is anchored in code that no longer "
                        "exists under that name: it decides nothing on this "
                        "tree" % label, undecided=True)
                return None
        return wrapped


A, B, D, X, O, SB, SP, S, T, OR, M, M2, M3, M4, M5 = (
    _Safe(m_) for m_ in (A, B, D, X, O, SB, SP, S, T, OR, M, M2, M3, M4, M5))


class Spec:
    def __init__(self, pid, title, technique, level_text, clauses, undecided,
                 assumptions, runner):
        self.pid = pid
        self.title = title
        self.technique = technique
        self.level_text = level_text
        self.clauses = clauses
        self.undecided = undecided
        self.assumptions = assumptions
        self.runner = runner

    def run(self, repo, col):
        col.clauses = list(self.clauses)
        col.undecided_clauses = list(self.undecided)
        col.assumptions = list(self.assumptions)
        self.runner(repo, col)
        # rules every property shares, applied to its own anchor files
        anchors = anchor_modules(self.pid)
        if anchors:
            # the generic rules report inside the property's own mechanism:
            # the functions its anchors name and what they call
            from .scope import mechanism_closure
            from .report import Collector
            scope_keys = mechanism_closure(repo, self.pid)
            real, col = col, Collector(col.prop)
            # modules the reference tree does not have hold code that was
            # moved out of the anchor files: they are looked at as well
            # (still only inside the mechanism's closure)
            from .core import is_new_module
            anchors = list(anchors) + [
                m_.short for m_ in repo.modules.values()
                if m_.short not in anchors and is_new_module(m_.name)]
            # ... and the modules the mechanism's functions live in
            for k_ in sorted(scope_keys.keys):
                ms_ = k_.split(":", 1)[0]
                if ms_ not in anchors:
                    anchors.append(ms_)
            S.shared_mutable_state(repo, col, anchors)
            M2.swapped_arguments(repo, col, shorts=anchors)
            M3.little_endian_literals(repo, col, anchors)
            M4.optional_float_truthiness(repo, col, anchors)
            M4.crossed_parallel_assignment(repo, col, anchors)
            M4.one_shot_iterator_reuse(repo, col, anchors)
            M4.empty_array_fully_written(repo, col, anchors)
            M4.sibling_role_tokens(repo, col, anchors)
            M5.cache_key_complete(repo, col, anchors)
            M5.omitted_forward(repo, col, anchors)
            M5.index_plus_label_promotion(repo, col, anchors)
            M5.asarray_alias_inplace(repo, col, anchors)
            M5.unbuffered_write_unchecked(repo, col, anchors)
            M5.shift_beyond_width(repo, col, anchors)
            M5.temporary_state_used_after(repo, col, anchors)
            M5.deferred_error_checked(repo, col, anchors)
            M5.module_table_mutated(repo, col, anchors)
            M5.param_reordered_in_place(repo, col, anchors)
            M5.memory_order_dependent(repo, col, anchors)
            M5.one_sided_index_check(repo, col, anchors)
            M5.mutation_during_iteration(repo, col, anchors)
            M5.stale_loop_variable(repo, col, anchors)
            M5.identity_as_key(repo, col, anchors)
            M5.memo_invalidated(repo, col, anchors)
            M5.memoised_one_shot(repo, col, anchors)
            M5.shared_default_object_mutated(repo, col, anchors)
            for o in col.obs:
                ln = None
                if o.loc and o.loc.rsplit(":", 1)[-1].isdigit():
                    ln = int(o.loc.rsplit(":", 1)[-1])
                in_class = o.rule == "E-ATTR.shared-mutable" and any(
                    k_.startswith(o.site + ".") for k_ in scope_keys.keys)
                if scope_keys.covers(o.site, ln) or ":" not in o.site or \
                        o.site.split(":", 1)[1] in ("module", "") or in_class:
                    real.obs.append(o)
                    real.rule_counts[o.rule] = \
                        real.rule_counts.get(o.rule, 0) + 1
            col = real


_ANCHORS = {}


def anchor_modules(pid):
    """Module short names of the property's anchor files
    (properties.jsonl)."""
    if not _ANCHORS:
        import json
        import os
        from .report import VERIF
        try:
            for line in open(os.path.join(VERIF, "properties.jsonl")):
                rec = json.loads(line)
                mods = []
                for f in rec["anchors"]["files"]:
                    if f.startswith("src/neuroglancer_scripts/") and \
                            f.endswith(".py"):
                        mods.append(f[len("src/neuroglancer_scripts/"):-3]
                                    .replace("/", "."))
                _ANCHORS[rec["id"]] = mods
        except OSError:
            pass
    return _ANCHORS.get(pid, [])


PROPS = {}

COMMON = [
    "CPython's ast module parses the package as the interpreter would",
    "no monkey-patching / getattr-based dispatch in the analysed paths",
    "frozen tables printed in DESIGN.md (role-name conventions, array "
    "layouts, library effect table, exception hierarchy, format "
    "specifications) are correct",
]


def prop(pid, title, technique, clauses, undecided, assumptions=()):
    def deco(fn):
        text = ("Static analysis of /repo's current source (ast, CFG, def-use; "
                "nothing is executed). Decides these necessary structural "
                "clauses of the property, on every path / call site: "
                + "; ".join(clauses)
                + ". It does NOT establish the behavioural property itself; "
                "undecided (value-level) clauses: " + "; ".join(undecided) + ".")
        PROPS[pid] = Spec(pid, title, technique, text, clauses, undecided,
                          COMMON + list(assumptions), fn)
        return fn
    return deco


UNITS_INFO = [("volume_reader", "nibabel_image_to_info", "vs", 1e6),
              ("volume_reader", "nibabel_image_to_info", "affine", 1e6),
              ("volume_reader", "nibabel_image_to_precomputed", "resolution",
               1e-6)]


# ---------------------------------------------------------------------
@prop("C01", "Volume conversion preserves every voxel of the input image",
      "tiling-template matching on normalised index arithmetic, axis-role "
      "typing, CFG dominance, ownership paths, dtype-lattice interpretation",
      ["the full-resolution write loop tiles [0,size) exactly per axis and "
       "labels each chunk with its own bounds",
       "no index, slice, shape, coordinate tuple or file-name pattern on the "
       "path volume -> chunk -> write_chunk -> validation -> chunk name mixes "
       "two axes; XYZC -> CZYX is the axis reversal",
       "write_chunk validates coordinates before storing, encodes then stores",
       "the value converter rounds / clips / casts correctly for every "
       "(input, target) dtype pair and is safe on read-only / borrowed chunks",
       "RGB voxels are split into channels by field, in both conversion "
       "commands"],
      ["header slope/intercept and --input-min/max numerics (nibabel proxy "
       "semantics)", "per-value results of rounding and clipping",
       "memory-mapped vs full-load equality"],
      ["NumPy promotion / safe-cast / iinfo tables embedded in rules_dtype"])
def c01(repo, col):
    D.converter_option_sites(repo, col)
    M5.rescale_before_load(repo, col)
    M5.numpy_scalar_vs_int_bound(repo, col)
    A.check_modules(repo, col, ['_compressed_segmentation'])
    M4.round_clip_in_work_dtype(repo, col)
    M4.minishard_final_before_use(repo, col)
    M3.driver_chain(repo, col, shorts=["volume_reader"])
    M3.new_dataset_stores_info(repo, col)
    M3.payload_reaches_storage(repo, col)
    M3.squeeze_without_axis(repo, col, ["volume_reader"])
    M3.multichannel_table_agrees(repo, col)
    T.tiling_site(repo, col, "volume_reader", "volume_to_precomputed")
    T.coords_tuple(repo, col, "volume_reader", "volume_to_precomputed")
    n = A.check_modules(repo, col, ["volume_reader", "precomputed_io",
                                    "file_accessor"])
    A.moveaxis_reversal(repo, col)
    O.validation_dominates_io(repo, col)
    S.io_pass_through(repo, col)
    S.cast_before_write(repo, col, [("volume_reader", "volume_to_precomputed")])
    S.inplace_ownership(repo, col)
    S.copy_keyword_contract(repo, col)
    D.converter_lattice(repo, col)
    S.optional_zero(repo, col)
    S.rgb_split_idiom(repo, col)
    M.scaling_composition(repo, col)
    M2.loop_error_discipline(repo, col)
    M2.file_accessor_hazards(repo, col)
    M2.axis_arg_family(repo, col, ["volume_reader"])
    M2.declared_block_size(repo, col)     # codec state does not cross channels
    SP.cseg_layout(repo, col)
    # "whichever ... storage layout (... sharded)": buffered shards reach disk
    O.flush_chain(repo, col)
    M2.shard_lifecycle(repo, col)
    col.floor("E-TILE", 6)
    col.floor("E-AXIS", 22)
    col.floor("E-DTYPE.pair", 25)
    col.floor("E-OWN", 4)


@prop("C02", "compressed_segmentation output conforms to the Neuroglancer "
      "format",
      "format-specification table vs encoder and decoder expressions "
      "(normalised index polynomials), axis-role typing, CFG dominance",
      ["every layout constant and index expression of the encoder AND the "
       "decoder equals the published format (little-endian words, block "
       "header position 8*(x+gx*(y+gy*z)), 24-bit offset | bits<<24, widths "
       "{0,1,2,4,8,16,32}, value k at bit (k mod n)*bits, grid = ceil(extent/"
       "block), offsets in 32-bit words)",
       "block / grid arithmetic is axis-consistent (block sizes are XYZ, "
       "arrays ZYX)",
       "the 24-bit offset field is range-checked before packing"],
      ["lookup-table contents and sharing", "padding values",
       "a specification decoder's output on every label distribution"],
      ["compressed_segmentation format as published in the Neuroglancer "
       "repository"])
def c02(repo, col):
    M3.decoder_fills_output(repo, col)
    M3.encoder_dispatch(repo, col)
    M3.cseg_bit_order(repo, col)
    SP.cseg_layout(repo, col)
    A.check_modules(repo, col, ["_compressed_segmentation", "chunk_encoding"])
    O.cseg_field_guard(repo, col)
    S.io_pass_through(repo, col)
    M2.declared_block_size(repo, col)
    col.floor("E-SPEC.cseg", 15)
    col.floor("E-AXIS", 20)


@prop("C03", "Writing then reading a chunk returns the same array for "
      "lossless encodings",
      "CFG must-pass-through, guard-semantics of the validator, table "
      "agreement, axis-role typing",
      ["coordinate validation dominates every store and fetch",
       "the validator uses all six components, bounds the lower corner by 0 "
       "and the size, requires the chunk lattice and max = min(lo+cs, size)",
       "read_chunk / write_chunk always pass through fetch+decode / "
       "encode+store; encoders cast to the stored little-endian dtype on "
       "every path",
       "data-type tables agree; get_encoder covers every --encoding choice"],
      ["value round trips of each codec", "JPEG error bound",
       "interleavings of writes and reads"])
def c03(repo, col):
    M5.shift_beyond_width(repo, col, ['_compressed_segmentation'])
    M5.index_plus_label_promotion(repo, col, ['_compressed_segmentation'])
    M4.decode_ignores_write_options(repo, col)
    M3.decoder_fills_output(repo, col)
    M3.encoder_dispatch(repo, col)
    M3.new_dataset_stores_info(repo, col)
    M3.payload_reaches_storage(repo, col, only=["file_accessor", "precomputed_io"])
    O.validation_dominates_io(repo, col)
    B.validator_complete(repo, col)
    B.validator_same_entry(repo, col)
    S.io_pass_through(repo, col)
    SB.data_type_tables(repo, col)
    A.check_modules(repo, col, ["precomputed_io", "chunk_encoding", "_jpeg",
                                "_compressed_segmentation"])
    X.decoded_shape(repo, col)
    S.read_config_independence(repo, col)
    SP.cseg_layout(repo, col)
    M2.declared_block_size(repo, col)
    col.floor("E-BOUND.validator", 6)
    col.floor("E-ORDER", 4)
    col.floor("E-SIB.tables", 4)


@prop("C04", "Sharded output is readable by any reader that follows the "
      "sharded format",
      "format-specification table vs writer / reader expressions, CFG "
      "ordering on the file handle, dataflow of stored payloads",
      ["shard index entries are '<Q' pairs relative to the end of the index",
       "the entry of minishard m is placed at slot m",
       "minishard index rows are (id delta, offset delta, size), uint64, "
       "transposed on write and addressed as [i], [n+i], [2n+i] on read",
       "shard file name = lower-case hex padded to ceil(shard_bits/4) + "
       "'.shard'; shard / minishard numbers are the prescribed bit ranges",
       "zero placeholder first, shard index written last",
       "every payload reaching a shard passed the data encoder"],
      ["strictly increasing ids and non-overlapping byte ranges (products of "
       "the reorder buffer's run-time state)", "gzip payload validity"],
      ["sharded v1 format as published in the Neuroglancer repository"])
def c04(repo, col):
    M5.sharding_spec_keys(repo, col)
    S.protocol_conformance(repo, col)
    O.flush_chain(repo, col)
    M4.minishard_final_before_use(repo, col)
    M4.lowercase_hex_names(repo, col)
    M5.gzip_framing(repo, col)
    M5.index_bytes_use_index_codec(repo, col)
    M5.measured_is_written(repo, col)
    M3.payload_reaches_storage(repo, col, only=["sharded_file_accessor", "sharded_base"])
    SP.sharded_layout(repo, col)
    SP.routing_bits(repo, col)
    O.shard_index_last(repo, col)
    S.minishard_encode_before_park(repo, col)
    M.shard_close_sequence(repo, col)
    M2.shard_lifecycle(repo, col)
    M2.shard_protocol_guards(repo, col)
    M2.shard_name_format_spec(repo, col)
    col.floor("E-SPEC.sharded", 9)
    col.floor("E-ORDER.index-last", 2)


@prop("C05", "Sharded storage returns what was stored, whatever the order of "
      "writes",
      "protocol-conformance of drop-in classes, attribute def-use across the "
      "class hierarchy, CFG typestate (flush chain, drain loop), bit-range "
      "templates",
      ["every operation applied to the write buffers is explicitly provided "
       "by both the in-memory and the on-disk implementation (arity included)"
       "; detached drop-ins are never seeded through the inherited "
       "constructor",
       "accessor.close -> every scale -> every shard -> every minishard, "
       "unconditionally; atexit registration; close() drains the reorder "
       "buffer with zero-length fillers at the next expected id",
       "next expected id varies exactly the non-routing bits",
       "lookup maps consulted on fetch are filled by the same class; unused "
       "(empty) minishards are skipped by the reader",
       "no mutable container shared between instances"],
      ["order-independence and byte-identity across write orders (histories "
       "of a stateful buffer)", "content of data written by the on-disk "
       "byte array"])
def c05(repo, col):
    M4.minishard_final_before_use(repo, col)
    M5.index_bytes_use_index_codec(repo, col)
    M5.measured_is_written(repo, col)
    M3.seek_before_read(repo, col)
    M4.legacy_seek_rebased(repo, col)
    M3.payload_reaches_storage(repo, col, only=["sharded_file_accessor", "sharded_base"])
    M3.dirty_cleared_after_write(repo, col)
    sh = ["sharded_base", "sharded_file_accessor", "sharded_http_accessor"]
    S.protocol_conformance(repo, col)
    O.flush_chain(repo, col)
    O.minishard_drain(repo, col)
    SP.routing_bits(repo, col)
    S.populated_before_lookup(repo, col, sh)
    S.shared_mutable_state(repo, col, sh)
    S.empty_minishard_guard(repo, col)
    S.minishard_encode_before_park(repo, col)
    O.exit_order(repo, col)
    M.shard_close_sequence(repo, col)
    M2.shard_lifecycle(repo, col)
    M2.shard_protocol_guards(repo, col)
    M2.module_level_caches(repo, col, sh)
    SP.sharded_layout(repo, col, parts=("index", "name", "no-slot"))
    col.floor("E-PROTO", 7)
    col.floor("E-ORDER", 7)
    col.floor("E-ATTR.populated", 3)


@prop("C06", "Each pyramid level equals the whole previous level downscaled "
      "once",
      "octant-table and tiling-template matching, CFG dominance of raising "
      "guards, axis-role typing",
      ["the new-grid loop and the old-chunk loader tile their scales exactly",
       "the eight octant copies exist exactly once and each is consistent: "
       "high half <=> +1 old-chunk index <=> shape guard on that axis",
       "raising guards on scale factors and on chunk-size compatibility "
       "dominate the chunk loop",
       "levels are processed i -> i+1 over all transitions; sharded output "
       "is flushed between levels",
       "no expression mixes two axes"],
      ["the downscaler's values", "that the scale generator only emits "
       "compatible scale pairs"])
def c06(repo, col):
    M5.scale_pair_consistent(repo, col)
    M4.pad_after_promotion(repo, col)
    M3.driver_chain(repo, col, shorts=["dyadic_pyramid", "scripts.compute_scales"])
    M3.downscaler_dispatch(repo, col)
    T.tiling_site(repo, col, "dyadic_pyramid", "compute_dyadic_downscaling")
    T.coords_tuple(repo, col, "dyadic_pyramid", "compute_dyadic_downscaling")
    _top, helpers = T.pyramid_sites(repo)
    for h in helpers:
        T.tiling_site(repo, col, None, None, require_count=False, fn=h)
        T.coords_tuple(repo, col, None, None, fn=h)
    T.octants(repo, col)
    O.pyramid_guards(repo, col)
    O.level_driver(repo, col)
    D.averaging_accumulator(repo, col)
    S.downscaler_templates(repo, col)
    M.pyramid_factor_templates(repo, col)
    M2.loop_error_discipline(repo, col)
    M2.axis_arg_family(repo, col, ["dyadic_pyramid"])
    A.check_modules(repo, col, ["dyadic_pyramid", "downscaling"])
    col.floor("E-TILE", 15)
    col.floor("E-AXIS", 50)
    col.floor("E-ORDER", 3)


@prop("C07", "Downscalers compute the documented block statistic exactly",
      "dtype-lattice interpretation of the accumulator and converter, "
      "template matching, axis-role typing",
      ["the averaging accumulator is wide enough for the exact sum of an "
       "8-voxel block of every Neuroglancer type and the result returns "
       "through the round-half-even / saturating converter",
       "majority = labels[argmax(counts)] of np.unique (ties -> smallest "
       "label); striding = first voxel; unsupported factors raise",
       "the outside value is tested with `is None` (0 is a valid value)",
       "output shape arithmetic and strides use each axis' own factor"],
      ["the means themselves", "padding values at borders"],
      ["NumPy promotion tables embedded in rules_dtype",
       "np.unique returns sorted labels; np.argmax returns the first maximum"])
def c07(repo, col):
    D.converter_option_sites(repo, col)
    M5.numpy_scalar_vs_int_bound(repo, col)
    M4.round_clip_in_work_dtype(repo, col)
    M4.pad_after_promotion(repo, col)
    M3.downscaler_dispatch(repo, col)
    D.averaging_accumulator(repo, col)
    # the averaged float64 values go back through the converter
    D.converter_lattice(repo, col, in_types=["f8", "f4"])
    S.downscaler_templates(repo, col)
    S.optional_zero(repo, col)
    A.check_modules(repo, col, ["downscaling"])
    col.floor("E-DTYPE", 7)
    col.floor("E-AXIS", 10)


@prop("C09", "Chunk identifiers and shard routing follow the specification "
      "for every grid",
      "guard semantics (strictness), bit-range templates, loop-shape "
      "template",
      ["grid coordinates are rejected unless 0 <= coord < grid size "
       "(strict) and lower corners unless multiples of the chunk size",
       "masks cover the prescribed low bits; shard / minishard numbers are "
       "the prescribed ranges of the pre-shifted id",
       "Morton loop: bit index outer, x,y,z inner, axis contributes bit i "
       "only while 2**i < grid size",
       "shard file name = hex padded to ceil(shard_bits/4)"],
      ["injectivity over all grids (follows from the loop shape, not "
       "separately proved)", "NumPy uint64 shift semantics for widths >= 64"],
      ["NumPy defines uint64 shifts by >= 64 as 0"])
def c09(repo, col):
    M5.sharding_spec_keys(repo, col)
    M5.cmc_entry_nonneg(repo, col)
    M4.lowercase_hex_names(repo, col, shorts=('sharded_base',))
    B.strict_morton_bound(repo, col)
    B.morton_nonneg(repo, col)
    B.cmc_lattice(repo, col)
    SP.routing_bits(repo, col)
    SP.morton_loop(repo, col)
    SP.sharded_layout(repo, col, parts=("name",))
    M2.shard_name_format_spec(repo, col)
    A.check_modules(repo, col, ["sharded_base"])
    M2.module_level_caches(repo, col, ["sharded_base"])
    S.shared_mutable_state(repo, col, ["sharded_base"])
    col.floor("E-BOUND", 3)
    col.floor("E-SPEC", 10)


@prop("C10", "Decoders never misbehave on malformed chunk data",
      "exception-flow analysis with partial-operation discharge (taint, "
      "dominating guards, finite value sets) over the decoder call graph",
      ["every operation that is partial on untrusted chunk bytes "
       "(struct.unpack*, frombuffer, reshape, table indexing, division, PIL "
       "open/load, assert) is discharged by a converting try, a dominating "
       "length guard, a size-by-construction argument or a finite value set",
       "explicit raises in decoder-reachable code are InvalidFormatError only",
       "no loop extent or while-condition in decoder-reachable code is "
       "untrusted and unbounded",
       "every decode() return path yields an array allocated/reshaped with "
       "the requested (C, Z, Y, X) shape"],
      ["valid data is never rejected", "sufficiency of the arithmetic inside "
       "each length guard", "shape agreement of array slice stores"],
      ["library effect table: struct.unpack*/struct.error, "
       "numpy.frombuffer/ValueError, reshape/ValueError, "
       "array[index]/IndexError, //,%/ZeroDivisionError, "
       "PIL.Image.open/Exception, numpy.asarray(PIL image)/OSError,"
       "ValueError,SyntaxError,DecompressionBombError",
       "slicing, len, min/max, integer arithmetic, io.BytesIO, numpy.empty "
       "with trusted shape are total",
       "x[:n] of an array with at least n elements has exactly n elements"])
def c10(repo, col):
    M4.jpeg_pixel_type_checked(repo, col)
    M3.decoder_fills_output(repo, col)
    M3.encoder_dispatch(repo, col)
    M3.pil_truncation_switch(repo, col)
    X.decoder_scope(repo, col, "chunks")
    X.decoded_shape(repo, col)
    # the decoder's length guards and block slices pair chunk extents with
    # block sizes per axis: a mis-paired axis rejects valid data or lets a
    # short file through to struct
    A.check_modules(repo, col, ["_compressed_segmentation"])
    col.floor("E-EXC.A", 12)
    col.floor("E-EXC.shape", 2)


@prop("C11", "Data-type conversion rounds to nearest and saturates, never "
      "wraps",
      "exhaustive interpretation of the converter's source over the finite "
      "NumPy dtype lattice (50 pairs); path-sensitive ownership analysis",
      ["for every (input, Neuroglancer target) pair: rounding when a float "
       "meets an integer target, clipping when the input range exceeds the "
       "target's, bounds = target limits and exactly representable in the "
       "work type, work type holds every input value, final cast",
       "in-place operations only on an owned copy or a buffer checked "
       "writeable; never on the caller's array when it must be preserved",
       "np.array(copy=...) is never given a value that can be False"],
      ["behaviour on individual half-integers (np.rint is documented "
       "half-to-even)", "strided inputs"],
      ["NumPy promotion / safe-cast / iinfo tables embedded in rules_dtype"])
def c11(repo, col):
    D.converter_option_sites(repo, col)
    M5.numpy_scalar_vs_int_bound(repo, col)
    M4.round_clip_in_work_dtype(repo, col)
    D.converter_lattice(repo, col)
    S.inplace_ownership(repo, col)
    S.copy_keyword_contract(repo, col)
    col.floor("E-DTYPE.pair", 25)
    col.floor("E-OWN", 4)


@prop("C12", "File storage returns the latest stored bytes under every "
      "layout option",
      "sibling agreement of accessor implementations, CFG dominance of "
      "confinement guards, attribute def-use",
      ["a relative-path confinement check on the joined path dominates every "
       "file-system access of file_exists / fetch_file / store_file in both "
       "local accessors",
       "every write-open depends on `overwrite` (or an existence check "
       "dominates); the refusal covers both spellings of a name",
       ".gz names are <name> + '.gz', opened with gzip.open and only those",
       "read methods do not depend on the write configuration and probe "
       "every pattern / suffix a writer can produce",
       "chunk-name patterns are axis-consistent; options reach FileAccessor"],
      ["last-write-wins over operation histories", "gzip stream validity"])
def c12(repo, col):
    M5.store_creates_parents(repo, col)
    M5.percent_decoding_only_for_file_urls(repo, col)
    M4.delete_guard_excludes_open(repo, col)
    M3.chunk_name_component_order(repo, col)
    M3.payload_reaches_storage(repo, col, only=["file_accessor"])
    M3.gzip_branch_polarity(repo, col)
    M3.write_open_truncates(repo, col)
    SB.confinement(repo, col)
    SB.overwrite_and_gzip(repo, col)
    S.read_config_independence(repo, col)
    SB.accessor_options_plumbing(repo, col)
    M2.file_accessor_hazards(repo, col)
    M2.no_content_cache(repo, col)
    M2.strip_charset_misuse(repo, col)
    A.check_modules(repo, col, ["file_accessor", "http_accessor"])
    col.floor("E-SIB", 12)
    col.floor("E-ATTR", 4)


@prop("C13", "Re-encoding a dataset preserves its voxels exactly for "
      "lossless targets",
      "tiling-template matching, dataflow of the conversion loop, who-may-"
      "call on the source, ownership analysis, CFG typestate of the flush",
      ["the conversion loop tiles every destination scale exactly and reads "
       "and writes each chunk under the same key and coordinates",
       "each written chunk derives from transformer(read_chunk(...)); the "
       "source is only read",
       "the converter never writes in place into the decoded (read-only) "
       "buffer",
       "a sharded destination is flushed: atexit registration and complete "
       "flush chain"],
      ["decoded equality of source and destination", "remote sources"])
def c13(repo, col):
    M5.numpy_scalar_vs_int_bound(repo, col)
    S.protocol_conformance(repo, col)
    M4.round_clip_in_work_dtype(repo, col)
    M4.legacy_seek_rebased(repo, col)
    M4.convert_all_chunk_sizes(repo, col)
    M3.driver_chain(repo, col, shorts=["scripts.convert_chunks"])
    M3.new_dataset_stores_info(repo, col)
    M3.payload_reaches_storage(repo, col)
    T.tiling_site(repo, col, "scripts.convert_chunks",
                  "convert_chunks_for_scale")
    T.coords_tuple(repo, col, "scripts.convert_chunks",
                   "convert_chunks_for_scale")
    A.check_modules(repo, col, ["scripts.convert_chunks"])
    S.convert_loop_flow(repo, col)
    S.cast_before_write(repo, col, [("scripts.convert_chunks",
                                     "convert_chunks_for_scale")])
    S.inplace_ownership(repo, col)
    S.copy_keyword_contract(repo, col)
    O.flush_chain(repo, col)
    O.minishard_drain(repo, col)
    M5.index_bytes_use_index_codec(repo, col)
    M5.measured_is_written(repo, col)
    O.exit_order(repo, col)
    M.copy_info_handling(repo, col)
    M2.loop_error_discipline(repo, col)
    M2.shard_lifecycle(repo, col)
    M2.declared_block_size(repo, col)
    SP.cseg_layout(repo, col)
    M2.axis_arg_family(repo, col, ["scripts.convert_chunks"])
    M2.file_accessor_hazards(repo, col)
    col.floor("E-TILE", 6)
    col.floor("E-ORDER", 7)


@prop("C14", "Reading over HTTP gives the same bytes as reading the files "
      "locally",
      "attribute def-use across the class hierarchy, exception-flow at I/O "
      "call sites, CFG must-pass-through, sibling agreement of dispatch",
      ["the map consulted on fetch is filled by the same class; no container "
       "is shared between accessor instances",
       "HttpAccessor converts every requests failure incl. raise_for_status "
       "to DataAccessError; content is returned only after the status check",
       "Range replies are length-checked on every path; legacy offsets are "
       "rebased exactly once",
       "file and http branches decide 'sharded' with one predicate on the "
       "fetched info; URL pattern shared with flat files"],
      ["byte equality with local reads", "server behaviours beyond status "
       "and length"])
def c14(repo, col):
    M5.sharding_spec_keys(repo, col)
    M5.vacuous_all_in_predicate(repo, col)
    M4.sibling_accessors_same_location(repo, col)
    M4.nonempty_range_before_read(repo, col)
    M4.lowercase_hex_names(repo, col)
    M3.seek_before_read(repo, col)
    M4.legacy_seek_rebased(repo, col)
    M3.probe_statuses(repo, col)
    M3.legacy_suffix_polarity(repo, col)
    M2.shard_protocol_guards(repo, col)
    sh = ["sharded_base", "sharded_http_accessor", "http_accessor"]
    S.populated_before_lookup(repo, col, sh)
    S.shared_mutable_state(repo, col, sh)
    SB.accessor_io_errors(repo, col)
    SB.http_content_after_status(repo, col)
    SB.dispatch_agreement(repo, col)
    M.sharded_http_urls(repo, col)
    M2.no_content_cache(repo, col)
    M2.module_level_caches(repo, col, sh)
    M2.strip_charset_misuse(repo, col)
    S.empty_minishard_guard(repo, col)
    A.check_modules(repo, col, ["http_accessor"])
    col.floor("E-EXC.B", 12)
    col.floor("E-SIB.dispatch", 5)


@prop("C15", "Slice stacks are assembled with the requested anatomical "
      "orientation",
      "exhaustive evaluation of literal tables and of the axis-label algebra "
      "of the flip/moveaxis statements over all 48 codes; tiling templates; "
      "negative-step slice rule",
      ["orientation tables equal the RAS+ convention for all 48 codes",
       "for every code the flips and the axis move place input column / row "
       "/ slice on the anatomical axis the code names, with the sign it "
       "names (evaluated symbolically on axis labels, 48/48)",
       "row / column / slice-group tiling is exact; chunks are labelled "
       "with their own bounds",
       "a reversed slice window maps its stop to None when it reaches slice "
       "0"],
      ["pixel values", "image loading by scikit-image"],
      ["numpy.moveaxis / basic slicing semantics on axis labels as modelled "
       "in rules_orient"])
def c15(repo, col):
    M5.index_space_agreement(repo, col)
    M3.driver_chain(repo, col, shorts=["scripts.slices_to_precomputed"])
    M3.squeeze_without_axis(repo, col, ["scripts.slices_to_precomputed"])
    S.orientation_tables(repo, col)
    OR.orientation_semantics(repo, col)
    T.tiling_site(repo, col, "scripts.slices_to_precomputed",
                  "slices_to_raw_chunks")
    T.coord_pairs(repo, col, "scripts.slices_to_precomputed",
                  "slices_to_raw_chunks", "input_coords")
    B.negative_step_slices(repo, col)
    A.check_modules(repo, col, ["scripts.slices_to_precomputed"])
    M2.axis_arg_family(repo, col, ["scripts.slices_to_precomputed"])
    M2.loop_error_discipline(repo, col)
    S.inplace_ownership(repo, col)
    col.floor("E-TABLE.orientation", 7)
    col.floor("E-ORIENT", 24)
    col.floor("E-TILE", 6)


@prop("C16", "Generated metadata and transform place the image correctly in "
      "space",
      "template matching of the transform arithmetic, literal unit factors",
      ["mm <-> nm literals are 1e6 / 1e-6",
       "column k of the transform is affine column k over voxel size k; "
       "translation in nm; size = shape[:3]; channels = shape[3] or 1",
       "half-voxel compensation is translation -= R . (0.5 voxel) with the "
       "matrix on the left"],
      ["the relation for every affine", "JSON round trip of the compact URL "
       "form", "adequacy of the guessed data type"])
def c16(repo, col):
    M3.resolution_from_affine(repo, col)
    M3.multichannel_table_agrees(repo, col)
    S.unit_literals(repo, col, UNITS_INFO)
    SP.half_voxel(repo, col)
    M.compact_json(repo, col)
    M2.cosines_vectorised(repo, col)
    col.floor("E-SPEC.transform", 4)
    col.floor("E-TABLE.units", 2)


@prop("C17", "Mesh files follow the formats Neuroglancer reads and survive a "
      "round trip",
      "format table vs writer / reader, exception-flow with discharge on the "
      "reader, guard strictness, path condition of the winding flip",
      ["writer and reader use '<I' count, '<f' vertices (n,3), '<I' "
       "triangles (m,3), C order",
       "every partial operation of the reader on file bytes is discharged; "
       "only InvalidMeshDataError is raised",
       "triangle indices must be strictly below the vertex count",
       "winding is flipped along axis 1 exactly when det(R) < 0",
       "mm -> nm factor 1e6; fragment link name and JSON shape"],
      ["VTK grammar conformance", "vertex values after arbitrary affines"])
def c17(repo, col):
    M5.float_scale_factor(repo, col)
    B.reduction_with_initial_guard(repo, col)
    M4.no_inplace_on_arguments(repo, col, "mesh", "affine_transform_mesh",
                               ["vertices", "triangles"])
    M3.driver_chain(repo, col, shorts=["scripts.mesh_to_precomputed"])
    M3.label_parsed_as_integer(repo, col)
    SP.mesh_formats(repo, col)
    X.decoder_scope(repo, col, "mesh")
    B.strict_mesh_bound(repo, col)
    S.unit_literals(repo, col, [("scripts.mesh_to_precomputed",
                                 "mesh_file_to_precomputed", "points", 1e6)])
    M.vtk_grammar(repo, col)
    M.mesh_conversion(repo, col)
    M2.mesh_unit_unconditional(repo, col)
    M2.loop_error_discipline(repo, col)
    col.floor("E-SPEC.mesh", 9)
    col.floor("E-EXC.A", 4)


@prop("C18", "I/O failures and interrupted writes never yield silently wrong "
      "data",
      "exception-flow at every I/O call site of the accessors, handler "
      "analysis, CFG ordering on the shard file handle",
      ["every I/O call of FileAccessor / HttpAccessor is inside a try that "
       "converts all its exceptions (incl. EOFError / zlib.error of gzip "
       "reads) to DataAccessError",
       "no handler around I/O in the sharded code swallows or re-labels the "
       "error; store handlers always raise and never delete the target",
       "HTTP content is returned only after the status check",
       "the shard index is written last over a zero placeholder"],
      ["atomicity of plain chunk files (there is none: detection relies on "
       "the decoders, C10)", "behaviour under each errno"])
def c18(repo, col):
    M4.delete_guard_excludes_open(repo, col)
    M4.gzip_wrapper_owns_file(repo, col)
    M3.probe_statuses(repo, col)
    M3.driver_chain(repo, col)
    M3.payload_reaches_storage(repo, col)
    M3.pil_truncation_switch(repo, col)
    M3.dirty_cleared_after_write(repo, col)
    M3.new_dataset_store_failure(repo, col)
    SB.accessor_io_errors(repo, col)
    SB.http_content_after_status(repo, col)
    O.shard_index_last(repo, col)
    M2.file_accessor_hazards(repo, col)
    M2.loop_error_discipline(repo, col)
    col.floor("E-EXC.B", 15)
    col.floor("E-ORDER.index-last", 2)


@prop("C19", "All-in-one conversion equals the step-by-step pipeline and "
      "steps are repeatable",
      "sibling agreement of two call sequences (stage order, parameter "
      "origins traced to CLI defaults), handler analysis of drivers",
      ["the all-in-one command runs the stages of the documented step "
       "sequence in the same order, including the RGB split",
       "every value-affecting stage parameter is fed from the same-named "
       "option, or left at a default equal to the other program's",
       "every error handler of a driver ends in a non-zero return or raise; "
       "main passes the status on",
       "chunk writes overwrite by default, file writes refuse; read/write "
       "always pass through the codec"],
      ["equality of the two outputs", "idempotence of repeated steps"])
def c19(repo, col):
    M3.write_open_truncates(repo, col)
    # the all-in-one command and the separate steps share volume_reader
    M5.omitted_forward(repo, col, ['volume_reader'])
    M5.suppressing_context_in_main(repo, col)
    M4.convert_all_chunk_sizes(repo, col)
    M3.driver_chain(repo, col)
    M3.new_dataset_stores_info(repo, col)
    M3.payload_reaches_storage(repo, col)
    M3.all_in_one_info_edits(repo, col)
    M3.new_dataset_store_failure(repo, col)
    SB.pipeline_composition(repo, col)
    S.exit_status(repo, col)
    SB.overwrite_and_gzip(repo, col)
    M.new_dataset_defaults(repo, col)
    M2.loop_error_discipline(repo, col)
    M2.file_accessor_hazards(repo, col)
    O.flush_chain(repo, col)
    O.exit_order(repo, col)
    S.io_pass_through(repo, col)
    scripts = [m.short for m in repo.modules.values()
               if m.short.startswith("scripts.") and m.short != "scripts"]
    S.shared_mutable_state(repo, col, scripts + ["volume_reader",
                                                 "precomputed_io"])
    col.floor("E-SIB.pipeline", 6)
    col.floor("E-EXIT", 6)


@prop("C20", "Reported statistics match the dataset that is actually "
      "produced",
      "tiling-count template shared with the writers, literal tables",
      ["chunks per axis = ceil(size / chunk_size), total = product, bytes = "
       "prod(size) * itemsize * channels, totals accumulate from zero on "
       "each call",
       "IEC prefixes are consecutive powers of 1024",
       "no state shared between calls"],
      ["readable_count's digit / width promise (arithmetic over format())"])
def c20(repo, col):
    M4.convert_all_chunk_sizes(repo, col)
    M5.scale_pair_consistent(repo, col)
    M5.remainder_any(repo, col)
    M4.readable_count_format_types(repo, col)
    M3.driver_chain(repo, col, shorts=["scripts.scale_stats"])
    M3.stats_bytes_include_channels(repo, col)
    T.count_formula(repo, col)
    M2.stats_accumulation_nesting(repo, col)
    S.iec_prefixes(repo, col)
    S.shared_mutable_state(repo, col, ["scripts.scale_stats", "utils"])
    col.floor("E-TILE.stats", 2)
    col.floor("E-TABLE.iec", 3)
