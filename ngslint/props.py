"""Property -> rules.  Each property check decides only the structural clauses
listed in `clauses`; `undecided` names what is out of this family's reach."""
from . import rules_bound as B
from . import rules_order as O
from . import rules_exc as X


class Spec:
    def __init__(self, pid, title, technique, level_text, clauses, undecided,
                 assumptions, runner):
        self.pid = pid
        self.title = title
        self.technique = technique
        self.level_text = level_text
        self.clauses = clauses
        self.undecided = undecided
        self.assumptions = assumptions
        self.runner = runner

    def run(self, repo, col):
        col.clauses = list(self.clauses)
        col.undecided_clauses = list(self.undecided)
        col.assumptions = list(self.assumptions)
        self.runner(repo, col)


PROPS = {}


def prop(pid, title, technique, clauses, undecided, assumptions=()):
    def deco(fn):
        text = ("Static analysis of /repo's current source (ast, CFG, def-use; "
                "nothing is executed). Decides these necessary structural "
                "clauses of the property, on every path / call site: "
                + "; ".join(clauses)
                + ". It does NOT establish the behavioural property itself; "
                "undecided (value-level) clauses: " + "; ".join(undecided) + ".")
        PROPS[pid] = Spec(pid, title, technique, text, clauses, undecided,
                          list(assumptions), fn)
        return fn
    return deco


COMMON_ASSUME = [
    "CPython's ast module parses the package as the interpreter would",
    "no monkey-patching / getattr-based dispatch in the analysed paths",
]


@prop("C10", "Decoders never misbehave on malformed chunk data",
      "exception-flow analysis with partial-operation discharge (taint, "
      "dominating guards, finite value sets) over the decoder call graph",
      ["every operation that is partial on untrusted chunk bytes "
       "(struct.unpack*, frombuffer, reshape, table indexing, division, PIL "
       "open/load, assert) is discharged by a converting try, a dominating "
       "length guard, a size-by-construction argument or a finite value set",
       "explicit raises in decoder-reachable code are InvalidFormatError only",
       "no loop extent or while-condition in decoder-reachable code is "
       "untrusted and unbounded",
       "every decode() return path yields an array allocated/reshaped with "
       "the requested (C, Z, Y, X) shape"],
      ["valid data is never rejected", "sufficiency of the arithmetic inside "
       "each length guard", "shape agreement of array slice stores"],
      COMMON_ASSUME + [
          "library effect table: struct.unpack*/struct.error, "
          "numpy.frombuffer/ValueError, reshape/ValueError, "
          "array[index]/IndexError, //,%/ZeroDivisionError, "
          "PIL.Image.open/Exception, numpy.asarray(PIL image)/OSError,"
          "ValueError,SyntaxError,DecompressionBombError",
          "slicing, len, min/max, integer arithmetic, io.BytesIO, numpy.empty "
          "with trusted shape are total",
          "x[:n] of an array with at least n elements has exactly n elements",
      ])
def c10(repo, col):
    n = X.decoder_scope(repo, col, "chunks")
    X.decoded_shape(repo, col)
    col.floor("E-EXC.A", 25)
    col.floor("E-EXC.shape", 3)
