"""Systematic single-site mutation sweep (thorough tier, informational).

Generic AST mutation operators are applied, one site at a time, to the
modules a property's check consults (scratch copies only; parsed and analysed,
never executed).  The sweep measures how many of these single-site changes the
property's rules report.  Survivors are listed in the evidence: most are
value-level or equivalent mutants, which this family does not decide - the
list is there so that the reach of the rules is on record, not hidden.
The sweep never changes the exit status of a check."""
import ast
import copy
import os
import shutil
import tempfile
import time
from concurrent.futures import ProcessPoolExecutor

from .core import Repo, repo_root, AnalysisError, PKG, norm
from .report import Collector, load_known, match_known, FAIL, UNDECIDED

XYZ_NAMES = {"size", "chunk_size", "block_size", "downscaling_factors",
             "half_chunk", "chunk_fetch_factor", "old_size", "new_size",
             "old_chunk_size", "new_chunk_size", "input_size",
             "input_chunk_size", "input_axis_inversions", "grid_coords"}


def _sites(tree):
    """[(operator, node path index, description)] for one module."""
    sites = []
    for idx, node in enumerate(ast.walk(tree)):
        if isinstance(node, ast.Subscript) and isinstance(node.slice, ast.Constant) \
                and node.slice.value in (0, 1, 2) and not isinstance(
                    node.slice.value, bool):
            base = norm(node.value)
            if base.split(".")[-1] in XYZ_NAMES or base.endswith(".shape"):
                sites.append(("axis-index", idx, "%s[%d] -> [%d]" % (
                    base, node.slice.value, (node.slice.value + 1) % 3)))
        elif isinstance(node, ast.Compare) and len(node.ops) == 1 and \
                isinstance(node.ops[0], (ast.Lt, ast.LtE, ast.Gt, ast.GtE)):
            sites.append(("strictness", idx, norm(node)[:50]))
        elif isinstance(node, ast.BinOp) and isinstance(node.op, (ast.Add, ast.Sub)) \
                and isinstance(node.right, ast.Constant) and node.right.value == 1:
            sites.append(("drop-one", idx, norm(node)[:50]))
        elif isinstance(node, ast.ExceptHandler) and node.type is not None:
            sites.append(("narrow-handler", idx, "except %s" % norm(node.type)))
        elif isinstance(node, ast.If) and node.body and \
                isinstance(node.body[-1], ast.Raise) and not node.orelse:
            sites.append(("drop-guard", idx, "if %s: raise" % norm(node.test)[:40]))
        elif isinstance(node, ast.Assert):
            sites.append(("drop-assert", idx, norm(node)[:50]))
        elif isinstance(node, ast.Expr) and isinstance(node.value, ast.Call):
            nm = norm(node.value.func)
            if not nm.startswith(("logger.", "logging.", "print", "tqdm.",
                                  "progress_bar.", "parser.", "group.")):
                sites.append(("drop-call", idx, norm(node)[:50]))
        elif isinstance(node, ast.Constant) and isinstance(node.value, str) \
                and len(node.value) >= 2 and node.value[0] == "<" and \
                node.value[1:].isalnum() and len(node.value) <= 4:
            sites.append(("endianness", idx, repr(node.value)))
        elif isinstance(node, ast.keyword) and node.arg == "order" and \
                isinstance(node.value, ast.Constant) and \
                node.value.value in ("C", "F"):
            sites.append(("array-order", idx, "order=%r" % node.value.value))
        elif isinstance(node, ast.Call) and len(node.args) >= 2 and \
                all(isinstance(a, ast.Name) for a in node.args[:2]) and \
                node.args[0].id != node.args[1].id and \
                not norm(node.func).startswith(("logger.", "isinstance",
                                                "print", "getattr", "zip")):
            sites.append(("swap-args", idx, norm(node)[:50]))
        elif isinstance(node, ast.If) and node.orelse and not (
                len(node.orelse) == 1 and isinstance(node.orelse[0], ast.If)):
            sites.append(("negate-if", idx, "if %s" % norm(node.test)[:40]))
    return sites


def _mutate(tree, op, idx):
    tree = copy.deepcopy(tree)
    for i, node in enumerate(ast.walk(tree)):
        if i != idx:
            continue
        if op == "axis-index":
            node.slice = ast.Constant(value=(node.slice.value + 1) % 3)
        elif op == "strictness":
            swap = {ast.Lt: ast.LtE, ast.LtE: ast.Lt, ast.Gt: ast.GtE,
                    ast.GtE: ast.Gt}
            node.ops = [swap[type(node.ops[0])]()]
        elif op == "drop-one":
            # x + 1 -> x
            node.right = ast.Constant(value=0)
        elif op == "narrow-handler":
            node.type = ast.Name(id="KeyboardInterrupt", ctx=ast.Load())
        elif op == "drop-guard":
            node.body = [ast.Pass()]
        elif op == "drop-assert":
            node.test = ast.Constant(value=True)
        elif op == "drop-call":
            node.value = ast.Constant(value=None)
        elif op == "endianness":
            node.value = ">" + node.value[1:]
        elif op == "array-order":
            node.value = ast.Constant(
                value="F" if node.value.value == "C" else "C")
        elif op == "swap-args":
            node.args[0], node.args[1] = node.args[1], node.args[0]
        elif op == "negate-if":
            node.test = ast.UnaryOp(op=ast.Not(), operand=node.test)
        break
    ast.fix_missing_locations(tree)
    return ast.unparse(tree)


def _consulted(prop):
    """Modules the property's check consults, restricted to the property's
    own anchor files (properties.jsonl) so that the population consists of
    mutants of the code the property is about."""
    import json
    from . import props
    from .report import VERIF
    repo = Repo()
    col = Collector(prop)
    props.PROPS[prop].run(repo, col)
    consulted = set(m for m in repo.consulted if m in repo.modules
                    and m != PKG)
    anchors = set()
    try:
        for line in open(os.path.join(VERIF, "properties.jsonl")):
            rec = json.loads(line)
            if rec["id"] == prop:
                for f in rec["anchors"]["files"]:
                    if f.startswith("src/") and f.endswith(".py"):
                        anchors.add(f[4:-3].replace("/", "."))
    except OSError:
        pass
    sel = consulted & anchors if anchors else consulted
    return sorted(sel or consulted)


def _run_mutant(args):
    prop, modname, relpath, op, idx, desc, scratch = args
    from . import props
    d = tempfile.mkdtemp(prefix="m.", dir=scratch)
    try:
        shutil.copytree(os.path.join(repo_root(), "src"), os.path.join(d, "src"))
        path = os.path.join(d, relpath)
        tree = ast.parse(open(path).read())
        try:
            src = _mutate(tree, op, idx)
        except Exception as exc:
            return (op, modname, desc, "error:%s" % exc)
        open(path, "w").write(src)
        try:
            repo = Repo(d)
            col = Collector(prop)
            props.PROPS[prop].run(repo, col)
            known = load_known()
            viol = [o for o in col.obs if o.status == FAIL
                    and not match_known(prop, o, known)]
            und = [o for o in col.obs if o.status == UNDECIDED]
            if viol:
                return (op, modname, desc, "reported:" + viol[0].rule)
            if col.check_floors():
                return (op, modname, desc, "analysis-error")
            if und:
                return (op, modname, desc, "undecided:" + und[0].rule)
            return (op, modname, desc, "silent")
        except AnalysisError:
            return (op, modname, desc, "analysis-error")
        except Exception as exc:     # a crash of the checker on this mutant
            import traceback
            tb = traceback.extract_tb(exc.__traceback__)[-1]
            return (op, modname, desc, "crash:%s %s:%d %s" % (
                type(exc).__name__, os.path.basename(tb.filename), tb.lineno,
                str(exc)[:60]))
    finally:
        shutil.rmtree(d, ignore_errors=True)


def sweep(prop, jobs=16, limit=400, seed=0):
    t0 = time.time()
    mods = _consulted(prop)
    repo = Repo()
    # the unparse baseline must itself be silent (ast.unparse normalises
    # layout only); sites are enumerated on the parsed tree
    tasks = []
    for mn in mods:
        m = repo.modules[mn]
        # enumerate on a fresh parse: m.tree is the canonicalised view, whose
        # node numbering differs from the file the mutant is made from
        for op, idx, desc in _sites(ast.parse(m.source)):
            tasks.append((prop, mn, m.relpath, op, idx, desc))
    # deterministic thinning when there are too many sites
    if len(tasks) > limit:
        step = len(tasks) / float(limit)
        tasks = [tasks[int((i * step + seed) % len(tasks))]
                 for i in range(limit)]
        tasks = sorted(set(tasks))
    scratch = tempfile.mkdtemp(prefix="ngs-sweep.")
    try:
        with ProcessPoolExecutor(max_workers=max(1, jobs)) as ex:
            results = list(ex.map(_run_mutant, [t + (scratch,) for t in tasks],
                                  chunksize=4))
    finally:
        shutil.rmtree(scratch, ignore_errors=True)
    summary = {}
    for op, mn, desc, verdict in results:
        v = verdict.split(":")[0]
        summary.setdefault(op, {}).setdefault(v, 0)
        summary[op][v] += 1
    reported = [r for r in results if r[3].startswith("reported")]
    silent = [r for r in results if r[3] == "silent"]
    return {
        "modules": [m.split(".", 1)[1] for m in mods],
        "mutants": len(results),
        "reported": len(reported),
        "undecided_or_anchor": sum(1 for r in results
                                   if r[3].startswith(("undecided",
                                                       "analysis-error"))),
        "silent": len(silent),
        "checker_crashes": sorted({r[3] for r in results
                                   if r[3].startswith("crash")}),
        "by_operator": summary,
        "reported_samples": [{"op": r[0], "module": r[1].split(".", 1)[1],
                              "site": r[2], "rule": r[3][9:]}
                             for r in reported[:15]],
        "silent_samples": [{"op": r[0], "module": r[1].split(".", 1)[1],
                            "site": r[2]} for r in silent[:40]],
        "silent_all": [(r[0], r[1].split(".", 1)[1], r[2]) for r in silent]
        if os.environ.get("NGS_SWEEP_ALL") else None,
        "wall_s": round(time.time() - t0, 2),
        "note": "single-site generic mutations of the consulted modules; "
                "silent ones are mostly value-level, equivalent, or outside "
                "the clauses this check decides",
    }
