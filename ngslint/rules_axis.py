"""E-AXIS: axis-role (dimension) typing of the chunk-geometry code.

Roles: X Y Z (volume axes), C (channel), COL ROW SLC (input slice axes).
Every obligation says: the operands / slots / positions of one construct
carry the same axis.  A product of two different roles has no role."""
import ast
import re

from .core import (AnalysisError, dotted, norm, walk_local, const_int,
                   call_name, stmts_of, calls_in)
from .dataflow import local_defs

NAME_RE = re.compile(r"^(x|y|z)(min|max|s|cs|d|_idx|_chunk_idx|_slicing|"
                     r"_coords)?$")
G_RE = re.compile(r"^(?:g|d)(x|y|z)$|^(x|y|z)[0-9]$")
CRS_RE = re.compile(r"^(column|row|slice)_(chunk_idx|slicing)$")
CRS = {"column": "COL", "row": "ROW", "slice": "SLC"}

XYZ_VECTORS = {
    "size", "chunk_size", "block_size", "downscaling_factors", "half_chunk",
    "chunk_fetch_factor", "old_size", "new_size", "old_chunk_size",
    "new_chunk_size", "resolution", "full_resolution", "voxel_sizes",
    "info_voxel_sizes", "grid_sizes", "grid_coords", "num_bits",
    "chunk_range", "size_in_chunks", "sizes", "chunk_sizes",
    "self.block_size", "self.sizes", "self.chunk_sizes", "self.grid_sizes",
    "self.num_bits",
}
XYZ_KEYS = {"size", "resolution", "voxel_offset",
            "compressed_segmentation_block_size"}
CRS_VECTORS = {"input_size", "input_chunk_size", "input_axis_inversions"}
COORD6 = {"chunk_coords", "old_chunk_coords", "new_chunk_coords"}

LAYOUTS = {   # (module short, variable) -> layout
    ("_compressed_segmentation", "chunk"): "CZYX",
    ("_compressed_segmentation", "chunk_channel"): "ZYX",
    ("_compressed_segmentation", "block"): "ZYX",
    ("chunk_encoding", "chunk"): "CZYX",
    ("_jpeg", "chunk"): "CZYX",
    ("downscaling", "chunk"): "CZYX",
    ("downscaling", "new_chunk"): "CZYX",
    ("dyadic_pyramid", "new_chunk"): "CZYX",
    ("volume_reader", "volume"): "XYZC",
}
ORDER_OK_3 = {("X", "Y", "Z"), ("Z", "Y", "X"), ("COL", "ROW", "SLC")}
ROLE_OF_LETTER = {"X": "X", "Y": "Y", "Z": "Z", "C": "C"}

SAME_ROLE_FUNCS = {"min", "max", "ceil_div", "int", "round", "abs",
                   "math.ceil", "math.floor", "float", "np.uint64",
                   "numpy.uint64"}


def seed_role(name):
    m = NAME_RE.match(name)
    if m:
        return m.group(1).upper()
    m = G_RE.match(name)
    if m:
        return (m.group(1) or m.group(2)).upper()
    m = CRS_RE.match(name)
    if m:
        return CRS[m.group(1)]
    return None


class Conflict:
    def __init__(self, roles):
        self.roles = roles


class AxisChecker:
    def __init__(self, fn, col, rule="E-AXIS"):
        self.fn = fn
        self.col = col
        self.rule = rule
        self.ms = fn.module.short
        self.defs = local_defs(fn.node)
        self.inferred = {}
        self._zip_seen = set()
        self.n = 0
        self._infer_names()

    # --- vectors ------------------------------------------------------
    def vec_order(self, node):
        """Axis order of a sequence-valued expression: 'XYZ', 'ZYX', 'CRS',
        'CZYX', 'XYZC', 'XXYYZZ' or None."""
        t = norm(node)
        if t in XYZ_VECTORS:
            return "XYZ"
        if isinstance(node, ast.Name) and node.id in self.local_vec:
            return self.local_vec[node.id]
        if isinstance(node, ast.Name) and node.id in self.fn.params and \
                node.id not in ("self", "cls"):
            o = self._param_order(node.id)
            if o:
                return o
        if isinstance(node, ast.Name) and node.id not in self.fn.params:
            # a local bound once to an ordered expression
            ds = [d for d in self.defs.get(node.id, [])
                  if d.value is not None]
            busy = self.__dict__.setdefault("_vo_busy", set())
            if len(ds) == 1 and ds[0].index is None and not ds[0].elem and \
                    ds[0].kind == "assign" and node.id not in busy and \
                    len(self.defs.get(node.id, [])) == 1:
                busy.add(node.id)
                try:
                    o = self.vec_order(ds[0].value)
                finally:
                    busy.discard(node.id)
                if o in ("XYZ", "ZYX", "CRS"):
                    return o
        if isinstance(node, ast.Attribute) and \
                isinstance(node.value, ast.Name) and \
                node.value.id == "self" and self.fn.cls is not None:
            o = self._property_order(node.attr)
            if o:
                return o
        if t in CRS_VECTORS:
            return "CRS"
        if t in COORD6:
            return "XXYYZZ"
        if isinstance(node, ast.Subscript):
            sl = node.slice
            if isinstance(sl, ast.Constant) and sl.value in XYZ_KEYS:
                return "XYZ"
            # ...["chunk_sizes"][k]
            if isinstance(node.value, ast.Subscript) and \
                    isinstance(node.value.slice, ast.Constant) and \
                    node.value.slice.value == "chunk_sizes" and \
                    const_int(sl) is not None:
                return "XYZ"
            # reversal v[::-1]
            if isinstance(sl, ast.Slice) and sl.lower is None and \
                    sl.upper is None and const_int(sl.step) == -1:
                o = self.vec_order(node.value)
                return o[::-1] if o in ("XYZ", "ZYX") else None
            # any constant slice of a known order: apply it to the letters
            # (a.shape[:0:-1] of a CZYX array is XYZ)
            if isinstance(sl, ast.Slice) and sl.step is not None:
                o = self.vec_order(node.value)
                parts_ = [None if x is None else const_int(x)
                          for x in (sl.lower, sl.upper, sl.step)]
                if o and all(x is None or p_ is not None for x, p_ in zip(
                        (sl.lower, sl.upper, sl.step), parts_)):
                    try:
                        r = o[slice(*parts_)]
                    except Exception:
                        r = None
                    return r or None
            # prefix of a longer shape: a.shape[:3], a.shape[1:]
            if isinstance(sl, ast.Slice) and sl.step is None:
                o = self.vec_order(node.value)
                if o and len(o) == 4:
                    lo = const_int(sl.lower) if sl.lower is not None else 0
                    hi = const_int(sl.upper) if sl.upper is not None else 4
                    if lo is not None and hi is not None:
                        return o[lo:hi]
        if isinstance(node, ast.Attribute) and node.attr == "shape":
            lay = self.layout(node.value)
            if lay:
                return lay
        if isinstance(node, ast.Call):
            nm = call_name(node)
            if nm in ("tuple", "list") and len(node.args) == 1:
                return self.vec_order(node.args[0])
            if nm == "reversed" and len(node.args) == 1:
                o = self.vec_order(node.args[0])
                return o[::-1] if o in ("XYZ", "ZYX") else None
        if isinstance(node, (ast.Tuple, ast.List)):
            roles = [self.role(e) for e in node.elts]
            if all(isinstance(r, str) for r in roles) and roles:
                key = tuple(roles)
                if key == ("X", "Y", "Z"):
                    return "XYZ"
                if key == ("Z", "Y", "X"):
                    return "ZYX"
                if key == ("COL", "ROW", "SLC"):
                    return "CRS"
        return None

    def _property_order(self, attr):
        """Order of `self.<attr>` when <attr> is a property of the class (or
        a base) whose body is one return of an ordered expression."""
        repo = self.fn.module.repo
        for cc in repo.mro(self.fn.cls):
            meth = cc.methods.get(attr)
            if meth is None:
                continue
            if not any("property" in norm(d)
                       for d in meth.node.decorator_list):
                return None
            rets = [x for x in walk_local(meth.node)
                    if isinstance(x, ast.Return) and x.value is not None]
            if len(rets) != 1:
                return None
            if getattr(self, "_depth", 0) >= 3:
                return None
            sub = AxisChecker.__new__(AxisChecker)
            sub.fn, sub.col, sub.rule = meth, self.col, self.rule
            sub.ms = meth.module.short
            sub.defs = local_defs(meth.node)
            sub.inferred, sub._zip_seen, sub.n = {}, set(), 0
            sub.local_vec = {}
            sub._depth = getattr(self, "_depth", 0) + 1
            sub._porder = {}
            return sub.vec_order(rets[0].value)
        return None

    def _param_order(self, pname):
        """Order of a sequence parameter without a conventional name: the
        order every call site in the package passes (None when the call sites
        disagree, pass nothing ordered, or there is none)."""
        cache = self.__dict__.setdefault("_porder", {})
        if pname in cache:
            return cache[pname]
        cache[pname] = None
        depth = getattr(self, "_depth", 0)
        if depth >= 3:
            return None
        fn = self.fn
        params = list(fn.params)
        repo = fn.module.repo
        from .rules_more4 import resolve_pkg_call
        orders = set()
        leaf = fn.qualname.split(".")[-1]
        for m in repo.modules.values():
            if leaf not in m.source:
                continue
            for g in m.functions.values():
                if g is fn:
                    continue
                for c in calls_in(g.node):
                    if (call_name(c) or "").split(".")[-1] != leaf:
                        continue
                    h = resolve_pkg_call(g, c)
                    if h is None or h.key != fn.key:
                        continue
                    ps = params[1:] if params and params[0] in (
                        "self", "cls") and isinstance(
                        c.func, ast.Attribute) else params
                    arg = None
                    if pname in ps and ps.index(pname) < len(c.args):
                        arg = c.args[ps.index(pname)]
                    for k in c.keywords:
                        if k.arg == pname:
                            arg = k.value
                    if arg is None or isinstance(arg, ast.Starred):
                        orders.add(None)
                        continue
                    sub = AxisChecker.__new__(AxisChecker)
                    sub.fn, sub.col, sub.rule = g, self.col, self.rule
                    sub.ms = g.module.short
                    sub.defs = local_defs(g.node)
                    sub.inferred, sub._zip_seen, sub.n = {}, set(), 0
                    sub.local_vec = {}
                    sub._depth = depth + 1
                    sub._porder = {}
                    orders.add(sub.vec_order(arg))
        if len(orders) == 1:
            o = orders.pop()
            if o in ("XYZ", "ZYX"):
                cache[pname] = o
        return cache[pname]

    def layout(self, node):
        if isinstance(node, ast.Name):
            return LAYOUTS.get((self.ms, node.id))
        return None

    # --- roles ----------------------------------------------------------
    def _infer_names(self):
        """Roles of local names without a seed role, from single consistent
        assignments; local vector names from comprehensions over vectors."""
        self.local_vec = {}
        # three names unpacked together that differ in exactly one letter,
        # and that letter runs over x, y, z (bz, by, bx = ...): a local
        # spelling of the naming convention
        for n in walk_local(self.fn.node):
            if isinstance(n, (ast.Tuple, ast.List)) and len(n.elts) == 3 and \
                    isinstance(n.ctx, ast.Store) and \
                    all(isinstance(e, ast.Name) for e in n.elts):
                ids = [e.id for e in n.elts]
                if any(seed_role(i) for i in ids) or \
                        len({len(i) for i in ids}) != 1 or len(ids[0]) < 2:
                    continue
                diff = [k for k in range(len(ids[0]))
                        if len({i[k] for i in ids}) > 1]
                if len(diff) == 1 and \
                        {i[diff[0]] for i in ids} == {"x", "y", "z"}:
                    for i in ids:
                        self.inferred.setdefault(i, i[diff[0]].upper())
        for _ in range(3):
            for name, ds in self.defs.items():
                if seed_role(name) or name in self.inferred:
                    continue
                vals = [d for d in ds if d.value is not None
                        and d.kind == "assign" and d.index is None]
                if not vals or len(vals) != len([d for d in ds
                                                 if d.kind != "param"]):
                    continue
                roles = set()
                for d in vals:
                    r = self.role(d.value, quiet=True)
                    roles.add(r if isinstance(r, str) else None)
                if len(roles) == 1 and None not in roles:
                    self.inferred[name] = roles.pop()
                # list comprehension zipping XYZ vectors is an XYZ vector
                if len(vals) == 1 and isinstance(vals[0].value, ast.ListComp):
                    lc = vals[0].value
                    it = lc.generators[0].iter
                    srcs = it.args if (isinstance(it, ast.Call) and
                                       call_name(it) == "zip") else [it]
                    orders = {self.vec_order(s) for s in srcs}
                    if orders == {"XYZ"} and name not in XYZ_VECTORS:
                        self.local_vec[name] = "XYZ"

    def name_role(self, name):
        return seed_role(name) or self.inferred.get(name)

    def role(self, node, quiet=False):
        """Role of a scalar-valued expression (str), None if it has none.
        Reports operand conflicts as obligations unless quiet."""
        if node is None:
            return None
        if isinstance(node, ast.Name):
            return self.name_role(node.id)
        if isinstance(node, ast.Constant):
            return None
        if isinstance(node, ast.Subscript):
            k = const_int(node.slice)
            if k is not None:
                o = self.vec_order(node.value)
                if o and -len(o) <= k < len(o):
                    letter = o[k]
                    if o == "CRS":
                        return ("COL", "ROW", "SLC")[k]
                    if o == "XXYYZZ":
                        return "XXYYZZ"[k]
                    return letter
            # x_coords[0] / x_coords[1]: element of a role-typed pair
            if isinstance(node.value, ast.Name) and k is not None:
                r = self.name_role(node.value.id)
                if r and node.value.id.endswith("_coords"):
                    return r
            return None
        if isinstance(node, ast.Attribute):
            if node.attr in ("start", "stop", "step"):
                return self.role(node.value, quiet)
            return None
        if isinstance(node, ast.UnaryOp):
            return self.role(node.operand, quiet)
        if isinstance(node, ast.BinOp):
            l, r = self.role(node.left, quiet), self.role(node.right, quiet)
            if isinstance(node.op, ast.Mult):
                if l and r and l != r:
                    return None
                return l or r
            if isinstance(node.op, (ast.Add, ast.Sub, ast.FloorDiv, ast.Mod,
                                    ast.Div)):
                if l and r:
                    if not quiet:
                        self.ob("binop", node, [l, r])
                    if l != r:
                        return None
                return l or r
            return None
        if isinstance(node, ast.Call):
            nm = call_name(node) or ""
            if nm in SAME_ROLE_FUNCS or nm.endswith(".ceil_div"):
                roles = [self.role(a, quiet) for a in node.args]
                typed = [r for r in roles if r]
                if len(typed) >= 2 and not quiet:
                    self.ob("call-%s" % nm.split(".")[-1], node, typed)
                if typed and len(set(typed)) == 1:
                    return typed[0]
                return None
            return None
        if isinstance(node, ast.IfExp):
            b, o = self.role(node.body, quiet), self.role(node.orelse, quiet)
            return b or o
        if isinstance(node, ast.Slice):
            roles = [self.role(x, quiet) for x in (node.lower, node.upper,
                                                   node.step) if x is not None]
            typed = [r for r in roles if r]
            if len(typed) >= 2 and not quiet:
                self.ob("slice", node, typed)
            if typed and len(set(typed)) == 1:
                return typed[0]
            return None
        return None

    def ob(self, kind, node, roles, want=None, detail=None):
        self.n += 1
        if want is not None:
            ok = all(r == w for r, w in zip(roles, want) if r and w)
        else:
            ok = len(set(roles)) == 1
        self.col.add("%s.%s" % (self.rule, kind), self.fn, norm(node)[:90], ok,
                     "" if ok else (detail or "mixes axes %s%s in `%s`"
                                    % ("/".join(map(str, roles)),
                                       " (expected %s)" % "/".join(want)
                                       if want else "", norm(node)[:120])),
                     node=node)
        return ok

    # --- walk -------------------------------------------------------------
    def check(self):
        fn = self.fn
        seen_exprs = set()
        for node in walk_local(fn.node, include_root=False):
            # scalar expressions: evaluate top-level arithmetic once
            if isinstance(node, (ast.BinOp, ast.Call, ast.Slice)) and \
                    id(node) not in seen_exprs:
                for sub in walk_local(node):
                    seen_exprs.add(id(sub))
                self._walk_expr(node)
            if isinstance(node, ast.If):
                self._branch_axis(node)
            if isinstance(node, ast.Compare):
                self._compare(node)
            if isinstance(node, (ast.Assign, ast.AnnAssign)):
                self._assign(node)
            if isinstance(node, (ast.For, ast.comprehension)):
                self._loop(node)
            if isinstance(node, (ast.Tuple, ast.List)) and \
                    isinstance(getattr(node, "ctx", None), ast.Load):
                self._tuple(node)
            if isinstance(node, ast.Subscript):
                self._subscript(node)
            if isinstance(node, ast.Call):
                self._call(node)
        return self.n

    def _branch_axis(self, node):
        """`if <test about one axis>:` - the arrays touched in the body are
        sliced / measured / padded along that same axis."""
        roles = set()
        for n in walk_local(node.test):
            if isinstance(n, (ast.Subscript, ast.Name)):
                r = self.role(n, quiet=True)
                if r in ("X", "Y", "Z"):
                    roles.add(r)
        if len(roles) != 1:
            return
        R = roles.pop()
        for st in node.body:
            for n in walk_local(st):
                if isinstance(n, ast.If):
                    continue
                if isinstance(n, ast.Subscript) and \
                        isinstance(n.value, ast.Attribute) and \
                        n.value.attr == "shape" and \
                        const_int(n.slice) is not None:
                    r = self.role(n, quiet=True)
                    if r in ("X", "Y", "Z"):
                        self.ob("branch-axis", n, [r], want=[R],
                                detail="inside `if %s` (axis %s) the extent "
                                "`%s` of the %s axis is tested"
                                % (norm(node.test)[:40], R, norm(n), r))
                if isinstance(n, ast.Subscript):
                    lay = self.layout(n.value)
                    sl = n.slice
                    slots = sl.elts if isinstance(sl, ast.Tuple) else None
                    if lay and slots and len(slots) == len(lay):
                        nontrivial = [k for k, s_ in enumerate(slots)
                                      if not (isinstance(s_, ast.Slice) and
                                              s_.lower is None and
                                              s_.upper is None and
                                              s_.step is None)]
                        if len(nontrivial) == 1 and lay[nontrivial[0]] != "C":
                            self.ob("branch-axis", n, [lay[nontrivial[0]]],
                                    want=[R], detail="inside `if %s` (axis %s) "
                                    "the array `%s` is sliced along its %s "
                                    "axis" % (norm(node.test)[:40], R,
                                              norm(n.value),
                                              lay[nontrivial[0]]))
                if isinstance(n, ast.Call) and (call_name(n) or "").endswith(
                        "np.pad") and len(n.args) >= 2 and \
                        isinstance(n.args[1], ast.Tuple):
                    lay = self.layout(n.args[0])
                    if lay and len(n.args[1].elts) == len(lay):
                        nz = [k for k, e in enumerate(n.args[1].elts)
                              if norm(e) not in ("(0, 0)",)]
                        if len(nz) == 1 and lay[nz[0]] != "C":
                            self.ob("branch-axis", n, [lay[nz[0]]], want=[R],
                                    detail="inside `if %s` (axis %s) the "
                                    "array is padded along its %s axis"
                                    % (norm(node.test)[:40], R, lay[nz[0]]))

    def _walk_expr(self, node):
        # role() reports conflicts of nested arithmetic itself; calls that are
        # not role-preserving still need their arguments visited
        if isinstance(node, ast.Call) and (call_name(node) or "") not in \
                SAME_ROLE_FUNCS and not (call_name(node) or "").endswith(
                    "ceil_div"):
            for a in list(node.args) + [k.value for k in node.keywords]:
                if isinstance(a, (ast.BinOp, ast.Call, ast.Slice, ast.IfExp)):
                    self._walk_expr(a)
                elif isinstance(a, (ast.Tuple, ast.List)):
                    for e in a.elts:
                        if isinstance(e, (ast.BinOp, ast.Call, ast.IfExp)):
                            self._walk_expr(e)
                elif isinstance(a, ast.Subscript):
                    self._walk_sub(a)
            return
        self.role(node)
        for sub in ast.iter_child_nodes(node):
            if isinstance(sub, ast.Subscript):
                self._walk_sub(sub)

    def _walk_sub(self, sub):
        sl = sub.slice
        for e in (sl.elts if isinstance(sl, ast.Tuple) else [sl]):
            if isinstance(e, (ast.BinOp, ast.Call, ast.Slice)):
                self.role(e)

    def _compare(self, node):
        lefts = [node.left] + node.comparators
        roles = [self.role(x, quiet=True) for x in lefts]
        typed = [r for r in roles if r]
        if len(typed) >= 2:
            self.ob("compare", node, typed)
        # sequence-order agreement: block.shape != block_size
        orders = [self.vec_order(x) for x in lefts]
        ot = [o for o in orders if o]
        if len(ot) >= 2:
            self.n += 1
            ok = len(set(ot)) == 1
            self.col.add(self.rule + ".seq-compare", self.fn, norm(node)[:90],
                         ok, "" if ok else "compares a sequence in %s order "
                         "with one in %s order (only equal for cubic sizes)"
                         % (ot[0], ot[1]), node=node)

    def _assign(self, node):
        tgts = node.targets if isinstance(node, ast.Assign) else [node.target]
        val = node.value
        if val is None:
            return
        for t in tgts:
            if isinstance(t, ast.Name):
                tr = seed_role(t.id)
                vr = self.role(val, quiet=True)
                if tr and vr:
                    self.ob("assign", node, [tr, vr])
                elif tr and isinstance(val, ast.BinOp) and \
                        isinstance(val.op, ast.Mult):
                    # origin = index * size: every axis-typed factor of a
                    # product assigned to an axis-typed name is on that axis
                    factors = []

                    def flat(n):
                        if isinstance(n, ast.BinOp) and isinstance(n.op, ast.Mult):
                            flat(n.left)
                            flat(n.right)
                        else:
                            factors.append(n)
                    flat(val)
                    fr = [self.role(f, quiet=True) for f in factors]
                    typed = [r for r in fr if r]
                    if typed:
                        self.ob("assign-product", node, [tr] + typed)
                # array allocated with a shape in the wrong order
                lay = LAYOUTS.get((self.ms, t.id))
                if lay and isinstance(val, ast.Call):
                    nm = call_name(val) or ""
                    if nm.split(".")[-1] in ("empty", "zeros", "ones", "full") \
                            and val.args:
                        so = self.vec_order(val.args[0])
                        if so and len(so) == len(lay):
                            self.n += 1
                            ok = so == lay
                            self.col.add(self.rule + ".alloc", self.fn,
                                         norm(node)[:90], ok, "" if ok else
                                         "array `%s` is indexed as %s but "
                                         "allocated with a shape in %s order"
                                         % (t.id, lay, so), node=node)
            elif isinstance(t, (ast.Tuple, ast.List)):
                names = [e.id if isinstance(e, ast.Name) else None
                         for e in t.elts]
                troles = [self.name_role(n) if n else None for n in names]
                order = self.vec_order(val)
                if order and len(order) == len(names):
                    want = list(order)
                    if order == "CRS":
                        want = ["COL", "ROW", "SLC"]
                    if any(troles):
                        self.ob("unpack", node, troles, want=want)
                elif isinstance(val, ast.Call) and call_name(val) == "permute":
                    pass    # permuted: positions change by design
                elif isinstance(val, (ast.Tuple, ast.List)) and \
                        len(val.elts) == len(names):
                    for tr, v in zip(troles, val.elts):
                        vr = self.role(v, quiet=True)
                        if tr and vr:
                            self.ob("assign", v, [tr, vr])

    def _loop(self, node):
        target, it = node.target, node.iter
        if isinstance(it, ast.Call) and call_name(it) == "tqdm" and it.args:
            it = it.args[0]
        if isinstance(it, ast.Call) and call_name(it) == "trange" and it.args:
            r = self.role(it.args[0], quiet=True)
            tr = self.role(target, quiet=True) if isinstance(target, ast.Name) \
                else None
            if r and tr:
                self.ob("loop", it, [tr, r])
            return
        if not isinstance(it, ast.Call):
            return
        nm = call_name(it) or ""
        if nm == "range" and isinstance(target, ast.Name):
            tr = seed_role(target.id)
            rs = [self.role(a, quiet=True) for a in it.args]
            typed = [r for r in rs if r]
            if tr and typed:
                self.ob("loop", it, [tr] + typed)
        elif nm.endswith("ndindex") and isinstance(target, (ast.Tuple, ast.List)):
            names = [e.id if isinstance(e, ast.Name) else None
                     for e in target.elts]
            troles = [seed_role(n) if n else None for n in names]
            extent = None
            if len(it.args) == 1:
                a = it.args[0]
                if isinstance(a, ast.Starred):
                    extent = self.vec_order(a.value)
                    want = list(extent) if extent else None
                else:
                    if isinstance(a, (ast.Tuple, ast.List)):
                        want = [self.role(e, quiet=True) for e in a.elts]
                    else:
                        o = self.vec_order(a)
                        want = list(o) if o else None
                        if want is None and isinstance(a, ast.Name):
                            for d in self.defs.get(a.id, []):
                                if isinstance(d.value, (ast.Tuple, ast.List)):
                                    want = [self.role(e, quiet=True)
                                            for e in d.value.elts]
            else:
                want = [self.role(a, quiet=True) for a in it.args]
            if want and len(want) == len(troles) and any(troles):
                want = [{"C": None}.get(w, w) if w == "C" else w for w in want]
                self.ob("loop", it, troles, want=want)
        elif nm == "zip":
            self._zip_seen.add(id(it))
            orders = [self.vec_order(a) for a in it.args]
            ot = [o for o in orders if o]
            if len(ot) >= 2:
                self.n += 1
                ok = len(set(ot)) == 1
                self.col.add(self.rule + ".zip", self.fn, norm(it)[:90], ok,
                             "" if ok else "zips a sequence in %s order with "
                             "one in %s order: per-axis values are paired "
                             "with the wrong axis unless sizes are cubic"
                             % (ot[0], ot[1]), node=it)

    def _tuple(self, node):
        elts = node.elts
        if len(elts) not in (3, 4, 6):
            return
        roles = [self.role(e, quiet=True) for e in elts]
        roles = [None if r == "C" else r for r in roles]   # channel: wildcard
        typed = [r for r in roles if r]
        if len(typed) < 2:
            return
        if len(elts) in (3, 4) and len(set(typed)) == 1:
            return      # several quantities of one axis grouped together
        if len(elts) == 3:
            cands = [("X", "Y", "Z"), ("Z", "Y", "X"), ("COL", "ROW", "SLC")]
        elif len(elts) == 4:
            # the three axes in one of the two orders, the fourth quantity
            # (channels, a per-block record, ...) at either end
            cands = [(None, "Z", "Y", "X"), ("X", "Y", "Z", None),
                     ("Z", "Y", "X", None), (None, "X", "Y", "Z"),
                     (None, "SLC", "ROW", "COL")]
        else:
            cands = [("X", "X", "Y", "Y", "Z", "Z")]
        ok = any(all(r is None or (c is None and (len(elts) != 4 or
                                                  r not in ("X", "Y", "Z")))
                     or r == c
                     for r, c in zip(roles, cand)) for cand in cands)
        self.n += 1
        self.col.add(self.rule + ".tuple", self.fn, norm(node)[:90], ok,
                     "" if ok else "%d-tuple of axis quantities in order %s is "
                     "none of the orders used by the package (%s)"
                     % (len(elts), "/".join(str(r) for r in roles),
                        "; ".join("/".join(str(x) for x in c) for c in cands)),
                     node=node)

    def _subscript(self, node):
        lay = self.layout(node.value)
        if not lay:
            return
        sl = node.slice
        slots = sl.elts if isinstance(sl, ast.Tuple) else [sl]
        ell = [k for k, s in enumerate(slots)
               if isinstance(s, ast.Constant) and s.value is Ellipsis]
        if ell:
            # slots after `...` are aligned to the END of the layout
            if len(ell) != 1:
                return
            after = slots[ell[0] + 1:]
            for j, s in enumerate(after):
                pos = len(lay) - len(after) + j
                if pos < 0:
                    continue
                r = self.role(s, quiet=True)
                if not r or r == lay[pos]:
                    continue
                # rank-dependent code may be guarded by a test on the rank
                from .core import enclosing_stmt_map
                from .dataflow import control_names
                st = enclosing_stmt_map(self.fn.node).get(id(node))
                guarded = False
                if st is not None:
                    ctl = control_names(self.fn.node, st)
                    guarded = isinstance(node.value, ast.Name) and \
                        node.value.id in ctl
                self.n += 1
                self.col.add(
                    self.rule + ".slot", self.fn, norm(node)[:90],
                    guarded, "rank-dependent indexing under a test on the "
                    "array" if guarded else
                    "`...` aligns `%s` with the last axis of `%s` (layout %s: "
                    "axis %s), but it is a %s-axis quantity: for arrays that "
                    "have the %s axis the wrong axis is sliced"
                    % (norm(s)[:40], norm(node.value), lay, lay[pos], r,
                       lay[pos]), node=node, undecided=guarded)
            slots = slots[:ell[0]]
        for k, s in enumerate(slots):
            if k >= len(lay):
                break
            r = self.role(s, quiet=True)
            if r and lay[k] != "C":
                self.ob("slot", s, [r], want=[lay[k]],
                        detail="slot %d of `%s` (layout %s) is indexed with a "
                        "%s-axis quantity `%s`" % (k, norm(node.value), lay, r,
                                                   norm(s)[:60]))

    def _call(self, node):
        nm = call_name(node) or ""
        # chunk file-name patterns: six positional coordinates
        if isinstance(node.func, ast.Attribute) and node.func.attr == "format" \
                and len(node.args) == 6:
            roles = [self.role(a, quiet=True) for a in node.args]
            if sum(1 for r in roles if r) >= 2:
                self.ob("format6", node, roles,
                        want=["X", "X", "Y", "Y", "Z", "Z"])
        # role-named parameters of functions of the same module
        callee = None
        if "." not in nm and nm:
            m = self.fn.module
            f = self.fn
            while f is not None and callee is None:
                callee = m.functions.get(f.qualname + "." + nm)
                f = f.parent
            callee = callee or m.functions.get(nm)
        if callee is not None:
            params = callee.params
            for a, p in zip(node.args, params):
                pr, ar = seed_role(p), self.role(a, quiet=True)
                if pr and ar:
                    self.ob("arg", a, [pr, ar])
            # parameters that the callee pairs element by element
            # (zip(p, q) / p[i] with q[i]) must arrive in one axis order
            for i, j in _paired_params(callee):
                if i < len(node.args) and j < len(node.args):
                    oi = self.vec_order(node.args[i])
                    oj = self.vec_order(node.args[j])
                    if oi and oj and len(oi) == len(oj):
                        self.n += 1
                        ok = oi == oj
                        self.col.add(
                            self.rule + ".zip-args", self.fn,
                            norm(node)[:90], ok, "" if ok else
                            "%s pairs its parameters %s and %s element by "
                            "element, but this call passes a sequence in %s "
                            "order and one in %s order: per-axis values are "
                            "combined with the wrong axis unless sizes are "
                            "cubic" % (callee.qualname, params[i], params[j],
                                       oi, oj), node=node)
        # zip / reshape handled elsewhere; np.ndindex via loops
        if nm == "zip" and id(node) not in self._zip_seen:
            orders = [self.vec_order(a) for a in node.args]
            ot = [o for o in orders if o]
            if len(ot) >= 2:
                self.n += 1
                ok = len(set(ot)) == 1
                self.col.add(self.rule + ".zip", self.fn, norm(node)[:90], ok,
                             "" if ok else "zips a sequence in %s order with "
                             "one in %s order: per-axis values are paired "
                             "with the wrong axis unless sizes are cubic"
                             % (ot[0], ot[1]), node=node)
        # a sequence passed to a package function whose parameter carries a
        # conventional order in its name (block_size, chunk_size, ... are
        # (X, Y, Z)): the argument has to be in that order
        if not getattr(self, "_depth", 0):
            from .rules_more4 import resolve_pkg_call
            h = resolve_pkg_call(self.fn, node)
            if h is not None and h.key != self.fn.key:
                ps = list(h.params)
                if ps and ps[0] in ("self", "cls") and \
                        isinstance(node.func, ast.Attribute):
                    ps = ps[1:]
                pairs = list(zip(ps, node.args)) + [
                    (k.arg, k.value) for k in node.keywords if k.arg]
                # parameters the callee only zips with each other are taken
                # element by element: any order will do, as long as the
                # arguments agree (checked where they are zipped)
                allp = list(h.params)
                zipped = set()
                for i_, j_ in _paired_params(h):
                    zipped |= {allp[i_], allp[j_]}
                for pn, av in pairs:
                    want = "XYZ" if pn in XYZ_VECTORS else \
                        "CRS" if pn in CRS_VECTORS else None
                    if want is None or isinstance(av, ast.Starred) or \
                            pn in zipped:
                        continue
                    got = self.vec_order(av)
                    if got not in ("XYZ", "ZYX", "CRS"):
                        continue
                    self.n += 1
                    ok = got == want
                    self.col.add(self.rule + ".arg-order", self.fn,
                                 norm(node)[:80], ok, "" if ok else
                                 "`%s` is in %s order and is passed for the "
                                 "parameter `%s` of %s, which is in %s order"
                                 % (norm(av), got, pn, h.qualname, want),
                                 node=node)
        # reshape / moveaxis of arrays with known layout
        if isinstance(node.func, ast.Attribute) and node.func.attr == "reshape":
            args = node.args
            if len(args) == 1 and isinstance(args[0], (ast.Tuple, ast.List)):
                pass        # handled as tuple
            elif len(args) in (3, 4):
                roles = [self.role(a, quiet=True) for a in args]
                if sum(1 for r in roles if r) >= 2:
                    t = ast.Tuple(elts=list(args), ctx=ast.Load())
                    ast.copy_location(t, node)
                    self._tuple(t)


_PAIRED_CACHE = {}


def _paired_params(callee):
    """[(i, j)] positions of parameters that the function zips together."""
    # per repository object: the same function key means different code in
    # another (scratch) tree analysed by the same process
    cache = callee.module.repo.__dict__.setdefault("_paired_cache", {})
    key = callee.key
    if key in cache:
        return cache[key]
    params = callee.params
    out = set()
    for n in walk_local(callee.node):
        if isinstance(n, ast.Call) and call_name(n) == "zip":
            idx = [params.index(a.id) for a in n.args
                   if isinstance(a, ast.Name) and a.id in params]
            for a in range(len(idx)):
                for b in range(a + 1, len(idx)):
                    out.add((idx[a], idx[b]))
    cache[key] = sorted(out)
    return cache[key]


def check_modules(repo, col, shorts, rule="E-AXIS"):
    """Run the axis typing over every function of the given modules; returns
    {module: obligations}."""
    counts = {}
    for ms in shorts:
        m = repo.module(ms)
        n = 0
        seeded = 0
        for fn in m.functions.values():
            n += AxisChecker(fn, col, rule).check()
            names = {x.id for x in walk_local(fn.node)
                     if isinstance(x, ast.Name)} | set(fn.params)
            seeded += sum(1 for nm in names if seed_role(nm)
                          or nm in XYZ_VECTORS or nm in CRS_VECTORS)
        counts[ms] = n
        # axis typing reads the roles off the project's naming convention
        # (xmin, y_chunk_idx, chunk_size, ...).  A module that does not use
        # those names gives the typing nothing to work on: say so instead of
        # passing (or tripping the vacuity floor) silently.
        if seeded < 3:
            col.add(rule + ".names", "%s:module" % ms, "axis-role names", True,
                    "no local names of %s follow the x/y/z naming convention "
                    "the axis typing is seeded from: its obligations do not "
                    "apply to this spelling" % ms, undecided=True)
    return counts


def moveaxis_reversal(repo, col):
    """volume_to_precomputed: XYZC -> CZYX is the axis reversal."""
    rule = "E-AXIS.moveaxis"
    fn = repo.func("volume_reader", "volume_to_precomputed")
    found = False
    for c in walk_local(fn.node):
        if isinstance(c, ast.Call) and (call_name(c) or "").endswith("moveaxis") \
                and len(c.args) == 3:
            try:
                src = ast.literal_eval(c.args[1])
                dst = ast.literal_eval(c.args[2])
            except Exception:
                continue
            found = True
            mapping = dict(zip(src, dst))
            ok = mapping == {0: 3, 1: 2, 2: 1, 3: 0}
            col.add(rule, fn, norm(c)[:80], ok, "(X,Y,Z,C) -> (C,Z,Y,X)" if ok
                    else "axis mapping %s is not the reversal (X,Y,Z,C) -> "
                    "(C,Z,Y,X)" % mapping, node=c)
        if isinstance(c, ast.Call) and (call_name(c) or "").endswith("transpose"):
            found = True
            col.add(rule, fn, norm(c)[:80], True, "transpose form not modelled",
                    node=c, undecided=True)
    if not found:
        col.add(rule, fn, "moveaxis", True, "no moveaxis / transpose found",
                undecided=True)
