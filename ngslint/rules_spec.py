"""E-SPEC: format-specification tables.

The constants and index expressions below come from the published
Neuroglancer specifications (compressed_segmentation, sharded v1,
precomputed mesh), not from this package.  Closed-world on constants, open-
world on shape: an expression that cannot be located is UNDECIDED."""
import ast
import re

from .core import (ftext, AnalysisError, dotted, norm, walk_local, const_int,
                   stmts_of, calls_in, call_name, kwarg,
                   enclosing_stmt_map)
from .dataflow import local_defs, names_in, closure_names, holds
from .intexpr import canon, canon_src, poly, pstr, NotInt

SPEC_BITS = (0, 1, 2, 4, 8, 16, 32)


def _calls(fn, suffix):
    return [c for c in calls_in(fn.node)
            if (call_name(c) or "").endswith(suffix)]


def _canon(node, subst=None):
    try:
        return canon(node, subst)
    except NotInt:
        return None


def _grid_names(fn):
    """From `for z, y, x in np.ndindex((gz, gy, gx))` return
    {'x': (xname, gxname), ...} using E-AXIS-independent positional logic:
    the fastest-varying (last) loop variable is x."""
    for n in walk_local(fn.node):
        if isinstance(n, ast.For) and isinstance(n.iter, ast.Call) and \
                (call_name(n.iter) or "").endswith("ndindex") and \
                isinstance(n.target, ast.Tuple) and len(n.target.elts) == 3:
            a = n.iter.args[0]
            if isinstance(a, ast.Tuple) and len(a.elts) == 3:
                names = [t.id for t in n.target.elts]
                gs = [norm(e) for e in a.elts]
                return {"z": (names[0], gs[0]), "y": (names[1], gs[1]),
                        "x": (names[2], gs[2])}
    return None


# ---------------------------------------------------------------------
# compressed_segmentation
# ---------------------------------------------------------------------
def cseg_layout(repo, col):
    from .intexpr import using_module
    with using_module(repo.module("_compressed_segmentation")):
        _cseg_layout(repo, col)


def _cseg_layout(repo, col):
    from .dataflow import def_values
    rule = "E-SPEC.cseg"
    mod = "_compressed_segmentation"
    m = repo.module(mod)
    # 1. every struct format is little-endian uint32 words
    n_fmt = 0
    for fn in m.functions.values():
        for c in calls_in(fn.node):
            nm = call_name(c) or ""
            if nm.startswith("struct.") and c.args and \
                    isinstance(c.args[0], ast.Constant):
                fmt = c.args[0].value
                n_fmt += 1
                ok = fmt in ("<I", "<II")
                col.add(rule + ".format", fn, "%s(%r)" % (nm, fmt), ok,
                        "" if ok else "struct format %r: the format stores "
                        "little-endian 32-bit words ('<I' / '<II')" % fmt,
                        node=c)
    if n_fmt < 2:
        raise AnalysisError("anchor vanished: struct calls in %s" % mod)
    # 2. block header position: 8 * (x + gx * (y + gy * z)) on both sides
    for qn, suffix, argi in (("_encode_channel", "pack_into", 2),
                             ("_decode_channel_into", "unpack_from", 2)):
        fn = repo.func(mod, qn)
        g = _grid_names(fn)
        calls = [c for c in _calls(fn, suffix) if len(c.args) > argi]
        if not g or not calls:
            col.add(rule + ".block-index", fn, suffix, True,
                    "block loop / header access not in the recognised form",
                    undecided=True)
            continue
        want = canon_src("8 * (%s + %s * (%s + %s * %s))"
                         % (g["x"][0], g["x"][1], g["y"][0], g["y"][1],
                            g["z"][0]))
        got = _canon(calls[0].args[argi])
        col.add(rule + ".block-index", fn, norm(calls[0].args[argi]),
                got == want, "block headers are laid out x-fastest: "
                "8*(x + gx*(y + gy*z))" if got == want else
                "block header byte offset is %s, the format prescribes %s "
                "(x fastest, then y, then z)" % (got, want), node=calls[0])
    # 3. header word: low 24 bits table offset, high 8 bits the bit width
    enc = repo.func(mod, "_encode_channel")
    dec = repo.func(mod, "_decode_channel_into")
    pk = [c for c in _calls(enc, "pack_into") if len(c.args) >= 5]
    ok = False
    if pk:
        a = pk[0].args[3]
        ok = isinstance(a, ast.BinOp) and isinstance(a.op, ast.BitOr) and any(
            isinstance(s, ast.BinOp) and isinstance(s.op, ast.LShift)
            and const_int(s.right) == 24 for s in (a.left, a.right))
    col.add(rule + ".header-word", enc, norm(pk[0].args[3]) if pk else "-", ok,
            "" if ok else "first header word is not (table_offset | bits << "
            "24)", undecided=not pk)
    dtxt = ftext(dec)
    d_defs = local_defs(dec.node)
    masks = [n for n in walk_local(dec.node) if isinstance(n, ast.BinOp)
             and isinstance(n.op, ast.BitAnd)
             and (const_int(n.right) or const_int(n.left) or 0) > 0xFFFF]
    okm = bool(masks) and all((const_int(n.right) or const_int(n.left))
                              == 0xFFFFFF for n in masks)
    col.add(rule + ".header-word", dec, "& 0x00FFFFFF", okm,
            "" if okm else "decoder does not mask the table offset with "
            "0xFFFFFF", undecided=not masks)
    shifts = [n for n in walk_local(dec.node) if isinstance(n, ast.BinOp)
              and isinstance(n.op, ast.RShift) and const_int(n.right)
              is not None]
    oks = bool(shifts) and all(const_int(n.right) == 24 for n in shifts)
    col.add(rule + ".header-word", dec, ">> 24", oks, "" if oks else
            "decoder does not take the bit width from bits 24..31",
            undecided=not shifts)
    # 4. bit-width sets
    chooser = repo.func(mod, "number_of_encoding_bits")
    cset = None
    for n in walk_local(chooser.node):
        if isinstance(n, ast.For) and isinstance(n.iter, (ast.Tuple, ast.List)):
            cset = tuple(const_int(e) for e in n.iter.elts)
    col.add(rule + ".bits", chooser, "widths %s" % (cset,),
            cset == SPEC_BITS, "" if cset == SPEC_BITS else
            "encoder may choose bit widths %s, the format allows %s"
            % (cset, SPEC_BITS), undecided=cset is None)
    # names are taken from the code: loop variable of the width loop and the
    # function's (only) parameter
    lv = None
    for n in walk_local(chooser.node):
        if isinstance(n, ast.For) and isinstance(n.iter, (ast.Tuple, ast.List)) \
                and isinstance(n.target, ast.Name):
            lv = n.target.id
    pv = [p_ for p_ in chooser.params if p_ != "self"]
    pv = pv[0] if pv else None
    forms = set()
    if lv and pv:
        forms = {"2 ** %s >= %s" % (lv, pv), "%s <= 2 ** %s" % (pv, lv),
                 "1 << %s >= %s" % (lv, pv), "%s <= 1 << %s" % (pv, lv)}
    okc = any(isinstance(n, ast.Compare) and norm(n) in forms
              for n in walk_local(chooser.node))
    col.add(rule + ".bits", chooser, "2 ** bits >= elements", okc,
            "" if okc else "width chooser does not take the smallest width "
            "with 2**bits >= number of labels", undecided=not okc and
            (not forms or not any(isinstance(n, ast.Compare) and
                                  pv in names_in(n)
                                  for n in walk_local(chooser.node))))
    dset = None
    for n in walk_local(dec.node):
        if isinstance(n, ast.Compare) and isinstance(n.ops[0], (ast.NotIn,
                                                                ast.In)) \
                and isinstance(n.comparators[0], (ast.Tuple, ast.List, ast.Set)):
            vals = tuple(const_int(e) for e in n.comparators[0].elts)
            if all(v is not None for v in vals):
                dset = vals
    col.add(rule + ".bits", dec, "accepted widths %s" % (dset,),
            dset is not None and set(dset) == set(SPEC_BITS),
            "" if dset is not None and set(dset) == set(SPEC_BITS) else
            "decoder accepts bit widths %s, the format allows %s"
            % (dset, SPEC_BITS), undecided=dset is None)
    # 5. value packing: value k of a word sits at bit (k mod n)*bits
    for qn in ("_pack_encoded_values", "_unpack_encoded_values"):
        fn = repo.func(mod, qn)
        txt = ftext(fn)
        fdefs = local_defs(fn.node)
        bp = [p_ for p_ in fn.params if p_ != "self"]
        bp = bp[1] if len(bp) > 1 else None      # (values, bits, ...)
        # V: the local holding 32 // bits
        vnames = {nm for nm, ds in fdefs.items() for d in ds
                  if d.value is not None and bp and
                  norm(d.value) == "32 // %s" % bp}
        per_word = {"32 // %s" % bp} | vnames if bp else set()
        okv = bool(vnames) or (bp is not None and "32 // %s" % bp in txt)
        col.add(rule + ".packing", fn, "values_per_32bit = 32 // bits", okv,
                "" if okv else "values per 32-bit word is not 32 // bits",
                undecided=not okv and "32" not in txt)
        # S: the variable running over range(V)
        snames = set()
        for nm, ds in fdefs.items():
            for d in ds:
                if d.kind in ("for", "comp") and isinstance(d.value, ast.Call) \
                        and call_name(d.value) == "range" and \
                        len(d.value.args) == 1 and \
                        norm(d.value.args[0]) in per_word:
                    snames.add(nm)
        strides = [n for n in walk_local(fn.node) if isinstance(n, ast.Subscript)
                   and isinstance(n.slice, ast.Slice) and n.slice.step is not None]
        oks = bool(strides) and all(
            s_.slice.lower is not None and norm(s_.slice.lower) in snames and
            norm(s_.slice.step) in per_word and s_.slice.upper is None
            for s_ in strides)
        col.add(rule + ".packing", fn, "[shift::values_per_32bit]", oks,
                "" if oks else "value k of each word is not taken from "
                "position k, k+n, k+2n, ... of the value stream",
                undecided=not strides or (not oks and not snames))
        shs = [n for n in walk_local(fn.node) if isinstance(n, ast.BinOp)
               and isinstance(n.op, (ast.LShift, ast.RShift))
               and names_in(n.right) & snames]
        okb = bool(shs) and all(
            _canon(n.right) in ("%s*%s" % tuple(sorted((bp, s_)))
                                for s_ in snames) for n in shs)
        col.add(rule + ".packing", fn, "shift * bits", okb,
                "" if okb else "bit position of value k is not k*bits "
                "(least-significant first)", undecided=not shs)
    fn = repo.func(mod, "_unpack_encoded_values")
    bp = [p_ for p_ in fn.params if p_ != "self"]
    bp = bp[1] if len(bp) > 1 else "bits"
    masks_ = [n for n in walk_local(fn.node) if isinstance(n, ast.BinOp)
              and isinstance(n.op, ast.Sub) and const_int(n.right) == 1
              and isinstance(n.left, ast.BinOp)
              and isinstance(n.left.op, (ast.LShift, ast.Pow))]
    okm = any(norm(n) in ("(1 << %s) - 1" % bp, "2 ** %s - 1" % bp)
              for n in masks_)
    col.add(rule + ".packing", fn, "bitmask = (1 << bits) - 1", okm,
            "" if okm else "value mask is not (1 << bits) - 1",
            undecided=not masks_)
    # 6. grid = ceil(extent / block) per axis, encoder and both decoder sites
    for qn in ("_encode_channel", "decode_chunk_into", "_decode_channel_into"):
        fn = repo.func(mod, qn)
        defs = local_defs(fn.node)
        from .rules_axis import AxisChecker
        from .report import Collector as _Col
        ax = AxisChecker(fn, _Col("-"))
        for g in ("gx", "gy", "gz"):
            ds = def_values(m, fn.node, g, defs)
            c = _canon(ds[0]) if ds else None
            # ceil(<array>.shape[k] / <block>[j]) with j the axis of g in
            # the order of the block vector (x, y, z as declared in the info,
            # or array order when the codec is handed the reversed tuple)
            mt = re.match(r"^CEILDIV\(.*shape.*, ([A-Za-z_][A-Za-z_0-9.]*)"
                          r"\[(\d)\]\)$", c) if c else None
            order = None
            if mt:
                try:
                    order = ax.vec_order(ast.parse(mt.group(1),
                                                   mode="eval").body)
                except SyntaxError:
                    order = None
            if mt and order in ("XYZ", "ZYX"):
                ok = order[int(mt.group(2))] == g[1].upper()
                und = False
            elif mt:
                # a block vector whose order is not known: the x-y-z order
                # of the info is the reference, the reverse is undecided
                ok = int(mt.group(2)) == "xyz".index(g[1])
                und = not ok and int(mt.group(2)) == 2 - "xyz".index(g[1])
            else:
                ok, und = False, not ds or c is None
            col.add(rule + ".grid", fn, "%s = %s" % (g, c), ok or und,
                    "" if ok else "grid size %s is not ceil(extent / block "
                    "size)" % g, undecided=und and not ok)
    # 7. offsets are in 32-bit words: encoder len(buf)//4, decoder 4*word
    for fn, pats in ((repo.func(mod, "encode_chunk"), ["len(buf) // 4"]),
                     (enc, ["len(buf) // 4"]),
                     (repo.func(mod, "decode_chunk_into"), ["4 * ret[0]"]),
                     (dec, ["4 * (res[0] & 16777215)", "4 * res[1]"])):
        txt = ftext(fn)
        for p in pats:
            ok = p in txt
            col.add(rule + ".word-units", fn, p, ok, "" if ok else
                    "offset is not converted between bytes and 32-bit words "
                    "in the recognised form `%s`" % p, undecided=not ok)
    # 8. an offset is read off the buffer at the point where its segment is
    #    appended
    for fn in (repo.func(mod, "encode_chunk"), enc):
        owner = enclosing_stmt_map(fn.node)
        body_stmts = stmts_of(fn.node)
        for i, st in enumerate(body_stmts):
            uses_len = any(norm(n) == "len(buf) // 4" for n in walk_local(st))
            if not uses_len or isinstance(st, (ast.For, ast.If, ast.Assert)):
                continue
            # next statement that mutates buf must be `buf += ...`, with no
            # other len(buf)-reading assignment in between
            nxt = None
            for st2 in body_stmts[i + 1:]:
                if isinstance(st2, ast.AugAssign) and norm(st2.target) == "buf":
                    nxt = st2
                    break
                if isinstance(st2, (ast.If, ast.For)):
                    continue
            ok = nxt is not None
            col.add(rule + ".offset-at-append", fn, norm(st)[:70], ok,
                    "" if ok else "offset taken from len(buf) is not followed "
                    "by the append of its segment", nontrivial=False)
    # 9. channel table size and block table size
    ec = repo.func(mod, "encode_chunk")
    okh = "bytearray(4 * num_channels)" in ftext(ec) or \
        "bytearray(4 * chunk.shape[0])" in ftext(ec)
    col.add(rule + ".tables", ec, "bytearray(4 * num_channels)", okh,
            "" if okh else "channel offset table is not 4 bytes per channel",
            undecided=not okh)
    okt = any(_canon(c.args[0]) in ("8*gx*gy*gz",) for c in _calls(enc, "bytearray")
              if c.args)
    col.add(rule + ".tables", enc, "bytearray(gx * gy * gz * 8)", okt,
            "" if okt else "block header table is not 8 bytes per block",
            undecided=not okt)
    # 11. table re-use is per channel: stored offsets are relative to the
    #     channel's own buffer
    edefs = local_defs(enc.node)
    reuse = [n for n in walk_local(enc.node) if isinstance(n, ast.Compare)
             and isinstance(n.ops[0], ast.In) and "lut" in norm(n.left)]
    if reuse:
        dname = norm(reuse[0].comparators[0])
        local_new = any(isinstance(d.value, ast.Dict) and not d.value.keys
                        for d in edefs.get(dname, []) if d.value is not None)
        is_param = dname in enc.params
        col.add(rule + ".lut-scope", enc, "table re-use map `%s` is created "
                "per channel" % dname, local_new and not is_param,
                "" if local_new and not is_param else
                "the map of already stored lookup tables is shared across "
                "channels, but its offsets are relative to one channel's "
                "buffer: a later channel re-uses a meaningless offset")
        buf_local = any(isinstance(d.value, ast.Call) and
                        call_name(d.value) == "bytearray"
                        for d in edefs.get("buf", []) if d.value is not None)
        col.add(rule + ".lut-scope", enc, "channel buffer is created per "
                "channel", buf_local, "" if buf_local else "channel buffer is "
                "not local to the channel encoder", undecided=not buf_local)
    # 10. lookup table entries are stored in the chunk's dtype
    okl = "lookup_table.astype(block.dtype).tobytes()" in ftext(enc)
    col.add(rule + ".tables", enc, "lookup_table.astype(block.dtype).tobytes()",
            okl, "" if okl else "lookup table is not serialised in the label "
            "dtype", undecided=not okl)


# ---------------------------------------------------------------------
# sharded v1
# ---------------------------------------------------------------------
def _sizes_of_written(col, rule, close):
    """Offsets in the shard index are running sums of the sizes of what was
    written: inside each writing loop of Shard.close, every `n += len(B)` must
    measure the very bytes handed to `write(...)` in that iteration (the
    encoded buffer, not the one before encoding)."""
    import copy as _cp
    from .dataflow import _Subst

    def subst(expr, env):
        e = _Subst({k: v for k, v in env.items()}).visit(_cp.deepcopy(expr))
        return e

    loops = [st for st in stmts_of(close.node) if isinstance(st, ast.For)]
    n = 0
    for loop in loops:
        env, writes, lens = {}, [], []
        for st in loop.body:
            if isinstance(st, ast.Assign) and len(st.targets) == 1 and \
                    isinstance(st.targets[0], ast.Name):
                env[st.targets[0].id] = subst(st.value, env)
                continue
            if isinstance(st, ast.For):
                # for piece in E: write(piece)  ==  write(E)
                ws = [c for c in calls_in(st) if isinstance(c.func, ast.Attribute)
                      and c.func.attr == "write" and len(c.args) == 1]
                if ws and isinstance(st.target, ast.Name) and all(
                        norm(c.args[0]) == st.target.id for c in ws):
                    writes.append(norm(subst(st.iter, env)))
                continue
            for c in calls_in(st):
                if isinstance(c.func, ast.Attribute) and \
                        c.func.attr == "write" and len(c.args) == 1:
                    writes.append(norm(subst(c.args[0], env)))
            if isinstance(st, ast.AugAssign) and isinstance(st.op, ast.Add):
                for c in walk_local(st.value):
                    if isinstance(c, ast.Call) and call_name(c) == "len" and \
                            c.args:
                        lens.append((norm(subst(c.args[0], env)), st))
        if not writes or not lens:
            continue
        for ltxt, st in lens:
            n += 1
            ok = ltxt in writes
            col.add(rule + ".size-of-written", close, norm(st)[:60], ok,
                    "the size added to the running offset is that of the "
                    "bytes written" if ok else
                    "the running offset grows by len(%s) but the bytes "
                    "written in this iteration are %s: with an index / data "
                    "encoding that changes the length (gzip) every later "
                    "byte range in the shard index is wrong"
                    % (ltxt[:60], [w[:60] for w in writes]), node=st)
    if n == 0:
        col.add(rule + ".size-of-written", close, "offset bookkeeping", True,
                "no loop that both writes and accumulates len(...) was "
                "recognised in Shard.close", undecided=True)


from .dataflow import single_defs as single_defs_, expand as expand_


def sharded_layout(repo, col, parts=("index", "name")):
    rule = "E-SPEC.sharded"
    if "index" not in parts:
        return _shard_file_name(repo, col, rule)
    close = repo.func("sharded_file_accessor", "Shard.close", inline=True)
    # shard index entries: "<Q" pairs, relative to the end of the index
    from .core import helper_closure

    def pack_format(h, c):
        """Format string (or 'f:<prefix>..<suffix>' for f-strings) of a
        struct.pack / <Struct constant>.pack call, else None."""
        nm = h.module.resolve(call_name(c) or "") or ""
        if nm == "struct.pack" and c.args:
            f = c.args[0]
            if isinstance(f, ast.Constant) and isinstance(f.value, str):
                return f.value, c.args[1:]
            if isinstance(f, ast.JoinedStr):
                parts = [v.value if isinstance(v, ast.Constant) else "#"
                         for v in f.values]
                return "".join(parts), c.args[1:]
            return "?", c.args[1:]
        if isinstance(c.func, ast.Attribute) and c.func.attr == "pack" and \
                isinstance(c.func.value, ast.Name):
            cv = h.module.const(c.func.value.id)
            if isinstance(cv, ast.Call) and (h.module.resolve(
                    call_name(cv) or "") or "") == "struct.Struct" and \
                    cv.args and isinstance(cv.args[0], ast.Constant):
                return cv.args[0].value, c.args
        return None
    packs = []
    base_close = getattr(close, "inlined_from", close)
    for h in [close] + [x for x in helper_closure(base_close)
                        if x is not base_close]:
        for c in calls_in(h.node):
            pf = pack_format(h, c)
            if pf is not None:
                packs.append((h, c, pf[0], pf[1]))
    if not packs:
        col.add(rule + ".index-format", close, "shard index packing", True,
                "no struct packing of the shard index recognised in "
                "Shard.close or its helpers", undecided=True)
    seen_txt = set()
    for h, c, fmt, vals in packs:
        if norm(c) in seen_txt:
            continue
        seen_txt.add(norm(c))
        okf = re.match(r"^<(#|[0-9]*)Q+$", fmt) is not None
        col.add(rule + ".index-format", h, norm(c)[:60], okf or fmt == "?",
                "" if okf else "shard index entries are little-endian "
                "uint64 ('<Q'), found %r" % fmt, node=c,
                undecided=fmt == "?")
        dep = set()
        for v in vals:
            dep |= names_in(v)
        defs = local_defs(h.node)
        clos = closure_names(h.node, dep, defs)
        def adds_index_length(v):
            # the index length added to an offset (not: used to count the
            # padding entries, compared, or subtracted)
            for x in ast.walk(v):
                if isinstance(x, ast.BinOp) and isinstance(x.op, ast.Add):
                    for side in (x.left, x.right):
                        t_ = norm(side)
                        if ("minishard_bits" in t_ or
                                "header_byte_length" in t_) and not any(
                                    isinstance(y, ast.BinOp) and isinstance(
                                        y.op, (ast.Sub, ast.FloorDiv))
                                    for y in ast.walk(side)):
                            return True
            return False
        bad = any(adds_index_length(d.value)
                  for n in clos for d in defs.get(n, []) if d.value is not None) \
            or any(adds_index_length(v) for v in vals)
        col.add(rule + ".index-origin", h, norm(vals[0])[:40] if vals else "-",
                not bad,
                "offsets are relative to the end of the shard index" if not bad
                else "shard index offsets include the index length: the "
                "format measures them from the end of the shard index",
                node=c)
    _sizes_of_written(col, rule, close)
    # slot placement by minishard number
    txt = ftext(close)
    owner = enclosing_stmt_map(close.node)
    positional = False
    for c in calls_in(close.node):
        nm = call_name(c) or ""
        if nm.endswith("pack_into") and len(c.args) >= 3:
            if any("key" in n or "minishard" in n.lower()
                   for n in names_in(c.args[2])) and "16" in norm(c.args[2]):
                positional = True
    for st in stmts_of(close.node):
        if isinstance(st, ast.For) and isinstance(st.iter, ast.Call) and \
                call_name(st.iter) == "range" and \
                "minishard_bits" in norm(st.iter) and any(
                    (call_name(c) or "").endswith("struct.pack")
                    for c in calls_in(st)):
            positional = True
        if isinstance(st, ast.Assign) and isinstance(st.targets[0], ast.Subscript) \
                and isinstance(st.targets[0].slice, ast.Slice) and \
                "16" in norm(st.targets[0].slice) and \
                "sh_idx" in norm(st.targets[0].value):
            positional = True
    # (the package's own reader finds minishards by their first id, so the
    # slot is a requirement of C04 - an external reader - only)
    if "no-slot" not in parts:
      col.add(rule + ".slot", close, "entry position depends on minishard number",
            positional,
            "" if positional else "shard index entries are appended in sorted "
            "key order and the remainder padded: the entry of minishard m "
            "lands in slot rank(m), not slot m, whenever a lower-numbered "
            "minishard of the shard is unused")
    # minishard index: (3, n) uint64, rows id delta / offset delta / size
    app = repo.func("sharded_file_accessor", "MiniShard.append", inline=True)
    appends = [c for c in calls_in(app.node)
               if (call_name(c) or "").endswith("np.append")]
    from .dataflow import single_defs as _sd, expand as _ex
    atab = _sd(app.node)
    aparams = [p_ for p_ in app.params if p_ != "self"]
    bufp = aparams[0] if aparams else "buf"
    cmcp = aparams[1] if len(aparams) > 1 else "cmc"
    exprs = [_strip_uint(_ex(c.args[1], atab)) for c in appends
             if len(c.args) == 2]
    vals = [norm(e) for e in exprs]
    defs = local_defs(app.node)
    # attribute that remembers the previously appended id
    last_attrs = {norm(st.targets[0]) for st in stmts_of(app.node)
                  if isinstance(st, ast.Assign) and len(st.targets) == 1
                  and isinstance(st.targets[0], ast.Attribute)
                  and norm(st.value) == cmcp}

    def is_delta(e):
        return isinstance(e, ast.BinOp) and isinstance(e.op, ast.Sub) and \
            norm(e.left) == cmcp and norm(e.right) in last_attrs
    ok_order = len(vals) == 3 and is_delta(exprs[0]) and \
        "offset" in vals[1] and vals[2] == "len(%s)" % bufp
    und_order = len(vals) != 3 or (not ok_order and not any(
        is_delta(e) for e in exprs) and not last_attrs)
    col.add(rule + ".minishard-rows", app, "append order %s" % vals,
            ok_order or und_order,
            "" if ok_order else "per-chunk triple is not (id delta, offset "
            "delta, size) in this order", undecided=und_order and not ok_order)
    okd = any(is_delta(e) for e in exprs) and bool(last_attrs)
    col.add(rule + ".minishard-rows", app, "id delta = cmc - previous id", okd,
            "" if okd else "chunk ids are not delta-encoded against the "
            "previously appended id", undecided=not okd and len(vals) != 3)
    # the flat header [id0, off0, len0, id1, ...] is written as three rows
    # (all ids, all offsets, all sizes).  The reshape / transpose / tobytes
    # combination is evaluated symbolically.
    base_close2 = getattr(close, "inlined_from", close)
    verdicts = []
    for h in [close] + [x for x in helper_closure(base_close2)
                        if x is not base_close2]:
        for c in calls_in(h.node):
            if not (isinstance(c.func, ast.Attribute)
                    and c.func.attr == "tobytes"):
                continue
            chain = c.func.value
            tdefs = single_defs_(h.node)
            chain = expand_(chain, tdefs, depth=3)
            if "header" not in norm(chain):
                continue
            toggles = 0
            t_order = kwarg(c, "order")
            if isinstance(t_order, ast.Constant) and t_order.value == "F":
                toggles += 1
            node_ = chain
            first3 = valid = None
            while True:
                if isinstance(node_, ast.Attribute) and node_.attr == "T":
                    toggles += 1
                    node_ = node_.value
                    continue
                if isinstance(node_, ast.Call) and isinstance(
                        node_.func, ast.Attribute) and \
                        node_.func.attr == "transpose" and not node_.args:
                    toggles += 1
                    node_ = node_.func.value
                    continue
                break
            if isinstance(node_, ast.Call) and (call_name(node_) or "")\
                    .split(".")[-1] == "reshape":
                is_np = (call_name(node_) or "").startswith(("np.", "numpy."))
                args_ = node_.args[1:] if is_np else node_.args
                shape = args_[0] if len(args_) == 1 and isinstance(
                    args_[0], (ast.Tuple, ast.List)) else (
                    ast.Tuple(elts=list(args_), ctx=ast.Load())
                    if len(args_) == 2 else None)
                order = kwarg(node_, "order")
                forder = isinstance(order, ast.Constant) and \
                    order.value == "F"
                if shape is not None and len(shape.elts) == 2:
                    if const_int(shape.elts[0]) == 3:
                        first3 = True
                    elif const_int(shape.elts[1]) == 3:
                        first3 = False
                if first3 is not None:
                    valid = (first3 and forder) or (not first3 and not forder)
            if first3 is None:
                verdicts.append((None, c))
                continue
            fields_first = first3 if toggles % 2 == 0 else not first3
            verdicts.append((bool(valid) and fields_first, c))
    okr = any(v is True for v, _ in verdicts)
    badr = [c for v, c in verdicts if v is False]
    col.add(rule + ".minishard-rows", close,
            "reshape(header, (3, n), order='F').tobytes(order='C')",
            okr and not badr or (not badr and not okr),
            "" if okr and not badr else "interleaved triples are not "
            "transposed into the three rows the format stores",
            node=badr[0] if badr else None,
            undecided=not okr and not badr)
    rd = repo.func("sharded_base", "ReadableMiniShardCMC.fetch_cmc_chunk")
    rtxt = ftext(rd)
    pats = ["self.minishard_index[2 * self.num_chunks + chunk_idx]",
            "self.num_chunks, self.num_chunks + chunk_idx + 1",
            "2 * self.num_chunks, 2 * self.num_chunks + chunk_idx",
            "self.parent_shard.header_byte_length"]
    for p in pats:
        ok = p in rtxt
        col.add(rule + ".reader-rows", rd, p, ok, "" if ok else
                "reader does not address the minishard index rows in the "
                "recognised form `%s`" % p, undecided=not ok)
    ini = repo.func("sharded_base", "ReadableMiniShardCMC.__init__")
    itxt = ftext(ini)
    for p, why in (("np.frombuffer(header_buffer, dtype=np.uint64)",
                    "minishard index is not read as uint64"),
                   ("len(self.minishard_index) % 3 != 0",
                    "index length is not checked to be a multiple of 3")):
        col.add(rule + ".reader-rows", ini, p, p in itxt, "" if p in itxt
                else why, undecided=p not in itxt)
    if "name" in parts:
        _shard_file_name(repo, col, rule)


def _shard_file_name(repo, col, rule):
    # file name: lower-case hex, zero padded to ceil(shard_bits / 4)
    sc = repo.func("sharded_base", "ShardCMC.__init__")
    pad = [c for c in calls_in(sc.node) if isinstance(c.func, ast.Attribute)
           and c.func.attr in ("rjust", "zfill")]
    if not pad:
        col.add(rule + ".file-name", sc, "hex name", True,
                "file name construction not in the recognised form",
                undecided=True)
    else:
        c = pad[0]
        sdefs = local_defs(sc.node)
        subst = {}
        for nm_, ds_ in sdefs.items():
            vs_ = [d.value for d in ds_ if d.value is not None
                   and d.kind == "assign" and d.index is None]
            if len(vs_) == 1:
                subst[nm_] = vs_[0]
        w = _canon(c.args[0], subst)
        okw = w in ("CEILDIV(self.shard_spec.shard_bits, 4)",)
        col.add(rule + ".file-name", sc, "pad width %s" % norm(c.args[0]), okw,
                "" if okw else "shard file names are padded to %s digits, the "
                "format prescribes ceil(shard_bits / 4)" % norm(c.args[0]),
                node=c)
        fill = c.args[1].value if len(c.args) > 1 and \
            isinstance(c.args[1], ast.Constant) else ("0" if c.func.attr ==
                                                      "zfill" else None)
        col.add(rule + ".file-name", sc, "fill %r" % fill, fill == "0",
                "" if fill == "0" else "padding character is %r" % fill)
        base = norm(c.func.value)
        okh = base.startswith("hex(") and base.endswith("[2:]")
        col.add(rule + ".file-name", sc, base, okh, "" if okh else
                "name is not the lower-case hexadecimal shard number",
                undecided=not okh)
    oks = "f'{self.shard_key_str}.shard'" in ftext(sc)
    col.add(rule + ".file-name", sc, "<hex>.shard", oks, "" if oks else
            "file suffix is not .shard", undecided=not oks)
    # header length
    cw = repo.func("sharded_base", "CMCReadWrite.__init__")
    okh = _canon([d.value for d in local_defs(cw.node).get("x", [])] and None) \
        is None
    htxt = ftext(cw)
    okh = "int(2 ** self.shard_spec.minishard_bits * 16)" in htxt
    col.add(rule + ".index-length", cw, "2 ** minishard_bits * 16", okh,
            "" if okh else "shard index length is not 16 bytes per minishard",
            undecided=not okh)


def _lowmask_width(node, fn_defs):
    """Width expression n if node is ~(MAX >> n << n) or (1 << n) - 1."""
    if isinstance(node, ast.UnaryOp) and isinstance(node.op, ast.Invert):
        x = node.operand
        if isinstance(x, ast.BinOp) and isinstance(x.op, ast.LShift) and \
                isinstance(x.left, ast.BinOp) and \
                isinstance(x.left.op, ast.RShift) and \
                norm(x.right) == norm(x.left.right) and (
                    "MAX" in norm(x.left.left).upper() or
                    const_int(_strip_uint(x.left.left)) == 2 ** 64 - 1):
            return x.right
    if isinstance(node, ast.BinOp) and isinstance(node.op, ast.Sub) and \
            const_int(node.right) == 1 and isinstance(node.left, ast.BinOp) \
            and isinstance(node.left.op, ast.LShift) and \
            const_int(node.left.left) == 1:
        return node.left.right
    return None


def _strip_uint(node):
    while isinstance(node, ast.Call) and (call_name(node) or "").endswith(
            "uint64") and len(node.args) == 1:
        node = node.args[0]
    return node


def routing_bits(repo, col):
    rule = "E-SPEC.bits"
    want = {"minishard_mask": "self.minishard_bits",
            "preshift_mask": "self.preshift_bits",
            "shard_mask": "self.minishard_bits + self.shard_bits"}
    for prop, width in want.items():
        fn = repo.func("sharded_base", "ShardSpec." + prop)
        defs = local_defs(fn.node)
        found = None
        for n in walk_local(fn.node):
            w = _lowmask_width(n, defs)
            if w is not None:
                found = (n, w)
        if found is None:
            col.add(rule + ".mask", fn, prop, True, "mask construction not in "
                    "a recognised low-bits form", undecided=True)
            continue
        n, w = found
        wexpr = w
        if isinstance(w, ast.Name):
            ds = [d.value for d in defs.get(w.id, []) if d.value is not None]
            if ds:
                wexpr = ds[0]
        got = _canon(_strip_uint(wexpr))
        ok = got == canon_src(width)
        col.add(rule + ".mask", fn, "%s: low %s bits" % (prop, got), ok,
                "" if ok else "%s covers the low %s bits, the format "
                "prescribes %s" % (prop, got, width), node=n)
        if prop == "shard_mask":
            oka = any(isinstance(x, ast.BinOp) and isinstance(x.op, ast.BitAnd)
                      and "~self.minishard_mask" in norm(x)
                      for x in walk_local(fn.node))
            col.add(rule + ".mask", fn, "& ~minishard_mask", oka,
                    "" if oka else "shard mask does not exclude the minishard "
                    "bits")
    rw = repo.module("sharded_base")
    # the private method that applies the pre-shift and the hash is found by
    # what it does (it calls id_hash), not by its name
    hname = None
    cls_rw = rw.classes.get("CMCReadWrite")
    if cls_rw is not None:
        cands = [mn for mn, mf in cls_rw.methods.items()
                 if any((call_name(c) or "").endswith("id_hash")
                        for c in calls_in(mf.node))]
        # the one the routing methods call (an extracted helper of it also
        # calls id_hash)
        users = " ".join(norm(cls_rw.methods[k].node)
                         for k in ("get_minishard_key", "get_shard_key")
                         if k in cls_rw.methods)
        used = [mn for mn in cands if "self.%s(" % mn in users]
        # (after inlining the routing methods call id_hash themselves)
        cands = [mn for mn in cands
                 if mn not in ("get_minishard_key", "get_shard_key")] or cands
        hname = (used or cands or [None])[0]
    if hname is None:
        col.add(rule + ".routing", "sharded_base:CMCReadWrite",
                "hash of the pre-shifted id", True, "no method of "
                "CMCReadWrite calls id_hash", undecided=True)
    for qn, pat, why in (
            ("CMCReadWrite.%s" % hname,
             "self.shard_spec.id_hash(cmc >> self.shard_spec.preshift_bits)",
             "identifier is not shifted right by preshift_bits before hashing"),
            ("CMCReadWrite.get_minishard_key",
             "self.shard_spec.minishard_mask & self.%s(cmc)" % hname,
             "minishard number is not the low minishard_bits of the hashed id"),
            ("CMCReadWrite.get_shard_key",
             "(self.shard_spec.shard_mask & self.%s(cmc)) >> "
             "self.shard_spec.minishard_bits" % hname,
             "shard number is not bits [minishard_bits, minishard_bits + "
             "shard_bits) of the hashed id")):
        if hname is None or not repo.has_func("sharded_base", qn):
            continue
        fn = repo.func("sharded_base", qn)
        pn = [p_ for p_ in fn.params if p_ != "self"]
        pat = pat.replace("cmc", pn[0]) if pn else pat
        from .dataflow import alias_table as _at, expand as _exr, \
            single_defs as _sdr
        rtab = dict(_sdr(fn.node), **_at(fn.node))
        rets = [norm(_exr(s.value, rtab)) for s in stmts_of(fn.node)
                if isinstance(s, ast.Return) and s.value is not None]
        alt = pat.replace(" & ", " @ ").split(" @ ")
        # the hash helper may have been inlined into the routing methods
        hinl = "self.shard_spec.id_hash(%s >> self.shard_spec.preshift_bits)" \
            % (pn[0] if pn else "cmc")
        hcall = "self.%s(%s)" % (hname, pn[0] if pn else "cmc")
        rets = [r.replace(hinl, hcall) for r in rets] \
            if qn != "CMCReadWrite.%s" % hname else rets
        ok = any(r == pat or (len(alt) == 2 and r == "%s & %s" % (alt[1], alt[0]))
                 for r in rets)
        col.add(rule + ".routing", fn, rets[0] if rets else "-", ok,
                "" if ok else why, undecided=not ok and len(rets) != 1)
    idh = repo.func("sharded_base", "ShardSpec.id_hash")
    rets = [norm(s.value) for s in stmts_of(idh.node) if isinstance(s, ast.Return)]
    col.add(rule + ".routing", idh, "identity hash", rets == [idh.params[-1]],
            "" if rets == [idh.params[-1]] else "id_hash is not the identity "
            "although only 'identity' is accepted")
    # next expected id: varies exactly the non-routing bits
    nx = repo.func("sharded_file_accessor", "MiniShard.next_cmc", inline=True)
    rets = [s.value for s in stmts_of(nx.node) if isinstance(s, ast.Return)
            and s.value is not None]
    ok = False
    detail = "next_cmc is not (count >> p << (p+s+m)) + fixed bits + (count & "\
        "preshift_mask)"
    if rets:
        terms = []

        def flat(n):
            if isinstance(n, ast.BinOp) and isinstance(n.op, (ast.Add,
                                                              ast.BitOr)):
                flat(n.left)
                flat(n.right)
            else:
                terms.append(n)
        from .dataflow import single_defs, expand
        from .core import attr_constants, expand_attrs
        ntab = single_defs(nx.node)
        atab = attr_constants(repo, repo.cls("sharded_file_accessor",
                                             "MiniShard"))
        # attributes that only name an expression over the shard spec
        # (self._low_shift = shard_spec.preshift_bits) are expanded; the
        # routing bits and the counter keep their names
        atab = {k: v for k, v in atab.items()
                if k not in ("masked_bits", "shard_spec") and
                "shard_spec" in norm(v)}
        from .core import expand_properties
        flat(expand_properties(repo, nx.module,
                               expand_attrs(expand(rets[-1], ntab), atab)))
        t = [norm(x) for x in terms]
        hi = [x for x in terms if isinstance(x, ast.BinOp)
              and isinstance(x.op, ast.LShift)]
        # the per-minishard counter: the attribute append() increments
        cnt = "self._appended"
        appf = repo.func("sharded_file_accessor", "MiniShard.append")
        incs = [norm(x.target) for x in stmts_of(appf.node)
                if isinstance(x, ast.AugAssign) and isinstance(x.op, ast.Add)
                and norm(x.target).startswith("self.")
                and "1" in norm(x.value)]
        if len(incs) == 1:
            cnt = incs[0]
        lo = [x for x in t if x in (
            "%s & self.shard_spec.preshift_mask" % cnt,
            "self.shard_spec.preshift_mask & %s" % cnt)]
        mid = [x for x in t if x == "self.masked_bits"]
        okhi = False
        if hi:
            h = hi[0]
            sh = _canon(h.right)
            okhi = sh == canon_src("self.shard_spec.preshift_bits + "
                                   "self.shard_spec.shard_bits + "
                                   "self.shard_spec.minishard_bits") and \
                norm(h.left) == "%s >> self.shard_spec.preshift_bits" % cnt
        ok = len(terms) == 3 and okhi and bool(lo) and bool(mid)
        # positively wrong: the recognised high part is shifted by something
        # else than p + s + m, or the low part is masked with another mask
        spec_only = bool(hi) and not (
            names_in(hi[0].right) - {"self", "np", "numpy", "int"}) and \
            "shard_spec." in norm(hi[0].right)
        wrong_hi = bool(hi) and not okhi and spec_only and \
            norm(hi[0].left).startswith(cnt)
        wrong_lo = any(x.startswith("%s & " % cnt) or
                       x.endswith(" & %s" % cnt) for x in t) and not lo
        nid_und = not ok and not wrong_hi and not wrong_lo
    else:
        nid_und = True
    col.add(rule + ".next-id", nx, "three disjoint bit ranges", ok or nid_und,
            "high part [p+m+s, ..), fixed routing bits [p, p+m+s), low part "
            "[0, p)" if ok else detail, undecided=nid_und and not ok)
    st = repo.func("sharded_file_accessor", "MiniShard.store_cmc_chunk", inline=True)
    want_mb = "(self.shard_spec.minishard_mask | self.shard_spec.shard_mask) " \
        "<< self.shard_spec.preshift_bits & cmc"
    from .dataflow import single_defs as _sd, expand as _ex
    okm = want_mb in ftext(st) or any(
        want_mb in norm(_ex(n.value, _sd(st.node)))
        for n in walk_local(st.node) if isinstance(n, ast.Assign))
    col.add(rule + ".next-id", st, "masked_bits = routing bits of the first id",
            okm, "" if okm else "fixed routing bits are not ((minishard_mask | "
            "shard_mask) << preshift_bits) & cmc", undecided=not okm and
            "masked_bits" not in ftext(st))
    nv = ok or "self._appended" in ftext(nx)
    col.add(rule + ".next-id", nx, "next id counts the appended chunks", nv,
            "" if nv else "next id is not derived from the append count")


def morton_loop(repo, col):
    rule = "E-SPEC.morton"
    fn = repo.func("sharded_base", "ShardVolumeSpec.compressed_morton_code")
    loops = [s for s in stmts_of(fn.node) if isinstance(s, ast.For)]
    if len(loops) < 2:
        col.add(rule, fn, "loop nest", True, "not a two-level loop nest "
                "(vectorised?)", undecided=True)
        return
    outer = loops[0]
    inner = [s for s in outer.body if isinstance(s, ast.For)]
    if not inner:
        col.add(rule, fn, "loop nest", True, "inner loop not found",
                undecided=True)
        return
    inner = inner[0]
    i = outer.target.id if isinstance(outer.target, ast.Name) else None
    dim = inner.target.id if isinstance(inner.target, ast.Name) else None
    # locals that only hold an attribute (num_bits = self.num_bits)
    from .dataflow import single_defs as _sdm, expand as _exm
    _tab = {k: v for k, v in _sdm(fn.node).items()
            if isinstance(v, ast.Attribute)}
    ok_outer = norm(_exm(outer.iter, _tab)) in ("range(max(self.num_bits))",)
    col.add(rule, fn, "for %s in %s" % (i, norm(outer.iter)), ok_outer,
            "bit index is the outer loop" if ok_outer else
            "outer loop is not over the bit index range(max(num_bits))",
            undecided=not ok_outer and "num_bits" not in norm(outer.iter))
    ok_inner = norm(inner.iter) == "range(3)"
    col.add(rule, fn, "for %s in %s" % (dim, norm(inner.iter)), ok_inner,
            "dimensions visited x, y, z for each bit" if ok_inner else
            "inner loop does not visit the dimensions in x, y, z order",
            undecided=not ok_inner and "3" not in norm(inner.iter))
    conds = [s for s in inner.body if isinstance(s, ast.If)]
    okc, undc = False, False
    form = "-"
    if conds:
        from .dataflow import single_defs, expand, holds as _holds
        test = expand(conds[0].test, single_defs(fn.node))
        test = expand(test, _tab)
        form = norm(test)
        # condition under which the axis contributes a bit: the test itself
        # when the contribution is in the body, its negation when the body
        # only skips (`continue`)
        skips = all(isinstance(x, (ast.Continue, ast.Pass)) or (
            isinstance(x, ast.Expr) and isinstance(x.value, ast.Constant))
            for x in conds[0].body) and not conds[0].orelse
        atoms = _holds(test, not skips)
        verdict = None
        for a_ in atoms:
            for b_ in (a_, a_.flipped()):
                l, r = norm(b_.left), norm(b_.right)
                if l in ("2 ** %s" % i, "1 << %s" % i) and \
                        r == "self.grid_sizes[%s]" % dim:
                    verdict = b_.op == "<"
                elif l == i and r == "self.num_bits[%s]" % dim:
                    # equivalent iff num_bits = ceil(log2(grid_size))
                    ini = repo.func("sharded_base", "ShardVolumeSpec.__init__")
                    verdict = b_.op == "<" and \
                        "math.ceil(math.log2(grid_size))" in ftext(ini)
        if verdict is None:
            undc = True
        else:
            okc = verdict
    col.add(rule, fn, "skip exhausted axes: %s" % form, okc or undc,
            "an axis contributes bit i only while 2**i < its grid size"
            if okc else "axis-exhaustion test `%s` is not `2**i < grid_size` "
            "(strict): axes keep (or stop) contributing bits at the wrong "
            "level, so identifiers differ from the specification" % form,
            undecided=(not conds or undc) and not okc)
    if conds:
        coordp = [p_ for p_ in fn.params if p_ != "self"]
        coordp = coordp[0] if coordp else "grid_coords"
        nodes = list(ast.walk(inner))
        extract = any(isinstance(n, ast.BinOp) and isinstance(n.op, ast.RShift)
                      and "%s[%s]" % (coordp, dim) in norm(n.left)
                      and i in names_in(n.right) for n in nodes)
        places = [n.right.id for n in nodes if isinstance(n, ast.BinOp)
                  and isinstance(n.op, ast.LShift)
                  and isinstance(n.right, ast.Name)]
        advanced = any(isinstance(n, ast.AugAssign) and
                       isinstance(n.op, ast.Add) and
                       norm(n.target) in places for n in nodes)
        masked = any(isinstance(n, ast.BinOp) and isinstance(n.op, ast.BitAnd)
                     for n in nodes)
        okb = extract and bool(places) and advanced and masked
        col.add(rule, fn, "bit (coord >> i) & 1 placed at running position j",
                okb, "" if okb else "bit extraction / placement not in the "
                "recognised form", undecided=not okb)
    ini = repo.func("sharded_base", "ShardVolumeSpec.__init__")
    okn = "math.ceil(math.log2(grid_size))" in ftext(ini)
    col.add(rule, ini, "num_bits = ceil(log2(grid_size))", okn, "" if okn else
            "bits per axis is not ceil(log2(grid size))", undecided=not okn
            and "bit_length" not in ftext(ini))
    okg = "math.ceil(size / chunk_size)" in ftext(ini)
    col.add(rule, ini, "grid_size = ceil(size / chunk_size)", okg,
            "" if okg else "grid size is not ceil(size / chunk size)",
            undecided=not okg)


# ---------------------------------------------------------------------
# meshes
# ---------------------------------------------------------------------
def mesh_formats(repo, col):
    rule = "E-SPEC.mesh"
    w = repo.func("mesh", "save_mesh_as_precomputed")
    wtxt = ftext(w)
    for p, why in (("struct.pack('<I', vertices.shape[0])",
                    "vertex count is not a little-endian uint32"),
                   ("vertices.astype('<f').tobytes(order='C')",
                    "vertices are not written as little-endian float32 in C "
                    "(row-major) order"),
                   ("triangles.astype('<I', casting='safe').tobytes(order='C')",
                    "triangles are not written as little-endian uint32 in C "
                    "(row-major) order")):
        ok = p in wtxt
        # explicit non-C orders are violations, other shapes are undecided
        scope_calls = list(calls_in(w.node))
        for c0 in list(scope_calls):
            h = w.module.functions.get(call_name(c0) or "")
            if h is not None:
                scope_calls += calls_in(h.node)
        bad_order = any(isinstance(k.value, ast.Constant) and k.arg == "order"
                        and k.value.value in ("F", "K", "A")
                        for c in scope_calls for k in c.keywords)
        col.add(rule + ".writer", w, p, ok, "" if ok else why,
                undecided=not ok and not bad_order)
    writes = [c for c in calls_in(w.node) if isinstance(c.func, ast.Attribute)
              and c.func.attr == "write"]
    from .dataflow import single_defs as _sdw, expand as _exw
    wtab = _sdw(w.node)
    wtexts = [norm(_exw(c.args[0], wtab)) if c.args else "" for c in writes]

    def _kind(t):
        if ".pack(" in t and ("shape[0]" in t or "len(" in t):
            return "count"
        if "vertices" in t and "triangles" not in t:
            return "vertices"
        if "triangles" in t and "vertices" not in t:
            return "triangles"
        return "?"
    kinds = [_kind(t) for t in wtexts]
    ok_o = kinds == ["count", "vertices", "triangles"]
    # wrong only if all three are recognised and out of order
    bad_o = sorted(kinds) == ["count", "triangles", "vertices"] and not ok_o
    col.add(rule + ".writer", w, "count, vertices, triangles in this order",
            ok_o or not bad_o, "" if ok_o else "the three sections are written "
            "as %s" % kinds, undecided=not ok_o and not bad_o)
    r = repo.func("mesh", "read_precomputed_mesh")
    rtxt = ftext(r)
    for p, why in (("struct.unpack('<I', buf)[0]", "count not read as '<I'"),
                   ("np.frombuffer(buf, '<f')", "vertices not read as '<f'"),
                   ("(num_vertices, 3)", "vertices not shaped (n, 3)"),
                   ("np.frombuffer(buf, '<I')", "triangles not read as '<I'"),
                   ("(-1, 3)", "triangles not shaped (m, 3)"),
                   ("file.read(4 * 3 * num_vertices)",
                    "vertex block is not 12 bytes per vertex")):
        ok = p in rtxt
        col.add(rule + ".reader", r, p, ok, "" if ok else why,
                undecided=not ok)
    # every binary format literal on either side is little-endian '<I' / '<f'
    for fn_ in (w, r):
        for c in calls_in(fn_.node):
            nm = call_name(c) or ""
            lits = []
            if nm.startswith("struct.") and c.args:
                lits.append(c.args[0])
            if nm.endswith("frombuffer") and len(c.args) > 1:
                lits.append(c.args[1])
            if nm.endswith("frombuffer") and kwarg(c, "dtype") is not None:
                lits.append(kwarg(c, "dtype"))
            if isinstance(c.func, ast.Attribute) and c.func.attr == "astype" \
                    and c.args:
                lits.append(c.args[0])
            for lit in lits:
                if isinstance(lit, ast.Constant) and isinstance(lit.value, str):
                    okf = lit.value in ("<I", "<f", "<f4", "<u4")
                    col.add(rule + ".format", fn_, "%s %r" % (nm or "astype",
                                                               lit.value), okf,
                            "" if okf else "binary format %r: the mesh format "
                            "stores little-endian uint32 / float32"
                            % lit.value, node=c)
    orders = [k.value.value for c in calls_in(r.node) for k in c.keywords
              if k.arg == "order" and isinstance(k.value, ast.Constant)]
    col.add(rule + ".reader", r, "reshape order %s" % orders,
            all(o == "C" for o in orders), "" if all(o == "C" for o in orders)
            else "reader reshapes in non-C order")
    # winding: flipped exactly when det < 0
    a = repo.func("mesh", "affine_transform_mesh", inline=True)
    flips = []

    def rec(stmts, conds):
        for st in stmts:
            if isinstance(st, ast.If):
                rec(st.body, conds + [(st.test, True)])
                rec(st.orelse, conds + [(st.test, False)])
            elif any((call_name(c) or "").endswith("flip") for c in calls_in(st)):
                flips.append((st, conds))
    rec(a.node.body, [])
    if not flips:
        # reversed some other way (index swap, fancy indexing)?
        touched = any(
            isinstance(x, (ast.Assign, ast.AugAssign)) and
            "triangles" in norm(x.targets[0] if isinstance(x, ast.Assign)
                                else x.target)
            for x in ast.walk(a.node))
        col.add(rule + ".winding", a, "np.flip(triangles, axis=1)", touched,
                "triangle winding is never reversed for mirroring transforms"
                if not touched else "the triangles are re-ordered by a "
                "construct other than np.flip", undecided=touched)
    for st, conds in flips:
        c = [x for x in calls_in(st) if (call_name(x) or "").endswith("flip")][0]
        ax = kwarg(c, "axis")
        okax = ax is not None and const_int(ax) == 1
        col.add(rule + ".winding", a, norm(c), okax, "" if okax else
                "flip is not along axis 1 (the three vertex indices of each "
                "triangle)", node=c)
        from .dataflow import single_defs, expand
        table = single_defs(a.node)
        okc, undc = False, False
        if len(conds) == 1 and conds[0][1] is True:
            t = expand(conds[0][0], table, depth=4)
            # bool(<test>) is <test>; calls of expression helpers (also of
            # other modules) inside the test are replaced by what they return
            from .dataflow import inline_helper_call
            from .core import resolve_local_call
            import copy as _cp
            for _ in range(3):
                if isinstance(t, ast.Call) and call_name(t) == "bool" and \
                        len(t.args) == 1:
                    t = t.args[0]
                repl = {}
                for cc in ast.walk(t):
                    if isinstance(cc, ast.Call):
                        h_ = resolve_local_call(a, cc)
                        if h_ is not None:
                            e2 = inline_helper_call(cc, h_.node,
                                                    drop_self=False)
                            if e2 is not None:
                                repl[id(cc)] = e2
                if not repl:
                    break

                class _R(ast.NodeTransformer):
                    def visit_Call(self, node):
                        if id(node) in repl:
                            return _cp.deepcopy(repl[id(node)])
                        return self.generic_visit(node)
                t = _R().visit(t)
            if isinstance(t, ast.Call) and call_name(t) == "bool" and \
                    len(t.args) == 1:
                t = t.args[0]
            det = None
            if isinstance(t, ast.Compare) and len(t.ops) == 1:
                l, r, op = t.left, t.comparators[0], t.ops[0]
                if const_int(l) == 0 and isinstance(op, ast.Gt):
                    l, r, op = r, l, ast.Lt()
                if isinstance(l, ast.Call) and (call_name(l) or "").endswith(
                        "det") and len(l.args) == 1:
                    det = l.args[0]
                    okc = isinstance(op, ast.Lt) and (
                        const_int(r) == 0 or norm(r) in ("0.0", "0.0"))
                    dtxt = norm(expand(det, table, depth=4))
                    if dtxt != "coord_transform[:3, :3]" and okc:
                        # the 3x3 part reached through a helper's record
                        okc, undc = False, "[:3, :3]" not in dtxt
                        if "[:3, :3]" in dtxt:
                            okc = True
            if det is None and "det(" not in norm(t):
                undc = True       # sign obtained some other way
        col.add(rule + ".winding", a, "flip iff det < 0", okc or undc,
                "" if okc else "winding is reversed under `%s`, not exactly "
                "when det(R) < 0" % " and ".join(
                    ("" if t else "not ") + norm(x) for x, t in conds),
                node=st, undecided=undc)
    atxt = norm(a.node)  # count-based: keep exact
    okt = "vertices = np.dot(coord_transform[:3, :3], vertices)" in atxt and \
        "vertices += coord_transform[:3, 3, np.newaxis]" in atxt and \
        atxt.count("vertices = vertices.T") == 2
    col.add(rule + ".transform", a, "v' = R v + t on column vectors", okt,
            "" if okt else "vertex transform not in the recognised form",
            undecided=not okt)
    # fragment links
    f = repo.func("scripts.link_mesh_fragments", "make_mesh_fragment_links")
    ftxt = ftext(f)
    for p, why in (("filename_format = '{0}/{1}:0'", "default link file name "
                    "is not <mesh dir>/<label>:0"),
                   ("filename_format = '{0}/{1}'", "--no-colon-suffix name is "
                    "not <mesh dir>/<label>"),
                   ("json.dumps({'fragments': fragment_list}",
                    "link file is not {\"fragments\": [...]}"),
                   ("filename_format.format(mesh_dir, numeric_label)",
                    "link name not built from the mesh dir and the label"),
                   ("fragment_list = line[1:]", "fragments are not the "
                    "remaining cells of the CSV row"),
                   ("numeric_label = int(line[0])", "label is not the first "
                    "cell")):
        ok = p in ftxt
        col.add(rule + ".links", f, p, ok, "" if ok else why, undecided=not ok)


def half_voxel(repo, col):
    rule = "E-SPEC.transform"
    fn = repo.func("transform", "nifti_to_neuroglancer_transform")
    found = None
    for st in stmts_of(fn.node):
        if isinstance(st, ast.AugAssign) and isinstance(st.op, ast.Sub):
            found = st
        if isinstance(st, ast.Assign) and isinstance(st.value, ast.BinOp) and \
                isinstance(st.value.op, ast.Sub) and \
                norm(st.targets[0]) == norm(st.value.left):
            found = st
    if found is None:
        col.add(rule, fn, "translation -= R @ (0.5 * voxel)", True,
                "no compensation statement found", undecided=True)
        return
    tnode = found.target if isinstance(found, ast.AugAssign) \
        else found.targets[0]
    tgt = norm(tnode)
    val = found.value if isinstance(found, ast.AugAssign) else found.value.right
    okt = tgt.endswith("[:3, 3]")
    und = False
    if not okt and isinstance(tnode, ast.Name):
        # a named view of the translation column
        vs = [norm(d.value) for d in local_defs(fn.node).get(tnode.id, [])
              if d.value is not None and d.kind == "assign"]
        okt = bool(vs) and all(v.endswith("[:3, 3]") for v in vs)
        und = not vs
    col.add(rule, fn, "target %s" % tgt, okt, "" if okt else
            "compensation is not applied to the translation column",
            undecided=not okt and und)
    # product R . h with R on the left
    left = right = None
    if isinstance(val, ast.Call) and (call_name(val) or "").endswith("dot"):
        if isinstance(val.func, ast.Attribute) and \
                not (call_name(val) or "").startswith(("np.", "numpy.")):
            left, right = val.func.value, val.args[0]
        elif len(val.args) == 2:
            left, right = val.args
    elif isinstance(val, ast.BinOp) and isinstance(val.op, ast.MatMult):
        left, right = val.left, val.right
    if left is None:
        col.add(rule, fn, norm(val)[:60], True, "product form not recognised",
                undecided=True)
        return
    lt, rt = norm(left), norm(right)
    defs = local_defs(fn.node)

    def expand(t, node):
        if isinstance(node, ast.Name):
            ds = [d.value for d in defs.get(node.id, []) if d.value is not None]
            if len(ds) == 1:
                return norm(ds[0])
        return t
    lt, rt = expand(lt, left), expand(rt, right)
    okm = "[:3, :3]" in lt and ("0.5" in rt or "/ 2" in rt) and \
        "voxel_size" in rt
    swapped = "[:3, :3]" in rt and ("0.5" in lt or "/ 2" in lt)
    if not okm and not swapped:
        col.add(rule, fn, "%s . %s" % (lt, rt), True, "operands of the "
                "half-voxel product not recognised", undecided=True)
        return
    col.add(rule, fn, "%s . %s" % (lt, rt), okm,
            "translation -= R (0.5 v): matrix on the left" if okm else
            "half-voxel shift is `%s . %s`: the rotation/scale block must "
            "multiply the half-voxel vector from the left (R h, not h R = "
            "R^T h)" % (lt, rt), node=found)
    rets = [s for s in stmts_of(fn.node) if isinstance(s, ast.Return)]
    okc = "np.array(nifti_transformation_matrix, copy=True" in ftext(fn)
    col.add(rule, fn, "input matrix copied", okc, "" if okc else
            "the caller's matrix is modified in place", nontrivial=False,
            undecided=not okc)
    # volume_reader: direction cosines and translation
    vr = repo.func("volume_reader", "nibabel_image_to_info")
    vtxt = ftext(vr)
    for k in range(3):
        p = "transform[:, %d] = affine[:, %d] / voxel_sizes[%d]" % (k, k, k)
        ok = p in vtxt
        col.add(rule + ".cosines", vr, p, ok, "" if ok else "column %d of the "
                "transform is not affine column %d divided by voxel size %d"
                % (k, k, k), undecided=not ok and
                ("transform[:, %d]" % k) not in vtxt)
    p = "transform[:3, 3] = affine[:3, 3] * 1000000"
    col.add(rule + ".cosines", vr, p, p in vtxt, "" if p in vtxt else
            "translation is not the affine translation in nanometres",
            undecided=p not in vtxt and "transform[:3, 3]" not in vtxt)
    for p, why in (('"size": {list(shape[:3])}', "size is not shape[:3]"),
                   ('"num_channels": {(shape[3] if len(shape) >= 4 else 1)}',
                    "num_channels is not shape[3] (or 1)"),
                   ("[float(vs * 1000000) for vs in voxel_sizes[:3]]",
                    "resolution is not the voxel size in nanometres")):
        ok = p in vtxt
        col.add(rule + ".info", vr, p, ok, "" if ok else why, undecided=not ok)
