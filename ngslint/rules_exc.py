"""E-EXC: exception flow with partial-operation discharge.

Scope A (this file, decoders and mesh reader): every operation that is partial
on untrusted bytes must be discharged by one of the idioms D-try, D-guard,
D-slice, D-size, D-set; no tainted loop bound; explicit raises only of the
documented format-error class; the returned array has the requested shape.
"""
import ast

from .core import kwarg
from .core import (AnalysisError, dotted, norm, walk_local, const_int,
                   enclosing_stmt_map, stmts_of, block_always_raises,
                   raised_names, calls_in, call_name, PKG, canon_exc)
from .dataflow import (local_defs, names_in, closure_names, raise_guards,
                       holds)

TOTAL_FUNCS = {
    "len", "min", "max", "int", "float", "abs", "bytes", "bytearray", "tuple",
    "list", "enumerate", "zip", "range", "isinstance", "str", "format", "sum",
    "itertools.zip_longest", "io.BytesIO", "numpy.empty", "numpy.moveaxis",
    "numpy.prod", "numpy.any", "numpy.all", "numpy.ndindex", "numpy.squeeze",
    "numpy.bitwise_or", "print",
}
STRUCT_UNPACK = {"struct.unpack": 1, "struct.unpack_from": 1,
                 "struct.iter_unpack": 1}


class Scope:
    """Functions reachable from the entry points, with name-level taint."""

    def __init__(self, repo, entries, sources):
        # entries: [(module_short, qualname)]
        # sources: {(module_short, qualname): [tainted param names]}
        self.repo = repo
        self.funcs = {}
        self.taint = {}
        self.ret_taint = {}
        self.callers = {}      # callee key -> [(caller fn, call node)]
        self.entries = []
        work = []
        for ms, qn in entries:
            fn = repo.func(ms, qn)
            self.entries.append(fn)
            self.funcs[fn.key] = fn
            self.taint[fn.key] = set(sources.get((ms, qn), []))
            work.append(fn)
        while work:
            fn = work.pop()
            for call in calls_in(fn.node):
                callee = self.resolve(fn, call)
                if callee is None:
                    continue
                self.callers.setdefault(callee.key, []).append((fn, call))
                if callee.key not in self.funcs:
                    self.funcs[callee.key] = callee
                    self.taint.setdefault(callee.key, set())
                    work.append(callee)
        self._fixpoint()

    def _bound(self, meth):
        """A method as it is called through an object: its parameters
        without the receiver, so that they line up with the call's
        arguments.  Same key, node and CFG as the method."""
        if any(norm(d) == "staticmethod" for d in meth.node.decorator_list):
            return meth
        cache = self.__dict__.setdefault("_bound_views", {})
        if meth.key not in cache:
            class _BoundView(type(meth)):
                @property
                def params(self_):
                    ps = type(meth).params.fget(self_)
                    return ps[1:] if ps else ps
            v = _BoundView(meth.module, meth.qualname, meth.node,
                           cls=meth.cls, parent=meth.parent)
            v._cfg = None
            v.is_bound_view = True
            cache[meth.key] = v
        return cache[meth.key]

    def _class_named(self, fn, name, table):
        m = fn.module
        head, _, rest = name.partition(".")
        if "." not in name and name in m.classes:
            return m.classes[name]
        full = None
        if head in table:
            full = table[head] + ("." + rest if rest else "")
        if full and full.startswith(PKG + "."):
            modname, _, cname = full.rpartition(".")
            mod = self.repo.modules.get(modname)
            if mod and cname in mod.classes:
                self.repo.consulted.add(modname)
                return mod.classes[cname]
        return None

    def _class_of_call(self, fn, call, depth=0):
        """Class of the object a call evaluates to: a constructor of the
        package, or a function / method all of whose returns construct one
        class."""
        if depth > 2:
            return None
        h = self.resolve(fn, call)
        if h is None:
            return None
        if h.qualname.endswith(".__init__") and h.cls is not None:
            return h.cls
        found = set()
        for st in stmts_of(h.node):
            if isinstance(st, ast.Return):
                if not isinstance(st.value, ast.Call):
                    return None
                ci = self._class_of_call(h, st.value, depth + 1)
                if ci is None:
                    return None
                found.add(ci.key)
                last = ci
        return last if len(found) == 1 else None

    def _method(self, ci, mname):
        for cc in self.repo.mro(ci):
            if mname in cc.methods:
                return self._bound(cc.methods[mname])
        return None

    def resolve(self, fn, call):
        """Resolve a call to a function of this repository: module-level
        functions (incl. through function-local imports), constructors of
        its classes, methods called through self or through a local that
        holds a freshly constructed object."""
        f_ = call.func
        if isinstance(f_, ast.Attribute) and isinstance(f_.value, ast.Call):
            # <constructor or factory call>.method(...)
            ci = self._class_of_call(fn, f_.value)
            if ci is not None:
                return self._method(ci, f_.attr)
            return None
        name = call_name(call)
        if not name:
            return None
        m = fn.module
        if isinstance(f_, ast.Attribute) and isinstance(f_.value, ast.Name):
            recv = f_.value.id
            if recv == "self" and fn.cls is not None:
                h = self._method(fn.cls, f_.attr)
                if h is not None:
                    return h
            elif recv not in m.imports:
                ds = [d for d in local_defs(fn.node).get(recv, [])
                      if d.value is not None]
                if len(ds) == 1 and isinstance(ds[0].value, ast.Call) and \
                        ds[0].kind == "assign" and ds[0].index is None:
                    tb = dict(m.imports)
                    g_ = fn
                    while g_ is not None:
                        m._collect_imports(g_.node, tb)
                        g_ = g_.parent
                    ci = self._class_named(
                        fn, call_name(ds[0].value) or "", tb)
                    if ci is not None:
                        h = self._method(ci, f_.attr)
                        if h is not None:
                            return h
        # function-local imports
        table = dict(m.imports)
        f = fn
        while f is not None:
            m._collect_imports(f.node, table)
            f = f.parent
        head, _, rest = name.partition(".")
        full = None
        if head in table:
            full = table[head] + ("." + rest if rest else "")
        elif name in m.functions and "." not in name:
            return m.functions[name]
        if full and full.startswith(PKG + "."):
            modname, _, fname = full.rpartition(".")
            mod = self.repo.modules.get(modname)
            if mod and fname in mod.functions:
                self.repo.consulted.add(modname)
                return mod.functions[fname]
        # a constructor of a class of the package
        ci = self._class_named(fn, name, table)
        if ci is not None and not any(
                "Error" in (b or "") or "Exception" in (b or "")
                for b in ci.base_names):
            return self._method(ci, "__init__")
        return None

    def lib_name(self, fn, call):
        name = call_name(call)
        if not name:
            return None
        return fn.module.resolve(name)

    def _intrinsic(self, fn, expr, clos, defs):
        """The value derives from an intrinsic source (file.read(), or a
        tainted entry parameter) rather than from the caller's arguments."""
        exprs = [expr] + [d.value for n in clos for d in defs.get(n, [])
                          if d.value is not None]
        for e in exprs:
            for n in walk_local(e):
                if isinstance(n, ast.Call) and \
                        isinstance(n.func, ast.Attribute) and \
                        n.func.attr == "read" and \
                        isinstance(n.func.value, ast.Name) and \
                        n.func.value.id in fn.params:
                    return True
        return False

    # -- taint --------------------------------------------------------
    def expr_tainted(self, fn, expr):
        t = self.taint[fn.key]
        # an element (or view) of a trusted container is trusted whichever
        # index selects it: the index sub-expressions of such a subscript do
        # not taint the value
        skip = set()
        for n in walk_local(expr):
            if isinstance(n, ast.Subscript) and \
                    isinstance(n.ctx, ast.Load) and \
                    isinstance(n.value, ast.Name) and n.value.id not in t:
                skip |= {id(x) for x in ast.walk(n.slice)}
        for n in walk_local(expr):
            if id(n) in skip:
                continue
            if isinstance(n, ast.Name) and n.id in t:
                return True
            if isinstance(n, ast.Attribute) and \
                    isinstance(n.value, ast.Name) and n.value.id == "self" \
                    and isinstance(n.ctx, ast.Load) and \
                    ("self." + n.attr) in t:
                return True
            if isinstance(n, ast.Call):
                if isinstance(n.func, ast.Attribute) and n.func.attr == "read" \
                        and isinstance(n.func.value, ast.Name) \
                        and n.func.value.id in fn.params:
                    return True
                callee = self.resolve(fn, n)
                if callee is not None:
                    rt = self.ret_taint.get(callee.key)
                    if rt:
                        if "*" in rt:
                            return True
                        cparams = callee.params
                        for i, a in enumerate(n.args):
                            if i < len(cparams) and cparams[i] in rt and \
                                    self._arg_tainted(fn, a):
                                return True
                        for k in n.keywords:
                            if k.arg in rt and self._arg_tainted(fn, k.value):
                                return True
        return False

    def _arg_tainted(self, fn, a):
        return self.expr_tainted(fn, a)

    def _fixpoint(self):
        changed = True
        while changed:
            changed = False
            for key, fn in list(self.funcs.items()):
                defs = local_defs(fn.node)
                t = self.taint[key]
                for name, ds in defs.items():
                    if name in t:
                        continue
                    for d in ds:
                        if d.value is not None and \
                                self.expr_tainted(fn, d.value):
                            t.add(name)
                            changed = True
                            break
                # state of the object: an attribute assigned from untrusted
                # data is untrusted in every method of the class
                if fn.cls is not None:
                    for st in stmts_of(fn.node):
                        if isinstance(st, ast.Assign) and \
                                self.expr_tainted(fn, st.value):
                            for tg in st.targets:
                                if isinstance(tg, ast.Attribute) and \
                                        isinstance(tg.value, ast.Name) and \
                                        tg.value.id == "self":
                                    an = "self." + tg.attr
                                    for k2, f2 in self.funcs.items():
                                        if f2.cls is not None and (
                                                f2.cls is fn.cls or fn.cls in
                                                self.repo.mro(f2.cls) or
                                                f2.cls in
                                                self.repo.mro(fn.cls)) and \
                                                an not in self.taint[k2]:
                                            self.taint[k2].add(an)
                                            changed = True
                for call in calls_in(fn.node):
                    callee = self.resolve(fn, call)
                    if callee is None:
                        continue
                    cparams = callee.params
                    ct = self.taint[callee.key]
                    for i, a in enumerate(call.args):
                        if i < len(cparams) and cparams[i] not in ct and \
                                self.expr_tainted(fn, a):
                            ct.add(cparams[i])
                            changed = True
                    for k in call.keywords:
                        if k.arg in cparams and k.arg not in ct and \
                                self.expr_tainted(fn, k.value):
                            ct.add(k.arg)
                            changed = True
                # return taint, per parameter ("*" = intrinsically tainted)
                deps = set(self.ret_taint.get(key, ()))
                for s in stmts_of(fn.node):
                    if isinstance(s, ast.Return) and s.value is not None:
                        clos = closure_names(fn.node, names_in(s.value), defs)
                        deps |= (clos & set(fn.params))
                        if self._intrinsic(fn, s.value, clos, defs):
                            deps.add("*")
                if deps != set(self.ret_taint.get(key, ())):
                    self.ret_taint[key] = deps
                    changed = True


# ---------------------------------------------------------------------
# helpers on one function
# ---------------------------------------------------------------------
class FnFacts:
    def __init__(self, scope, fn):
        self.scope = scope
        self.fn = fn
        self.defs = local_defs(fn.node)
        self.owner = enclosing_stmt_map(fn.node)
        self.cfg = fn.cfg()
        self.dom = self.cfg.dominators()
        self.guards = raise_guards(fn.node)
        self.parents = {}
        self._index_parents(fn.node.body, None, None)
        # kinds of names
        self.tuple_names = set()    # results of struct.unpack*: fixed arity
        self.array_names = set()    # arrays built from untrusted bytes
        self.pil_names = set()
        for name, ds in self.defs.items():
            for d in ds:
                if d.value is None:
                    continue
                for c in walk_local(d.value):
                    if isinstance(c, ast.Call):
                        ln = scope.lib_name(fn, c) or ""
                        if ln in STRUCT_UNPACK:
                            self.tuple_names.add(name)
                        if ln == "PIL.Image.open":
                            self.pil_names.add(name)
        changed = True
        while changed:
            changed = False
            for name, ds in self.defs.items():
                if name in self.array_names or name in self.tuple_names:
                    continue
                for d in ds:
                    if d.value is None:
                        continue
                    v = d.value
                    hit = False
                    for c in walk_local(v):
                        if isinstance(c, ast.Call):
                            ln = scope.lib_name(fn, c) or ""
                            if ln == "numpy.frombuffer" and c.args and \
                                    scope.expr_tainted(fn, c.args[0]):
                                hit = True
                            if ln in ("numpy.asarray", "numpy.array") and \
                                    c.args and names_in(c.args[0]) & self.pil_names:
                                hit = True
                    # derived arrays: direct uses (slices, fancy index,
                    # reshape, moveaxis) of an array name
                    base = v
                    while isinstance(base, (ast.Subscript, ast.Attribute)):
                        base = base.value
                    if isinstance(base, ast.Call) and \
                            isinstance(base.func, ast.Attribute):
                        b2 = base.func.value
                        if isinstance(b2, ast.Name) and b2.id in self.array_names:
                            hit = True
                    if isinstance(base, ast.Name) and base.id in self.array_names:
                        hit = True
                    if isinstance(v, ast.Call):
                        ln = scope.lib_name(fn, v) or ""
                        if ln in ("numpy.moveaxis", "numpy.reshape") and v.args \
                                and names_in(v.args[0]) & self.array_names:
                            hit = True
                    if hit:
                        self.array_names.add(name)
                        changed = True
                        break

    def _index_parents(self, stmts, parent, branch):
        for st in stmts:
            self.parents[id(st)] = (parent, branch)
            if isinstance(st, (ast.FunctionDef, ast.AsyncFunctionDef,
                               ast.ClassDef)):
                continue
            for field in ("body", "orelse", "finalbody"):
                self._index_parents(getattr(st, field, []) or [], st, field)
            for h in getattr(st, "handlers", []) or []:
                self._index_parents(h.body, st, "handler")

    def stmt_of(self, node):
        if isinstance(node, ast.stmt):
            return node
        return self.owner.get(id(node))

    def ancestors(self, stmt):
        out = []
        cur = stmt
        while cur is not None:
            parent, branch = self.parents.get(id(cur), (None, None))
            if parent is None:
                break
            out.append((parent, branch))
            cur = parent
        return out

    # -- D-try --------------------------------------------------------
    def try_discharge(self, node, effects, allowed):
        """Innermost enclosing try whose handler catches every effect and
        ends in raise <allowed>.  Returns (ok, description)."""
        st = self.stmt_of(node)
        for parent, branch in self.ancestors(st):
            if isinstance(parent, ast.With) and branch == "body":
                # `with converting_errors(...):` - a @contextmanager whose
                # body is `try: yield / except X: raise Y`
                tr = self._contextmanager_try(parent)
                if tr is not None:
                    parent, branch = tr, "body"
            if isinstance(parent, ast.Try) and branch == "body":
                caught_all = True
                transparent = False
                for eff in effects:
                    h = self._handler_for(parent, eff)
                    if h is None:
                        caught_all = False
                        break
                    names = raised_names(h.body)
                    if not block_always_raises(h.body):
                        return False, "handler for %s does not re-raise" % eff
                    if names and all(rn == "<reraise>" for rn in names):
                        # clean-up and bare `raise`: the exception continues
                        # to the enclosing handlers unchanged
                        transparent = True
                        break
                    for rn in names:
                        if rn == "<reraise>":
                            return False, "handler re-raises %s unchanged" % eff
                        full = self.scope.repo.exc_fullname(
                            getattr(parent, "_module", self.fn.module), rn)
                        if full not in allowed:
                            built = self._built_by_helper(rn)
                            if built is None:
                                return None, "handler raises an object " \
                                    "built by %s" % rn
                            if not all(b in allowed for b in built):
                                return False, "handler converts %s to %s" \
                                    % (eff, rn)
                if transparent:
                    continue
                if caught_all:
                    return True, "try/except -> %s" % ",".join(
                        sorted(a.rsplit(".", 1)[-1] for a in allowed))
        return False, "not inside a try that converts %s" % ",".join(effects)

    def _contextmanager_try(self, with_node):
        """The try statement wrapped around the `yield` of a local
        @contextmanager function used by this with-statement, else None."""
        from .core import resolve_local_call
        for item in with_node.items:
            c = item.context_expr
            if not isinstance(c, ast.Call):
                continue
            h = resolve_local_call(self.fn, c)
            if h is None and isinstance(c.func, ast.Name):
                # NAME = functools.partial(<context manager>, also=...)
                pv = self.fn.module.const(c.func.id)
                if isinstance(pv, ast.Call) and (
                        self.fn.module.resolve(dotted(pv.func) or "") or ""
                        ) == "functools.partial" and pv.args and \
                        isinstance(pv.args[0], ast.Name) and \
                        pv.args[0].id in self.fn.module.functions:
                    import copy as _cp
                    h = self.fn.module.functions[pv.args[0].id]
                    c2 = _cp.copy(c)
                    c2.func = pv.args[0]
                    c2.args = list(pv.args[1:]) + list(c.args)
                    c2.keywords = list(pv.keywords) + list(c.keywords)
                    c = c2
            if h is None:
                continue
            decos = [dotted(d) or "" for d in h.node.decorator_list]
            if not any(d.endswith("contextmanager") for d in decos):
                continue
            for st in stmts_of(h.node):
                if isinstance(st, ast.Try) and any(
                        isinstance(x, ast.Expr) and isinstance(
                            x.value, ast.Yield) for x in st.body):
                    return self._specialised_try(st, h, c)
        return None

    def _specialised_try(self, tr, h, call):
        """The context manager's try as this with-statement runs it: the
        handler filters with the manager's parameters replaced by the call's
        arguments and `self.<attr>` by the class attribute of the calling
        class; `*tuple` elements are flattened."""
        import copy as _cp
        a = h.node.args
        names = [x.arg for x in a.posonlyargs + a.args]
        if names and names[0] in ("self", "cls") and isinstance(
                call.func, ast.Attribute):
            names = names[1:]
        allp = [x.arg for x in a.posonlyargs + a.args]
        bind = dict(zip(allp[len(allp) - len(a.defaults):], a.defaults))
        bind.update({x.arg: d for x, d in zip(a.kwonlyargs, a.kw_defaults)
                     if d is not None})
        bind.update(dict(zip(names, call.args)))
        bind.update({k.arg: k.value for k in call.keywords if k.arg})
        repo, cls = self.scope.repo, self.fn.cls

        def value_of(e, depth=0):
            """Elements of a tuple-valued filter expression."""
            if isinstance(e, ast.Starred):
                return value_of(e.value, depth)
            if isinstance(e, (ast.Tuple, ast.List)):
                out = []
                for x in e.elts:
                    if isinstance(x, ast.Starred):
                        out.extend(value_of(x.value, depth))
                    else:
                        out.append(x)
                return out
            if depth < 3 and isinstance(e, ast.Name) and e.id in bind:
                return value_of(bind[e.id], depth + 1)
            if depth < 3 and isinstance(e, ast.Attribute) and \
                    isinstance(e.value, ast.Name) and \
                    e.value.id in ("self", "cls") and cls is not None:
                for cc in repo.mro(cls):
                    if e.attr in cc.class_attrs:
                        return value_of(cc.class_attrs[e.attr], depth + 1)
            if depth < 3 and isinstance(e, ast.Name):
                v = self.fn.module.const(e.id)
                if isinstance(v, (ast.Tuple, ast.List)):
                    return value_of(v, depth + 1)
            return [e]
        tr2 = _cp.copy(tr)
        tr2.handlers = []
        for hd in tr.handlers:
            h2 = _cp.copy(hd)
            if hd.type is not None:
                elts = value_of(hd.type)
                h2.type = ast.Tuple(elts=[_cp.deepcopy(x) for x in elts],
                                    ctx=ast.Load())
            tr2.handlers.append(h2)
        tr2._module = h.module      # names in the handler bodies
        return tr2

    def _built_by_helper(self, name):
        """Exception classes a module-level helper `name(...)` returns, or
        None if it is not such a helper."""
        h = self.fn.module.functions.get(name)
        if h is None:
            return None
        rets = [r.value for r in stmts_of(h.node)
                if isinstance(r, ast.Return) and r.value is not None]
        hdefs = local_defs(h.node)
        flat = []
        for r in rets:
            if isinstance(r, ast.Name):
                # `error = Cls(...)`; ...; `return error`
                vals = [d.value for d in hdefs.get(r.id, [])
                        if d.value is not None and d.kind == "assign"]
                if vals and all(isinstance(v, ast.Call) for v in vals):
                    flat.extend(vals)
                    continue
            flat.append(r)
        built = [self.scope.repo.exc_fullname(h.module, dotted(
            r.func if isinstance(r, ast.Call) else r)) for r in flat]
        return built or None

    def _handler_for(self, trynode, eff):
        anc = [canon_exc(a) for a in self.scope.repo.exc_ancestors(eff)]
        for h in trynode.handlers:
            if h.type is None:
                return h
            types = h.type.elts if isinstance(h.type, ast.Tuple) else [h.type]
            # a module-level tuple of exception classes used as the filter
            flat = []
            for t in types:
                v = self.fn.module.const(t.id) if isinstance(t, ast.Name) \
                    else None
                if isinstance(v, (ast.Tuple, ast.List)):
                    flat.extend(v.elts)
                else:
                    flat.append(t)
            for t in flat:
                full = canon_exc(self.scope.repo.exc_fullname(
                    self.fn.module, dotted(t)))
                if full in anc:
                    return h
        return None

    # -- D-guard ------------------------------------------------------
    def len_guard(self, site_node, bufname, need_names=(), size_attr=False):
        """A raise-guard (or assert) dominating the site whose test calls
        len(<bufname>) and mentions every name in need_names, with no
        rebinding of bufname between guard and site."""
        st = self.stmt_of(site_node)
        sn = self.cfg.node_of(st)
        if sn is None:
            return None
        for g, atoms in self.guards:
            if isinstance(g, ast.Assert):
                continue       # asserts vanish under -O: not a format guard
            gn = self.cfg.node_of(g)
            if gn is None or gn.id not in self.dom[sn.id] or gn is sn:
                continue
            has_len = any(isinstance(c, ast.Call) and call_name(c) == "len"
                          and c.args and norm(c.args[0]) == bufname
                          for c in walk_local(g.test))
            if size_attr:
                # the guard fixes the element count / shape of an array
                has_len = any(isinstance(c, ast.Attribute) and
                              c.attr in ("size", "shape") and
                              norm(c.value) == bufname
                              for c in walk_local(g.test)) and any(
                    isinstance(c, ast.Compare) and
                    isinstance(c.ops[0], (ast.Eq, ast.NotEq))
                    for c in walk_local(g.test))
            if not has_len:
                continue
            gnames = names_in(g.test)
            # a bound computed just before the guard (min_size = n * k)
            gnames = gnames | closure_names(self.fn.node, gnames, self.defs)
            if not set(need_names) <= gnames:
                continue
            # rebinding between guard and site?
            rebound = False
            for d in self.defs.get(bufname, []):
                if d.kind == "param":
                    continue
                # buf = memoryview(buf): same bytes, same length
                if isinstance(d.value, ast.Call) and \
                        (call_name(d.value) or "") in ("memoryview", "bytes",
                                                       "bytearray") and \
                        len(d.value.args) == 1 and \
                        norm(d.value.args[0]) == bufname:
                    continue
                dn = self.cfg.node_of(d.stmt)
                if dn is not None and gn.id in self.dom[dn.id] and \
                        dn.id in self.dom[sn.id] and dn is not sn:
                    rebound = True
            if not rebound:
                return g
        return None

    def all_len_guards(self, site_node, bufname):
        """Every non-assert raise-guard that dominates the site and measures
        len(<bufname>)."""
        st = self.stmt_of(site_node)
        sn = self.cfg.node_of(st)
        out = []
        if sn is None:
            return out
        for g, atoms in self.guards:
            if isinstance(g, ast.Assert):
                continue
            gn = self.cfg.node_of(g)
            if gn is None or gn.id not in self.dom[sn.id] or gn is sn:
                continue
            if any(isinstance(c, ast.Call) and call_name(c) == "len" and
                   c.args and norm(c.args[0]) == bufname
                   for c in walk_local(g.test)):
                out.append(g)
        return out

    def helper_len_guard(self, call, depth=0):
        """`call` invokes a local helper every return of which is a name that
        carries a dominating length guard inside the helper (a 'read exactly
        n bytes or raise' helper): the guard, else None."""
        callee = self.scope.resolve(self.fn, call)
        if callee is None or depth > 3:
            return None
        cf = facts(self.scope, callee)
        rets = [r for r in stmts_of(callee.node) if isinstance(r, ast.Return)]
        if not rets:
            return None
        g = None
        for r in rets:
            if not isinstance(r.value, ast.Name):
                return None
            g = cf.len_guard(r, r.value.id)
            if g is None:
                return None
        return g

    def guard_for(self, site_node, operand):
        """Length guard that covers `operand` at the site (name with a local
        guard, call to a guarding helper, or name bound to such a call)."""
        if isinstance(operand, ast.Name):
            g = self.len_guard(site_node, operand.id)
            if g is not None:
                return g
            ds = [d for d in self.defs.get(operand.id, [])
                  if d.kind != "param"]
            if ds and all(isinstance(d.value, ast.Call) and d.index is None
                          for d in ds):
                gs = [self.helper_len_guard(d.value) for d in ds]
                if all(x is not None for x in gs):
                    return gs[0]
            return None
        if isinstance(operand, ast.Call):
            return self.helper_len_guard(operand)
        return None

    def buffer_discharge(self, site_node, operand, depth=0):
        """Discharge of a read of `operand` (bytes-like expression)."""
        if isinstance(operand, ast.Call) or isinstance(operand, ast.Name):
            g = self.guard_for(site_node, operand)
            if g is not None:
                return True, "D-guard: `%s`" % norm(g.test)
        if isinstance(operand, ast.Name):
            g = self.len_guard(site_node, operand.id)
            if g is not None:
                return True, "D-guard: `%s`" % norm(g.test)
            # parameter: look at the callers (D-slice / D-guard in caller)
            if operand.id in self.fn.params and depth < 6:
                callers = self.scope.callers.get(self.fn.key, [])
                if callers:
                    idx = self.fn.params.index(operand.id)
                    oks = []
                    for cfn, call in callers:
                        if idx >= len(call.args):
                            oks.append((False, "argument not positional"))
                            continue
                        cf = facts(self.scope, cfn)
                        oks.append(cf.buffer_discharge(call, call.args[idx],
                                                       depth + 1))
                    if all(o for o, _ in oks):
                        return True, "caller guard: " + "; ".join(
                            w for _, w in oks)
                    return False, "caller %s passes an unguarded buffer (%s)" \
                        % (callers[0][0].key, "; ".join(w for o, w in oks
                                                        if not o))
            # local name bound to a slice of another buffer
            for d in self.defs.get(operand.id, []):
                if d.value is not None and isinstance(d.value, ast.Subscript):
                    return self.buffer_discharge(site_node, d.value, depth + 1)
            return False, "no length guard on `%s`" % operand.id
        def _self_attr(e):
            return isinstance(e, ast.Attribute) and \
                isinstance(e.value, ast.Name) and e.value.id == "self"
        # an attribute this very function has just set from a plain name
        # (`self.buf = buf` in the constructor) is that name here
        base = operand.value if isinstance(operand, ast.Subscript) else operand
        if _self_attr(base) and depth < 6:
            srcs = [st.value for st in stmts_of(self.fn.node)
                    if isinstance(st, ast.Assign) and
                    isinstance(st.value, ast.Name) and any(
                        _self_attr(t) and t.attr == base.attr
                        for t in st.targets)]
            if len(srcs) == 1:
                import copy as _cp
                nm = ast.copy_location(ast.Name(id=srcs[0].id,
                                                ctx=ast.Load()), base)
                if isinstance(operand, ast.Subscript):
                    op2 = _cp.copy(operand)
                    op2.value = nm
                else:
                    op2 = nm
                return self.buffer_discharge(site_node, op2, depth + 1)
        if isinstance(operand, ast.Subscript) and \
                isinstance(operand.slice, ast.Slice) and \
                (isinstance(operand.value, ast.Name) or
                 _self_attr(operand.value)):
            b = norm(operand.value)
            sl = operand.slice
            bound_names = set()
            for x in (sl.lower, sl.upper):
                if x is not None:
                    bound_names |= names_in(x)
            bound_names -= {"None"}
            # D-size: upper = lower + itemsize * n
            if sl.upper is not None and self._dsize(sl):
                return True, "D-size: slice end = start + itemsize * n"
            g = self.len_guard(site_node, b, need_names=bound_names)
            if g is not None:
                return True, "D-guard on slice bounds: `%s`" % norm(g.test)
            if _self_attr(operand.value):
                return None, ("`%s` is held by the object: a guard in the "
                              "code that built the object is not followed"
                              % b)
            return False, ("no guard relates len(%s) to the slice bounds %s"
                           % (b, sorted(bound_names)))
        if _self_attr(operand):
            g = self.len_guard(site_node, norm(operand))
            if g is not None:
                return True, "D-guard: `%s`" % norm(g.test)
            return None, ("`%s` is held by the object: a guard in the code "
                          "that built the object is not followed"
                          % norm(operand))
        return False, "unrecognised buffer expression %s" % norm(operand)

    def _dsize(self, sl):
        up = sl.upper
        cands = []
        if isinstance(up, ast.Name):
            cands = [d.value for d in self.defs.get(up.id, [])]
        elif isinstance(up, ast.BinOp):
            cands = [up]
        if cands:
            for v in cands:
                if isinstance(v, ast.BinOp) and isinstance(v.op, ast.Add):
                    lo_txt = norm(sl.lower) if sl.lower is not None else "0"
                    sides = (v.left, v.right)
                    if any(norm(s) == lo_txt for s in sides):
                        other = [s for s in sides if norm(s) != lo_txt]
                        if other and all(self._is_item_multiple(m_)
                                         for m_ in self._table_values(
                                             other[0])):
                            return True
        return False

    def _table_values(self, e):
        """[e], or - for a lookup `table[k]` in a local dict built once from
        a literal or a comprehension - the value expressions of the table."""
        if isinstance(e, ast.Subscript) and isinstance(e.value, ast.Name):
            ds = [d for d in self.defs.get(e.value.id, [])
                  if d.kind != "param"]
            if len(ds) == 1 and ds[0].kind == "assign" and \
                    ds[0].index is None:
                v = ds[0].value
                if isinstance(v, ast.DictComp):
                    return [v.value]
                if isinstance(v, ast.Dict) and v.values:
                    return list(v.values)
        # obj.method(...) where obj is a local instance of a class of this
        # module: what the method returns
        if isinstance(e, ast.Call) and isinstance(e.func, ast.Attribute) and \
                isinstance(e.func.value, ast.Name):
            ds = [d for d in self.defs.get(e.func.value.id, [])
                  if d.kind != "param"]
            if len(ds) == 1 and isinstance(ds[0].value, ast.Call) and \
                    isinstance(ds[0].value.func, ast.Name):
                cls = self.fn.module.classes.get(ds[0].value.func.id)
                if cls is not None and e.func.attr in cls.methods:
                    h = cls.methods[e.func.attr]
                    rets = [r.value for r in stmts_of(h.node)
                            if isinstance(r, ast.Return) and
                            r.value is not None]
                    if rets:
                        return rets
        return [e]

    def _is_item_multiple(self, e):
        if isinstance(e, ast.BinOp) and isinstance(e.op, ast.Mult):
            t = norm(e)
            if ".itemsize" in t or const_int(e.left) in (4, 8) or \
                    const_int(e.right) in (4, 8):
                return True
            # a factor that is a local bound to <dtype>.itemsize
            for side in (e.left, e.right):
                if isinstance(side, ast.Name):
                    vs = [d.value for d in self.defs.get(side.id, [])
                          if d.value is not None]
                    if vs and all(norm(v).endswith(".itemsize") for v in vs):
                        return True
        return False

    # -- D-set --------------------------------------------------------
    def valueset(self, name, at_node, depth=0):
        """Finite set of ints `name` can hold at the statement, or None."""
        st = self.stmt_of(at_node)
        sn = self.cfg.node_of(st)
        base = None
        exit_refinements = []
        for g, atoms in self.guards + self._exit_guards():
            gn = self.cfg.node_of(g)
            if gn is None or sn is None or gn.id not in self.dom[sn.id] \
                    or gn is sn:
                continue
            if not atoms and isinstance(g, ast.If) and \
                    isinstance(g.test, ast.BoolOp) and \
                    isinstance(g.test.op, ast.And) and not g.orelse:
                # `if a and b: raise`: on the fall-through path `not a or
                # not b`; when each alternative pins `name` to a finite set
                # the union is its value set
                alts = []
                for conj in g.test.values:
                    sets_ = None
                    for a in holds(conj, False):
                        if norm(a.left) != name:
                            continue
                        if a.op == "==" and const_int(a.right) is not None:
                            sets_ = {const_int(a.right)}
                        elif a.op == "in":
                            sets_ = self._finite_keys(a.right)
                    alts.append(sets_)
                if alts and all(x is not None for x in alts):
                    u = set().union(*alts)
                    base = u if base is None else base & u
            for a in atoms:
                right = a.right
                if isinstance(right, ast.Name) and \
                        right.id in self.fn.module.constants:
                    right = self.fn.module.constants[right.id]
                if norm(a.left) == name and a.op == "in":
                    vals_ = self._finite_keys(right)
                    if vals_ is not None:
                        base = vals_ if base is None else base & vals_
                elif norm(a.left) == name and const_int(a.right) is not None:
                    exit_refinements.append((a.op, const_int(a.right)))
        if base is None and depth < 6:
            # bound from (an element of) the value a scope function returns
            for d in self.defs.get(name, []):
                v = d.value
                if isinstance(v, ast.Call):
                    callee = self.scope.resolve(self.fn, v)
                    if callee is None:
                        continue
                    cf = facts(self.scope, callee)
                    sets = []
                    for r in stmts_of(callee.node):
                        if not isinstance(r, ast.Return) or r.value is None:
                            continue
                        e = r.value
                        if d.index is not None and isinstance(e, ast.Tuple) \
                                and d.index < len(e.elts):
                            e = e.elts[d.index]
                        if isinstance(e, ast.Name):
                            sets.append(cf.valueset(e.id, r, depth + 1))
                        else:
                            sets.append(None)
                    if sets and all(x is not None for x in sets):
                        base = set().union(*sets)
        if base is None and name in self.fn.params and depth < 6:
            callers = self.scope.callers.get(self.fn.key, [])
            idx = self.fn.params.index(name)
            sets = []
            for cfn, call in callers:
                if idx < len(call.args):
                    cf = facts(self.scope, cfn)
                    sets.append(cf.valueset_expr(call.args[idx], call,
                                                 depth + 1))
                else:
                    sets.append(None)
            if sets and all(s is not None for s in sets):
                base = set().union(*sets)
        if base is None:
            # derived by constant arithmetic from another finite-set name
            for d in self.defs.get(name, []):
                v = d.value
                if isinstance(v, ast.BinOp):
                    for nm_side, c_side, swap in ((v.right, v.left, True),
                                                  (v.left, v.right, False)):
                        c = const_int(c_side)
                        if c is not None and isinstance(nm_side, ast.Name):
                            s = self.valueset(nm_side.id, d.stmt, depth + 1)
                            if s is not None:
                                try:
                                    base = {_apply(v.op, c, x, swap) for x in s}
                                except ZeroDivisionError:
                                    return None
        if base is None:
            return None
        for op, c in exit_refinements:
            base = {x for x in base if _cmp(x, op, c)}
        # refine with enclosing if-branches
        for parent, branch in self.ancestors(st):
            if isinstance(parent, ast.If) and branch in ("body", "orelse"):
                atoms = holds(parent.test, branch == "body")
                for a in atoms:
                    if norm(a.left) == name:
                        c = const_int(a.right)
                        if c is None:
                            continue
                        base = {x for x in base if _cmp(x, a.op, c)}
        return base

    def _finite_keys(self, e, depth=0):
        """Set of ints that `x in e` allows: a literal tuple / list / set, a
        module constant holding one, or a local dict / set built once from a
        literal or a comprehension over a literal."""
        if isinstance(e, (ast.Tuple, ast.List, ast.Set)):
            vals = [const_int(x) for x in e.elts]
            return set(vals) if all(v is not None for v in vals) else None
        if isinstance(e, ast.Dict):
            vals = [const_int(k) if k is not None else None for k in e.keys]
            return set(vals) if all(v is not None for v in vals) else None
        if isinstance(e, (ast.DictComp, ast.SetComp, ast.ListComp)) and \
                len(e.generators) == 1 and not e.generators[0].ifs:
            g = e.generators[0]
            key = e.key if isinstance(e, ast.DictComp) else e.elt
            if isinstance(g.target, ast.Name) and isinstance(key, ast.Name) \
                    and key.id == g.target.id:
                return self._finite_keys(g.iter, depth + 1)
            return None
        if isinstance(e, ast.Call) and (call_name(e) or "") in (
                "frozenset", "set", "tuple", "list", "sorted") and \
                len(e.args) == 1:
            return self._finite_keys(e.args[0], depth + 1)
        if isinstance(e, ast.Name) and depth < 3:
            v = self.fn.module.const(e.id)
            if v is not None and e.id not in self.defs:
                return self._finite_keys(v, depth + 1)
            ds = [d for d in self.defs.get(e.id, []) if d.kind != "param"]
            if len(ds) == 1 and ds[0].value is not None and \
                    ds[0].kind == "assign" and ds[0].index is None:
                return self._finite_keys(ds[0].value, depth + 1)
        return None

    def comp_binding(self, name_node):
        """The comprehension generator that binds this Name node, if any."""
        tab = getattr(self, "_comp_tab", None)
        if tab is None:
            tab = {}
            for c in ast.walk(self.fn.node):
                if isinstance(c, (ast.ListComp, ast.SetComp, ast.DictComp,
                                  ast.GeneratorExp)):
                    for g in c.generators:
                        names = {t.id for t in ast.walk(g.target)
                                 if isinstance(t, ast.Name)}
                        for x in ast.walk(c):
                            if isinstance(x, ast.Name) and x.id in names and \
                                    isinstance(x.ctx, ast.Load):
                                tab.setdefault(id(x), g)
            self._comp_tab = tab
        return tab.get(id(name_node))

    def valueset_expr(self, e, at_node, depth=0):
        """Finite value set of an integer expression built from constants
        and names with finite value sets, else None."""
        c = const_int(e)
        if c is not None:
            return {c}
        if isinstance(e, ast.Name):
            g = self.comp_binding(e)
            if g is not None:
                # the variable of a comprehension over a literal
                return self._finite_keys(g.iter) \
                    if isinstance(g.target, ast.Name) else None
            return self.valueset(e.id, at_node, depth)
        if isinstance(e, ast.Call) and (call_name(e) or "") in (
                "int", "np.uint64", "np.uint32", "abs") and len(e.args) == 1:
            return self.valueset_expr(e.args[0], at_node, depth)
        if isinstance(e, ast.BinOp) and depth < 4:
            ls = self.valueset_expr(e.left, at_node, depth + 1)
            rs = self.valueset_expr(e.right, at_node, depth + 1)
            if ls is None or rs is None or len(ls) * len(rs) > 4096:
                return None
            out = set()
            try:
                for x in ls:
                    for y in rs:
                        out.add(_apply(e.op, x, y, True))
            except ZeroDivisionError:
                return None
            return out
        return None

    def _exit_guards(self):
        """`if t: ...return/continue` without else: on the fall-through path
        the test is false."""
        out = []
        for st in stmts_of(self.fn.node):
            if isinstance(st, ast.If) and not st.orelse and st.body and \
                    isinstance(st.body[-1], (ast.Return, ast.Continue,
                                             ast.Break)):
                out.append((st, holds(st.test, False)))
        return out

    def pred_true_on(self, test, name, values):
        """Evaluate a pure integer predicate over `name` on each value."""
        try:
            code = compile(ast.Expression(body=test), "<pred>", "eval")
            for n in walk_local(test):
                if isinstance(n, (ast.Call, ast.Attribute, ast.Subscript)):
                    return False
                if isinstance(n, ast.Name) and n.id != name:
                    return False
            return all(bool(eval(code, {"__builtins__": {}}, {name: v}))
                       for v in values)
        except Exception:
            return False


def _apply(op, c, x, swap):
    a, b = (c, x) if swap else (x, c)
    if isinstance(op, ast.FloorDiv):
        return a // b
    if isinstance(op, ast.Mod):
        return a % b
    if isinstance(op, ast.Mult):
        return a * b
    if isinstance(op, ast.Add):
        return a + b
    if isinstance(op, ast.Sub):
        return a - b
    if isinstance(op, ast.LShift):
        return a << b
    if isinstance(op, ast.Pow):
        return a ** b
    raise ZeroDivisionError


def _cmp(x, op, c):
    return {"==": x == c, "!=": x != c, "<": x < c, "<=": x <= c,
            ">": x > c, ">=": x >= c}.get(op, True)


_FACTS = {}


def facts(scope, fn):
    # kept on the scope object (an id()-keyed global table can hand a dead
    # scope's facts to a new scope that re-uses the address)
    cache = scope.__dict__.setdefault("_facts_cache", {})
    if fn.key not in cache:
        cache[fn.key] = FnFacts(scope, fn)
    return cache[fn.key]


# ---------------------------------------------------------------------
# the rule
# ---------------------------------------------------------------------
def decoder_scope(repo, col, which="chunks"):
    rule = "E-EXC.A"
    if which == "chunks":
        entries = [("chunk_encoding", "RawChunkEncoder.decode"),
                   ("chunk_encoding", "CompressedSegmentationEncoder.decode"),
                   ("chunk_encoding", "JpegChunkEncoder.decode")]
        sources = {e: ["buf"] for e in entries}
        allowed = {PKG + ".chunk_encoding.InvalidFormatError"}
    else:
        entries = [("mesh", "read_precomputed_mesh")]
        sources = {}
        allowed = {PKG + ".mesh.InvalidMeshDataError"}
    for ms, qn in entries:
        fn = repo.func(ms, qn)
        if which == "chunks" and "buf" not in fn.params:
            raise AnalysisError("anchor vanished: parameter buf of %s" % fn.key)
    scope = Scope(repo, entries, sources)
    n_sites = 0
    for key in sorted(scope.funcs):
        fn = scope.funcs[key]
        ff = facts(scope, fn)
        t = scope.taint[key]
        for node in walk_local(fn.node, include_root=False):
            site = _classify(scope, ff, fn, node, t)
            if site is None:
                continue
            kind, effects, operand, text = site
            n_sites += 1
            ok, how = False, ""
            # D-try first
            ok, how = ff.try_discharge(node, effects, allowed)
            if ok is None:
                col.add("%s.%s" % (rule, kind), fn, text, True, how,
                        node=node, undecided=True)
                continue
            if not ok and kind in ("unpack", "frombuffer"):
                ok2, how2 = ff.buffer_discharge(node, operand)
                if ok2 is None:
                    col.add("%s.%s" % (rule, kind), fn, text, True, how2,
                            node=node, undecided=True)
                    continue
                if ok2:
                    ok, how = True, how2
                else:
                    how = how + "; " + how2
            if not ok and kind in ("reshape", "view"):
                ok2, how2 = _reshape_discharge(scope, ff, node, operand)
                if ok2:
                    ok, how = True, how2
                else:
                    how = how + "; " + how2
            if not ok and kind in ("div", "assert", "loop"):
                ok2, how2 = _set_discharge(ff, node, kind, operand)
                if ok2 is None:
                    col.add("%s.%s" % (rule, kind), fn, text, True, how2,
                            node=node, undecided=True)
                    continue
                if ok2:
                    ok, how = True, how2
                else:
                    how = how + "; " + how2
            col.add("%s.%s" % (rule, kind), fn, text, ok,
                    ("%s can raise %s on malformed data: %s"
                     % (text, "/".join(e.rsplit(".", 1)[-1] for e in effects),
                        how)) if not ok else how, node=node)
        # explicit raises
        for st in stmts_of(fn.node):
            if isinstance(st, ast.Raise) and st.exc is not None:
                e = st.exc.func if isinstance(st.exc, ast.Call) else st.exc
                full = repo.exc_fullname(fn.module, dotted(e))
                ok = full in allowed
                und = False
                if not ok and isinstance(st.exc, ast.Call):
                    # a helper that builds the exception object
                    h = scope.resolve(fn, st.exc)
                    if h is not None:
                        rets = [r.value for r in stmts_of(h.node)
                                if isinstance(r, ast.Return)
                                and r.value is not None]
                        built = [repo.exc_fullname(h.module, dotted(
                            r.func if isinstance(r, ast.Call) else r))
                            for r in rets]
                        ok = bool(built) and all(b in allowed for b in built)
                        und = not built
                elif not ok and isinstance(st.exc, ast.Name) and \
                        st.exc.id in local_defs(fn.node):
                    und = True      # re-raising a stored exception object
                if und:
                    col.add(rule + ".raise", fn, "raise %s" % dotted(e), True,
                            "raised object built elsewhere", node=st,
                            undecided=True)
                    continue
                col.add(rule + ".raise", fn, "raise %s" % dotted(e), ok,
                        "" if ok else "decoder raises %s, not the documented "
                        "format-error class" % dotted(e), node=st,
                        nontrivial=False)
        # unclassified calls with tainted arguments
        for call in calls_in(fn.node):
            if scope.resolve(fn, call) is not None:
                continue
            ln = scope.lib_name(fn, call) or ""
            if not any(scope.expr_tainted(fn, a) for a in call.args):
                continue
            if ln in TOTAL_FUNCS or ln in STRUCT_UNPACK or ln in (
                    "numpy.frombuffer", "numpy.reshape", "PIL.Image.open",
                    "numpy.asarray", "numpy.array"):
                continue
            if isinstance(call.func, ast.Attribute) and call.func.attr in (
                    "reshape", "read", "format", "join", "append"):
                continue
            if ln.endswith("Error"):
                continue
            col.add(rule + ".unclassified", fn, norm(call)[:80], True,
                    "call with untrusted argument is in no effect table",
                    node=call, undecided=True)
    return n_sites


def _classify(scope, ff, fn, node, t):
    """Return (kind, effects, operand, text) if node is a partial site."""
    if isinstance(node, ast.Call):
        ln = scope.lib_name(fn, node) or ""
        if ln in STRUCT_UNPACK and len(node.args) >= 2 and \
                scope.expr_tainted(fn, node.args[1]):
            return ("unpack", ["struct.error"], node.args[1], norm(node)[:90])
        # precompiled struct.Struct object kept in a module constant
        if isinstance(node.func, ast.Attribute) and \
                node.func.attr in ("unpack", "unpack_from") and \
                isinstance(node.func.value, ast.Name) and node.args:
            cv = fn.module.constants.get(node.func.value.id)
            if isinstance(cv, ast.Call) and (
                    fn.module.resolve(call_name(cv) or "") or "") == \
                    "struct.Struct" and scope.expr_tainted(fn, node.args[0]):
                return ("unpack", ["struct.error"], node.args[0],
                        norm(node)[:90])
        if ln == "numpy.frombuffer" and node.args and \
                scope.expr_tainted(fn, node.args[0]):
            return ("frombuffer", ["ValueError"], node.args[0],
                    norm(node)[:90])
        if ln == "PIL.Image.open":
            return ("pil-open", ["Exception"], None, norm(node)[:90])
        if ln in ("numpy.asarray", "numpy.array") and node.args and \
                names_in(node.args[0]) & ff.pil_names:
            return ("pil-load", ["OSError", "ValueError", "SyntaxError"],
                    None, norm(node)[:90])
        # re-interpreting an array of untrusted length with another item
        # size raises ValueError when the byte count is not a multiple
        if isinstance(node.func, ast.Attribute) and node.func.attr == "view" \
                and (node.args or node.keywords) and \
                _array_tainted(scope, ff, fn, node.func.value):
            return ("view", ["ValueError"], node.func.value, norm(node)[:90])
        is_reshape = (isinstance(node.func, ast.Attribute)
                      and node.func.attr == "reshape") or ln == "numpy.reshape"
        if is_reshape:
            operand = node.args[0] if ln == "numpy.reshape" \
                else node.func.value
            if _array_tainted(scope, ff, fn, operand):
                return ("reshape", ["ValueError"], operand, norm(node)[:90])
        return None
    if isinstance(node, ast.Subscript) and isinstance(node.ctx, ast.Load):
        base = node.value
        if isinstance(base, ast.Name) and base.id in ff.array_names \
                and base.id not in ff.tuple_names:
            sl = node.slice
            def slice_like(e):
                # a[lo:hi], ..., slice(lo, hi): clip, never IndexError
                return isinstance(e, ast.Slice) or \
                    (isinstance(e, ast.Constant) and
                     (e.value is Ellipsis or e.value is None)) or \
                    (isinstance(e, ast.Call) and call_name(e) == "slice")
            only_slices = slice_like(sl) or (
                isinstance(sl, ast.Tuple) and all(
                    slice_like(e) for e in sl.elts)) or (
                # tuple(slice(0, n) for n in shape)
                isinstance(sl, ast.Call) and call_name(sl) == "tuple" and
                len(sl.args) == 1 and
                isinstance(sl.args[0], (ast.GeneratorExp, ast.ListComp)) and
                slice_like(sl.args[0].elt))
            # indices built only from trusted quantities (loop counters over
            # the chunk / block geometry): an out-of-range index would not be
            # caused by the chunk bytes
            idx_names = {n.id for n in ast.walk(sl) if isinstance(n, ast.Name)}
            trusted_idx = bool(idx_names) and not (idx_names & t) and \
                not scope.expr_tainted(fn, sl)
            # constant positions on an axis whose length a literal reshape
            # fixed: a[:, 0] of a.reshape(n, 2)
            const_ok = False
            elts_ = list(sl.elts) if isinstance(sl, ast.Tuple) else [sl]
            if all(slice_like(e) or const_int(e) is not None for e in elts_) \
                    and any(const_int(e) is not None for e in elts_):
                dims = None
                for d in ff.defs.get(base.id, []):
                    v = d.value
                    if isinstance(v, ast.Call) and \
                            isinstance(v.func, ast.Attribute) and \
                            v.func.attr == "reshape":
                        a_ = v.args[0].elts if len(v.args) == 1 and \
                            isinstance(v.args[0], (ast.Tuple, ast.List)) \
                            else v.args
                        dims = [const_int(x) for x in a_]
                if dims and len(dims) >= len(elts_):
                    const_ok = all(
                        const_int(e) is None or (
                            dims[k] is not None and
                            -dims[k] <= const_int(e) < dims[k])
                        for k, e in enumerate(elts_))
            # an index array that was filtered by a mask comparing it with
            # the length of the indexed array: idx = off[mask], mask built
            # from `off + k <= len(a)`; the arithmetic inside the mask is not
            # verified (declared undecided clause), its presence is
            masked = False
            if idx_names and not only_slices:
                def mask_bounds(nm, depth=0):
                    for d in ff.defs.get(nm, []):
                        v = d.value
                        if isinstance(v, ast.Subscript) and \
                                isinstance(v.slice, ast.Name):
                            for md in ff.defs.get(v.slice.id, []):
                                if md.value is None:
                                    continue
                                for c_ in ast.walk(md.value):
                                    if isinstance(c_, ast.Compare) and any(
                                            isinstance(o_, (ast.Lt, ast.LtE))
                                            for o_ in c_.ops) and (
                                                "len(%s)" % base.id in norm(c_)
                                                or "%s.size" % base.id
                                                in norm(c_)
                                                or "%s.shape" % base.id
                                                in norm(c_)):
                                        return True
                    return False
                masked = all(mask_bounds(nm) or nm not in t
                             for nm in idx_names) and any(
                    mask_bounds(nm) for nm in idx_names)
            if not only_slices and not trusted_idx and not const_ok \
                    and not masked:
                return ("index", ["IndexError"], None, norm(node)[:90])
        return None
    if isinstance(node, ast.BinOp) and isinstance(node.op, (ast.FloorDiv,
                                                             ast.Mod, ast.Div)):
        r = node.right
        if isinstance(r, ast.Name) and r.id in t:
            return ("div", ["ZeroDivisionError"], r, norm(node)[:90])
        return None
    if isinstance(node, ast.Assign) and len(node.targets) == 1 and \
            isinstance(node.targets[0], (ast.Tuple, ast.List)) and \
            isinstance(node.value, ast.Attribute) and node.value.attr == "shape" \
            and isinstance(node.value.value, ast.Name) and \
            node.value.value.id in ff.array_names:
        # rank of an array built from untrusted bytes is not known
        return ("shape-unpack", ["ValueError"], None, norm(node)[:90])
    if isinstance(node, ast.Assert) and scope.expr_tainted(fn, node.test):
        # asserts over array *contents* are not modelled; only scalar names
        nm = [n for n in names_in(node.test) if n in t]
        return ("assert", ["AssertionError"], node.test, norm(node)[:90])
    if isinstance(node, (ast.For, ast.While)):
        if isinstance(node, ast.While):
            if scope.expr_tainted(fn, node.test):
                return ("loop", ["<unbounded>"], node.test,
                        "while %s" % norm(node.test))
            return None
        it = node.iter
        if isinstance(it, ast.Call) and (call_name(it) in ("range",) or
                                         (scope.lib_name(fn, it) or "") ==
                                         "numpy.ndindex"):
            if any(scope.expr_tainted(fn, a) for a in it.args):
                return ("loop", ["<unbounded>"], it, "for ... in %s" % norm(it))
    return None


def _array_tainted(scope, ff, fn, operand):
    for n in walk_local(operand):
        if isinstance(n, ast.Name) and n.id in ff.array_names:
            return True
        if isinstance(n, ast.Call):
            ln = scope.lib_name(fn, n) or ""
            if ln == "numpy.frombuffer" and n.args and \
                    scope.expr_tainted(fn, n.args[0]):
                return True
    return False


def _reshape_discharge(scope, ff, node, operand, depth=0, bind=None):
    """The operand's *size* is fixed independently of the untrusted bytes, or
    the underlying buffer has a length guard."""
    fn = ff.fn
    # np.frombuffer(buf, dtype, count=N).reshape(shape): N elements by
    # construction; fine when the shape's product is the same expression
    src_ = operand
    if isinstance(src_, ast.Name):
        ds_ = [d for d in ff.defs.get(src_.id, []) if d.kind != "param"
               and d.value is not node]
        if len(ds_) == 1 and ds_[0].value is not None and \
                ds_[0].index is None:
            src_ = ds_[0].value
    if isinstance(src_, ast.Call) and \
            (scope.lib_name(fn, src_) or "") == "numpy.frombuffer" and \
            kwarg(src_, "count") is not None and depth == 0 and \
            isinstance(node, ast.Call):
        fform = (scope.lib_name(fn, node) or "") == "numpy.reshape"
        shp = None
        if fform and len(node.args) >= 2:
            shp = node.args[1]
        elif not fform and len(node.args) == 1:
            shp = node.args[0]
        elts = None
        if isinstance(shp, (ast.Tuple, ast.List)):
            elts = list(shp.elts)
        elif not fform and len(node.args) > 1:
            elts = list(node.args)
        if elts and not any(const_int(e) == -1 for e in elts):
            from .intexpr import canon, NotInt
            prod = elts[0]
            for e in elts[1:]:
                prod = ast.BinOp(left=prod, op=ast.Mult(), right=e)
            try:
                if canon(prod) == canon(kwarg(src_, "count")):
                    return True, "D-size: frombuffer(count=N) reshaped to " \
                        "a shape of N elements"
            except NotInt:
                pass
    if isinstance(operand, ast.Name) and depth == 0:
        # ... or of the object it was decoded from (img.size for
        # np.asarray(img)): the arithmetic inside the guard is not verified
        # (declared undecided clause), the guard's presence is
        for nm_ in sorted(closure_names(fn.node, [operand.id], ff.defs)):
            g = ff.len_guard(node, nm_, size_attr=True)
            if g is not None:
                return True, "D-guard: `%s` fixes the size" \
                    % norm(g.test)[:60]
    # direct frombuffer(...) operand or name defined by one
    exprs = [operand]
    seen = set()
    while exprs and depth < 6:
        e = exprs.pop()
        if isinstance(e, ast.Name):
            if e.id in seen:
                continue
            seen.add(e.id)
            ds = [d for d in ff.defs.get(e.id, []) if d.value is not None]
            if not ds and bind and e.id in bind:
                # a parameter: its size is that of the caller's argument
                cff, arg, cnode = bind[e.id]
                ok_, how_ = _reshape_discharge(scope, cff, cnode, arg,
                                               depth + 1)
                if not ok_:
                    return False, how_
                continue
            if not ds:
                return False, "size of %s unknown" % e.id
            exprs.extend(d.value for d in ds)
            continue
        if isinstance(e, ast.Subscript):
            sl = e.slice
            if isinstance(sl, ast.Slice) and sl.upper is not None and \
                    sl.lower is None and not scope.expr_tainted(fn, sl.upper):
                continue        # x[:n] with trusted n: size fixed
            if isinstance(sl, ast.Name):      # fancy index: size of the index
                exprs.append(sl)
                continue
            exprs.append(e.value)
            continue
        if isinstance(e, ast.Call):
            ln = scope.lib_name(fn, e) or ""
            callee = scope.resolve(fn, e)
            if ln == "numpy.frombuffer" and e.args:
                ok, how = ff.buffer_discharge(node, e.args[0])
                if not ok:
                    return False, how
                # need an *exact* size: the guard must be an equality or a
                # modulus test on the length
                def is_exact(g_):
                    return any(isinstance(c, ast.Compare) and
                               isinstance(c.ops[0], (ast.NotEq, ast.Eq))
                               for c in walk_local(g_.test)) or any(
                        # `if len(buf) % n:` - truthiness of a remainder
                        isinstance(c, ast.BinOp) and isinstance(c.op, ast.Mod)
                        for c in walk_local(g_.test))
                g = ff.guard_for(node, e.args[0])
                if g is not None and not is_exact(g) and \
                        isinstance(e.args[0], ast.Name):
                    # another dominating guard may be the exact one
                    for g2 in ff.all_len_guards(node, e.args[0].id):
                        if is_exact(g2):
                            g = g2
                            break
                if g is None and isinstance(e.args[0], ast.Name) and \
                        e.args[0].id in fn.params and depth < 4:
                    # the buffer is a parameter: every caller fixes its size
                    callers = scope.callers.get(fn.key, [])
                    idx = fn.params.index(e.args[0].id)
                    gs = []
                    for cfn, call in callers:
                        if idx >= len(call.args):
                            gs.append(None)
                            continue
                        gs.append(facts(scope, cfn).guard_for(
                            call, call.args[idx]))
                    if callers and all(x is not None and is_exact(x)
                                       for x in gs):
                        continue
                if g is None:
                    return False, "length of %s only bounded, not fixed" \
                        % norm(e.args[0])
                if not is_exact(g):
                    return False, "guard `%s` does not fix the size" \
                        % norm(g.test)
                continue
            if callee is not None:
                cf = facts(scope, callee)
                rets = [s.value for s in stmts_of(callee.node)
                        if isinstance(s, ast.Return) and s.value is not None]
                cparams = list(callee.params)
                if cparams and cparams[0] in ("self", "cls") and isinstance(
                        e.func, ast.Attribute):
                    cparams = cparams[1:]
                cbind = {p_: (ff, a_, node)
                         for p_, a_ in zip(cparams, e.args)}
                for k_ in e.keywords:
                    if k_.arg:
                        cbind[k_.arg] = (ff, k_.value, node)
                for r in rets:
                    ok, how = _reshape_discharge(scope, cf, r, r, depth + 1,
                                                 cbind)
                    if not ok:
                        return False, "%s returns %s: %s" % (callee.key,
                                                             norm(r), how)
                continue
            if ln in ("numpy.moveaxis", "numpy.reshape", "numpy.squeeze") \
                    and e.args:
                exprs.append(e.args[0])
                continue
            if ln == "numpy.empty":
                continue
            if isinstance(e.func, ast.Attribute):
                exprs.append(e.func.value)
                continue
            return False, "size of %s unknown" % norm(e)
        if isinstance(e, ast.BinOp):
            exprs.extend([e.left, e.right])
            continue
        if isinstance(e, ast.Attribute):
            exprs.append(e.value)
            continue
        if isinstance(e, ast.Constant):
            continue
        return False, "size of %s unknown" % norm(e)
    return True, "D-size: operand size fixed by trusted bounds / exact guard"


def _param_via_record(ff, name):
    """`name` is a parameter and some caller passes a record field for it."""
    if name not in ff.fn.params:
        return False
    idx = ff.fn.params.index(name)
    for cfn, call in ff.scope.callers.get(ff.fn.key, []):
        a = call.args[idx] if idx < len(call.args) else None
        for k in call.keywords:
            if k.arg == name:
                a = k.value
        if a is not None and _via_record(facts(ff.scope, cfn), a):
            return True
    return False


def _derived_from_record(ff, name, depth=0):
    """`name` is computed from names that come from a record field."""
    if depth > 3:
        return False
    for d in ff.defs.get(name, []):
        if d.value is None:
            continue
        for n in names_in(d.value):
            if n == name:
                continue
            e = ast.Name(id=n, ctx=ast.Load())
            if _via_record(ff, e) or _param_via_record(ff, n) or \
                    _derived_from_record(ff, n, depth + 1):
                return True
        if any(_via_record(ff, x) for x in walk_local(d.value)
               if isinstance(x, ast.Attribute)):
            return True
    return False


_ARRAY_ATTRS = {"shape", "dtype", "itemsize", "size", "ndim", "nbytes"}


def _via_record(ff, expr, depth=0):
    """The value is read from a field of a local record object
    (`header.bits` where header was built by a helper / namedtuple /
    dataclass): value sets are not tracked through object fields."""
    if isinstance(expr, ast.Attribute) and isinstance(expr.value, ast.Name) \
            and expr.value.id not in ("self", "cls") and \
            expr.attr not in _ARRAY_ATTRS:
        return True
    if isinstance(expr, ast.Name) and depth < 3:
        ds = [d for d in ff.defs.get(expr.id, []) if d.value is not None]
        return bool(ds) and any(_via_record(ff, d.value, depth + 1)
                                for d in ds if d.index is None)
    if isinstance(expr, (ast.BinOp, ast.UnaryOp, ast.Call)) and depth < 3:
        return any(_via_record(ff, x, depth + 1)
                   for x in ast.iter_child_nodes(expr)
                   if isinstance(x, ast.expr))
    return False


def _set_discharge(ff, node, kind, operand):
    if kind == "div" and operand.id in ff.fn.params and \
            ff.valueset(operand.id, node) is None:
        callers = ff.scope.callers.get(ff.fn.key, [])
        idx = ff.fn.params.index(operand.id)
        notes = []
        for cfn, call in callers:
            if idx >= len(call.args):
                continue
            a = call.args[idx]
            if not ff.scope.expr_tainted(cfn, a):
                continue
            cf = facts(ff.scope, cfn)
            s = cf.valueset_expr(a, call)
            if s is None and (_via_record(cf, a) or (
                    isinstance(a, ast.Name) and
                    _derived_from_record(cf, a.id))):
                return None, "caller %s passes %s, a field of a record " \
                    "object: value sets are not tracked through object " \
                    "fields" % (cfn.key, norm(a))
            if s is None or 0 in s:
                return False, "caller %s passes untrusted divisor %s%s" % (
                    cfn.key, norm(a), "" if s is None else
                    " which may be 0")
            notes.append("%s: %s in %s" % (cfn.qualname, norm(a), sorted(s)))
        return True, "D-set per caller: " + ("; ".join(notes) or
                                             "all callers pass trusted values")
    if kind == "div":
        s = ff.valueset_expr(operand, node) \
            if ff.comp_binding(operand) is not None \
            else ff.valueset(operand.id, node)
        if s is None and (_via_record(ff, operand) or _param_via_record(
                ff, operand.id)):
            return None, "divisor %s comes from a field of a record object" \
                % operand.id
        if s is None:
            return False, "no finite value set for divisor %s" % operand.id
        if 0 in s:
            return False, "divisor %s may be 0 (value set %s)" % (
                operand.id, sorted(s))
        return True, "D-set: %s in %s" % (operand.id, sorted(s))
    if kind == "assert":
        nms = [n for n in names_in(operand)]
        for nm in nms:
            s = ff.valueset(nm, node)
            if s is not None and ff.pred_true_on(operand, nm, s):
                return True, "D-set: holds for every %s in %s" % (nm, sorted(s))
        if any(_via_record(ff, ast.Name(id=nm, ctx=ast.Load())) or
               _param_via_record(ff, nm) for nm in nms):
            return None, "asserted value comes from a field of a record object"
        return False, "assertion over untrusted data is not implied by a " \
            "preceding guard"
    if kind == "loop":
        nms = names_in(operand)
        bounded = []
        for nm in nms:
            if nm in ff.scope.taint[ff.fn.key]:
                s = ff.valueset(nm, node)
                if s is None and (_via_record(ff, ast.Name(id=nm,
                                                           ctx=ast.Load()))
                                  or _param_via_record(ff, nm)
                                  or _derived_from_record(ff, nm)):
                    return None, "loop extent %s derives from a field of a " \
                        "record object" % nm
                if s is None:
                    return False, "loop extent %s is untrusted and unbounded" \
                        % nm
                bounded.append("%s<=%s" % (nm, max(s) if s else "-"))
        return True, "D-set: " + ", ".join(bounded)
    return False, ""


# ---------------------------------------------------------------------
def decoded_shape(repo, col):
    """Every decoder returns an array of the requested shape
    (C, Z, Y, X) built from chunk_size = (X, Y, Z)."""
    rule = "E-EXC.shape"
    for cls in ("RawChunkEncoder", "CompressedSegmentationEncoder",
                "JpegChunkEncoder"):
        fn = repo.func("chunk_encoding", cls + ".decode")
        params = [p for p in fn.params if p != "self"]
        cs = params[1] if len(params) > 1 else "chunk_size"
        ok, how = _returns_shape(repo, fn, cs, "self.num_channels")
        col.add(rule, fn, "return shape (C, %s[2], %s[1], %s[0])" % (cs, cs, cs),
                ok is not False, how, node=fn.node, undecided=ok is None)
        # each call returns its own array: nothing decoded is kept on self
        kept = [n for n in walk_local(fn.node) if isinstance(n, (ast.Assign,
                                                                 ast.AugAssign))
                and any(isinstance(t, ast.Attribute) and
                        isinstance(t.value, ast.Name) and t.value.id == "self"
                        for t in (n.targets if isinstance(n, ast.Assign)
                                  else [n.target]))]
        def _self_storage(e):
            # self.x / self.x[i] (not the result of calling a method)
            while isinstance(e, ast.Subscript):
                e = e.value
            return isinstance(e, ast.Attribute) and isinstance(
                e.value, ast.Name) and e.value.id == "self"
        rets_self = [r for r in stmts_of(fn.node) if isinstance(r, ast.Return)
                     and r.value is not None and _self_storage(r.value)]
        okf = not kept and not rets_self
        col.add(rule + ".fresh", fn, "decode() keeps no array on self", okf,
                "" if okf else "decode() stores / returns an array held on "
                "the encoder object: a later read of the same scale "
                "overwrites the array an earlier read returned",
                node=(kept + rets_self)[0] if not okf else None)


def _shape_matches(elts, cs, ch):
    if len(elts) != 4:
        return False
    want = ["%s[2]" % cs, "%s[1]" % cs, "%s[0]" % cs]
    return norm(elts[0]) in (ch, ch.split(".")[-1]) and \
        [norm(e) for e in elts[1:]] == want


def _module_behind(fn, call):
    """`self._codec()` / `_codec()` returning a lazily imported module of the
    package: that module, else None."""
    from .core import resolve_local_call
    h = resolve_local_call(fn, call)
    if h is None:
        return None
    rets = [r.value for r in stmts_of(h.node) if isinstance(r, ast.Return)
            and r.value is not None]
    if len(rets) != 1:
        return None
    tbl = {}
    h.module._collect_imports(h.node, tbl)
    tbl = dict(h.module.imports, **tbl)
    tgt = tbl.get(dotted(rets[0]) or "")
    if tgt is None and isinstance(rets[0], ast.Attribute):
        tgt = h.module.resolve(dotted(rets[0]) or "")
    if tgt and tgt in h.module.repo.modules:
        return h.module.repo.modules[tgt]
    return None


def _returns_shape(repo, fn, cs, ch, depth=0):
    """(True, how) every return yields the requested shape; (False, how) a
    return builds an array with a different shape; (None, how) not
    recognised."""
    defs = local_defs(fn.node)
    rets = [s for s in stmts_of(fn.node) if isinstance(s, ast.Return)]
    if not rets:
        return None, "no return"
    unknown = None
    for r in rets:
        e = r.value
        ok = False
        seen_shape_call = False
        cands = [e]
        if isinstance(e, ast.Name):
            cands = [d.value for d in defs.get(e.id, []) if d.value is not None]
        for c in cands:
            for call in [n for n in walk_local(c) if isinstance(n, ast.Call)]:
                nm = call_name(call) or ""
                if isinstance(call.func, ast.Attribute) and \
                        call.func.attr == "reshape":
                    nm = "x.reshape"
                if nm.endswith("reshape") or nm.endswith("np.empty") or \
                        nm.endswith("numpy.empty"):
                    args = call.args
                    if nm.endswith("np.reshape") and len(args) >= 2:
                        args = args[1:]
                    if len(args) == 1 and isinstance(args[0], ast.Call):
                        # shape built by a straight-line helper
                        from .core import resolve_local_call
                        from .dataflow import inline_helper_call
                        h = resolve_local_call(fn, args[0])
                        if h is not None:
                            inl = inline_helper_call(args[0], h.node,
                                                     drop_self=True)
                            if isinstance(inl, (ast.Tuple, ast.List)):
                                args = [inl]
                    if len(args) == 1 and isinstance(args[0], (ast.Tuple,
                                                               ast.List)):
                        elts = args[0].elts
                    else:
                        elts = args
                    if len(elts) == 4:
                        seen_shape_call = True
                    if _shape_matches(elts, cs, ch):
                        ok = True
            if not ok and isinstance(c, ast.Call) and depth < 2:
                # delegate: _jpeg.decode_chunk(buf, chunk_size, num_channels)
                sc = Scope(repo, [], {})
                callee = sc.resolve(fn, c)
                if callee is None and isinstance(c.func, ast.Attribute) and \
                        isinstance(c.func.value, ast.Call):
                    om = _module_behind(fn, c.func.value)
                    if om is not None:
                        callee = om.functions.get(c.func.attr)
                if callee is not None:
                    # map parameters
                    cparams = callee.params
                    cs2 = ch2 = None
                    for i, a in enumerate(c.args):
                        if norm(a) == cs and i < len(cparams):
                            cs2 = cparams[i]
                        if norm(a) == ch and i < len(cparams):
                            ch2 = cparams[i]
                    if cs2 and ch2:
                        sub, _ = _returns_shape(repo, callee, cs2, ch2,
                                                depth + 1)
                        if sub:
                            ok = True
                        elif sub is False:
                            seen_shape_call = True
        if not ok:
            msg = "return value `%s` is not allocated / reshaped with " \
                "the requested shape (C, Z, Y, X) = (%s, %s[2], %s[1], %s[0])" \
                % (norm(e), ch, cs, cs, cs)
            if seen_shape_call:
                return False, msg
            unknown = msg
    if unknown:
        return None, unknown
    return True, "all %d return paths yield the requested shape" % len(rets)
