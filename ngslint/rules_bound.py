"""E-BOUND: strictness of index-versus-count guards, completeness and
boundedness of coordinate validators, negative-step slices."""
import ast

from .core import (AnalysisError, dotted, norm, walk_local, const_int,
                   stmts_of, block_always_raises)
from .dataflow import (local_defs, holds, raise_guards, names_in,
                       closure_names, Atom)



from .core import helper_closure, resolve_local_call, call_name, calls_in as _calls_in


def _coord_scopes(fn, coord_param):
    """[(function, local name of the coordinate argument)] for fn and the
    helpers that receive the coordinates as an argument."""
    out = [(fn, coord_param)]
    for c in _calls_in(fn.node):
        callee = resolve_local_call(fn, c)
        if callee is None:
            continue
        params = [p for p in callee.params if p not in ("self", "cls")]
        for i, a in enumerate(c.args):
            if isinstance(a, ast.Name) and a.id == coord_param and i < len(params):
                out.append((callee, params[i]))
        for k in c.keywords:
            if isinstance(k.value, ast.Name) and k.value.id == coord_param:
                out.append((callee, k.arg))
    return out

def _coord_scopes3(fn, coord_param, size_attr):
    """As _coord_scopes, with the name under which each scope knows the
    count the coordinates are compared with: the parameter that receives
    `size_attr` in a helper, `size_attr` itself otherwise."""
    out = [(fn, coord_param, size_attr)]
    for c in _calls_in(fn.node):
        callee = resolve_local_call(fn, c)
        if callee is None:
            continue
        params = [p for p in callee.params if p not in ("self", "cls")]
        bind = {}
        for i, a in enumerate(c.args):
            if i < len(params):
                bind[params[i]] = a
        for k in c.keywords:
            if k.arg:
                bind[k.arg] = k.value
        cn = [p for p, a in bind.items()
              if isinstance(a, ast.Name) and a.id == coord_param]
        sn = [p for p, a in bind.items() if norm(a) == size_attr]
        for p in cn:
            out.append((callee, p, sn[0] if sn else size_attr))
    return out


def _elem_sources(fn, defs):
    """name -> set of source texts for names bound to *elements* of an
    iterable (comprehension / for targets, incl. through zip)."""
    out = {}
    for name, ds in defs.items():
        for d in ds:
            if d.elem and d.value is not None:
                out.setdefault(name, set()).add(norm(d.value))
    return out


def _is_nonempty_test(e):
    t = norm(e)
    return (isinstance(e, ast.Attribute) and e.attr == "size") or \
        t.startswith("len(") or (
            isinstance(e, ast.Compare) and len(e.ops) == 1 and
            isinstance(e.ops[0], (ast.Gt, ast.NotEq)) and
            (norm(e.left).endswith(".size") or
             norm(e.left).startswith("len(")) and
            const_int(e.comparators[0]) == 0)


def _guards_with_nonempty(fnode):
    """raise_guards, plus: `if x.size and <cmp>: raise` - for a non-empty x
    the comparison is false on the fall-through path (for an empty one there
    is nothing to compare)."""
    from .core import stmts_of as _so, block_always_raises as _bar
    from .dataflow import holds as _holds
    out = list(raise_guards(fnode))
    seen = {id(g) for g, _ in out if _}
    for st in _so(fnode):
        if isinstance(st, ast.If) and not st.orelse and _bar(st.body) and \
                isinstance(st.test, ast.BoolOp) and \
                isinstance(st.test.op, ast.And):
            rest = [v for v in st.test.values if not _is_nonempty_test(v)]
            if len(rest) == 1 and len(rest) < len(st.test.values):
                atoms = _holds(rest[0], False)
                if atoms:
                    out.append((st, atoms))
    return out


def _all_guard_atoms(fn):
    """Atoms of every raise-guard, including those whose comparison sits in a
    generator expression (names bound by the generator are resolved by the
    caller through local_defs, which includes comprehension targets)."""
    out = list(_guards_with_nonempty(fn.node))
    # guards that sit in a local helper called as a statement
    # (`self._check(x, n)`): the helper's fall-through atoms with its
    # parameters replaced by the call's arguments
    from .dataflow import _Subst
    import copy as _cp
    for st in stmts_of(fn.node):
        if not (isinstance(st, ast.Expr) and isinstance(st.value, ast.Call)):
            continue
        call = st.value
        h = resolve_local_call(fn, call)
        if h is None or h is fn:
            continue
        hp = list(h.params)
        if hp and hp[0] in ("self", "cls") and isinstance(call.func,
                                                          ast.Attribute):
            hp = hp[1:]
        if len(call.args) > len(hp) or any(isinstance(a, ast.Starred)
                                           for a in call.args):
            continue
        table = dict(zip(hp, call.args))
        for k in call.keywords:
            if k.arg in hp:
                table[k.arg] = k.value
        for g, atoms in _guards_with_nonempty(h.node):
            new_atoms = []
            for a in atoms:
                l = _Subst(table).visit(_cp.deepcopy(a.left))
                r = _Subst(table).visit(_cp.deepcopy(a.right))
                new_atoms.append(Atom(l, a.op, r, a.node))
            out.append((st, new_atoms))
    return out


# ---------------------------------------------------------------------
def strict_morton_bound(repo, col):
    """compressed_morton_code: a guard must reject grid_coord >= grid_size."""
    rule = "E-BOUND.strict-index"
    fn = repo.func("sharded_base", "ShardVolumeSpec.compressed_morton_code")
    params = [p for p in fn.params if p != "self"]
    if not params:
        raise AnalysisError("compressed_morton_code lost its parameter")
    size_attr = "self.grid_sizes"
    found = []
    mentions = False
    for g, coord_param, size_name in _coord_scopes3(fn, params[0],
                                                    size_attr):
        if size_attr in norm(g.node):
            mentions = True
        found += [(g, st, a) for st, a in _index_vs_count_atoms(
            g, coord_param, size_name)]
    if not mentions:
        raise AnalysisError("anchor vanished: %s in %s" % (size_attr, fn.key))
    if not found:
        # a guard that compares the coordinates with something this rule
        # cannot identify as the grid size is not evidence of a missing check
        other = False
        for g, coord_param in _coord_scopes(fn, params[0]):
            gsrc = _elem_sources(g, local_defs(g.node))
            for st, atoms in _all_guard_atoms(g):
                for a in atoms:
                    for x, y in ((a.left, a.right), (a.right, a.left)):
                        is_coord = any(coord_param in gsrc.get(n, ())
                                       for n in names_in(x)) or (
                            isinstance(x, ast.Subscript) and
                            norm(x.value) == coord_param)
                        if is_coord and a.op in ("<", "<=", ">", ">=") and \
                                const_int(y) is None:
                            other = True
        col.add(rule, fn, "grid_coord < grid_size", other,
                "no raise-guard compares the grid coordinates with "
                "self.grid_sizes: positions outside the grid are accepted"
                if not other else "a guard compares the coordinates with a "
                "bound this rule does not identify as the grid size",
                undecided=other)
        return
    strict = [x for x in found if x[2].op == "<"]
    for g, st, a in found:
        ok = a.op == "<"
        # a non-strict guard is harmless only if a strict one exists too
        if not ok and strict:
            continue
        col.add(rule, fn, "grid_coord %s grid_size" % a.op, ok,
                "accepted relation on the fall-through path is "
                "'coord %s size'; an index must be strictly below the count "
                "(coord == size aliases another chunk's identifier)" % a.op
                if not ok else "coordinates equal to the grid size are "
                "rejected", node=st)


def _index_vs_count_atoms(fn, coord_param, size_attr):
    defs = local_defs(fn.node)
    src = _elem_sources(fn, defs)

    def side(expr):
        txt = norm(expr)
        names = names_in(expr)
        if isinstance(expr, ast.Subscript):
            base = norm(expr.value)
            if base == coord_param:
                return "coord"
            if base == size_attr:
                return "size"
        for n in names:
            for s_ in src.get(n, ()):
                if s_ == coord_param:
                    return "coord"
                if s_ == size_attr:
                    return "size"
        if txt == size_attr:
            return "size"
        # the count reached through a per-axis record (axis.grid_size)
        leaf = size_attr.split(".")[-1]
        if isinstance(expr, ast.Attribute) and leaf.startswith(expr.attr) \
                and len(expr.attr) >= len(leaf) - 1:
            return "size"
        return None
    out = []
    for st, atoms in _all_guard_atoms(fn):
        for a in atoms:
            l, r = side(a.left), side(a.right)
            if l == "size" and r == "coord":
                a, l, r = a.flipped(), "coord", "size"
            if l == "coord" and r == "size":
                out.append((st, a))
    return out


def morton_nonneg(repo, col):
    rule = "E-BOUND.nonneg-index"
    fn = repo.func("sharded_base", "ShardVolumeSpec.compressed_morton_code")
    params = [p for p in fn.params if p != "self"]
    ok = False
    where = None
    for g, coord_param in _coord_scopes(fn, params[0]):
        defs = local_defs(g.node)
        src = _elem_sources(g, defs)
        for st, atoms in _all_guard_atoms(g):
            for a in atoms:
                for x, other, ops in ((a.left, a.right, (">=",)),
                                      (a.right, a.left, ("<=",))):
                    nm = names_in(x)
                    is_coord = any(coord_param in src.get(n, ()) for n in nm) \
                        or (isinstance(x, ast.Subscript) and
                            norm(x.value) == coord_param)
                    if is_coord and const_int(other) == 0 and a.op in ops:
                        ok, where = True, st
    col.add(rule, fn, "grid_coord >= 0", ok,
            "negative grid coordinates are rejected" if ok else
            "no guard rejects negative grid coordinates", node=where)


# ---------------------------------------------------------------------
def strict_mesh_bound(repo, col):
    """read_precomputed_mesh: triangle indices must be < vertex count."""
    rule = "E-BOUND.strict-index"
    fn = repo.func("mesh", "read_precomputed_mesh")
    defs = local_defs(fn.node)

    def from_call(expr, callee_suffix, arg_pred=None):
        for n in walk_local(expr):
            if isinstance(n, ast.Call):
                nm = dotted(n.func) or ""
                if nm.endswith(callee_suffix):
                    if arg_pred is None or arg_pred(n):
                        return True
        return False

    def is_uint32_fmt(call):
        vals = list(call.args) + [k.value for k in call.keywords]
        return any(isinstance(a, ast.Constant) and
                   a.value in ("<I", "I", "<u4", "uint32")
                   for a in vals) or any(
            norm(a) in ("np.uint32", "numpy.uint32") for a in vals)

    count_names, index_names = set(), set()
    for name, ds in defs.items():
        for d in ds:
            if d.value is None:
                continue
            if from_call(d.value, ".unpack") or \
                    from_call(d.value, "unpack_from"):
                count_names.add(name)
            if from_call(d.value, "frombuffer", is_uint32_fmt):
                index_names.add(name)
    changed = True
    while changed:          # forward propagation (reshape, views, ...)
        changed = False
        for name, ds in defs.items():
            if name in index_names or name in count_names:
                continue
            for d in ds:
                if d.value is not None and names_in(d.value) & index_names:
                    index_names.add(name)
                    changed = True
    index_names -= count_names
    if not count_names or not index_names:
        col.add(rule, fn, "triangles < num_vertices", True,
                "vertex count (struct unpack) or triangle indices (uint32 "
                "frombuffer) not recognised in the mesh reader",
                undecided=True)
        return
    found = []
    for st, atoms in _all_guard_atoms(fn):
        for a in atoms:
            ln, rn = names_in(a.left), names_in(a.right)
            if ln & count_names and rn & index_names and not (ln & index_names):
                a = a.flipped()
                ln, rn = rn, ln
            if ln & index_names and rn & count_names:
                found.append((st, a))
    if not found:
        col.add(rule, fn, "triangles < num_vertices", False,
                "no raise-guard compares triangle indices with the vertex "
                "count")
        return
    strict = [x for x in found if x[1].op == "<"]
    for st, a in found:
        ok = a.op == "<"
        if not ok and strict:
            continue
        col.add(rule, fn, "triangle_index %s num_vertices" % a.op, ok,
                ("accepted relation 'index %s count' lets an index equal to "
                 "the vertex count through" % a.op) if not ok else
                "indices equal to the vertex count are rejected", node=st)


# ---------------------------------------------------------------------
def validator_same_entry(repo, col):
    """A chunk is on the grid if ONE entry of chunk_sizes fits all three
    axes.  Iterations over the chunk_sizes list must therefore use the whole
    entry (unpack three components / index 0, 1 and 2); projecting the list
    onto one axis (`[cs[axis] for cs in chunk_sizes]`) lets a chunk that mixes
    rows of chunk_sizes through."""
    rule = "E-BOUND.validator.same-entry"
    top = repo.func("precomputed_io", "PrecomputedIO.validate_chunk_coords")

    def uses_of(fn, name, depth=0):
        """('whole'|'projected'|'unknown') for how `name` (one chunk_sizes
        entry) is consumed in fn."""
        consts, projected, whole = set(), False, False
        for n in walk_local(fn.node):
            if isinstance(n, ast.Assign) and isinstance(n.value, ast.Name) and \
                    n.value.id == name and isinstance(n.targets[0], (ast.Tuple,
                                                                      ast.List)) \
                    and len(n.targets[0].elts) == 3:
                whole = True
            if isinstance(n, ast.Subscript) and isinstance(n.value, ast.Name) \
                    and n.value.id == name:
                c = const_int(n.slice)
                if c is not None:
                    consts.add(c)
                elif not isinstance(n.slice, ast.Slice):
                    projected = True
            if isinstance(n, ast.Call) and depth < 2:
                h = resolve_local_call(fn, n)
                if h is None:
                    continue
                hp = list(h.params)
                if hp and hp[0] in ("self", "cls") and isinstance(
                        n.func, ast.Attribute):
                    hp = hp[1:]
                for i, a in enumerate(n.args):
                    if isinstance(a, ast.Name) and a.id == name and i < len(hp):
                        r = uses_of(h, hp[i], depth + 1)
                        if r == "whole":
                            whole = True
                        elif r == "projected":
                            projected = True
                for k in n.keywords:
                    if isinstance(k.value, ast.Name) and k.value.id == name \
                            and k.arg in hp:
                        r = uses_of(h, k.arg, depth + 1)
                        if r == "whole":
                            whole = True
                        elif r == "projected":
                            projected = True
            # zip(entry, ...) / for c in entry: element-wise over all axes
            if isinstance(n, ast.Call) and call_name(n) in ("zip", "enumerate",
                                                            "tuple", "list") \
                    and any(isinstance(a, ast.Name) and a.id == name
                            for a in n.args):
                whole = True
        if whole or {0, 1, 2} <= consts:
            return "whole"
        if projected or (consts and len(consts) < 3):
            return "projected"
        return "unknown"

    found = 0
    for fn in helper_closure(top):
        for n in walk_local(fn.node):
            it, tgt = None, None
            if isinstance(n, ast.For):
                it, tgt = n.iter, n.target
            elif isinstance(n, ast.comprehension):
                it, tgt = n.iter, n.target
            if it is None or not isinstance(tgt, ast.Name):
                continue
            src = norm(it)
            if isinstance(it, ast.Name):
                src = " ".join(norm(d.value) for d in local_defs(fn.node).get(
                    it.id, []) if d.value is not None) or src
            if "['chunk_sizes']" not in src:
                continue
            found += 1
            r = uses_of(fn, tgt.id)
            col.add(rule, fn, "for %s in %s" % (tgt.id, norm(it)[:40]),
                    r != "projected",
                    "one chunk_sizes entry is tested on all three axes"
                    if r == "whole" else
                    "the chunk_sizes list is projected onto a single axis "
                    "(`%s[...]` with a per-axis index): each axis may then "
                    "match a different row, so coordinates that belong to no "
                    "single chunk grid are accepted" % tgt.id
                    if r == "projected" else "use of the entry not recognised",
                    node=n if isinstance(n, ast.For) else it,
                    undecided=r == "unknown")
    if not found:
        col.add(rule, top, "iteration over chunk_sizes", True,
                "no iteration over info['chunk_sizes'] recognised",
                undecided=True)


def validator_complete(repo, col):
    """validate_chunk_coords: every component used; lower corner bounded by
    0 and the size; lattice test; upper corner = min(lo + cs, size)."""
    fn = repo.func("precomputed_io", "PrecomputedIO.validate_chunk_coords")
    defs = local_defs(fn.node)
    params = [p for p in fn.params if p != "self"]
    coord_param = params[-1]
    comp = {}          # name -> position 0..5
    for name, ds in defs.items():
        for d in ds:
            if d.value is not None and norm(d.value) == coord_param \
                    and d.index is not None:
                comp[name] = d.index
    if sorted(comp.values()) != [0, 1, 2, 3, 4, 5]:
        col.add("E-BOUND.validator", fn, "unpack(chunk_coords)", True,
                "validator does not unpack the six coordinates by name",
                undecided=True)
        return
    by_pos = {v: k for k, v in comp.items()}
    # size and chunk-size component names
    size_names, cs_names = {}, {}
    for name, ds in defs.items():
        for d in ds:
            if d.value is None or d.index is None:
                continue
            txt = norm(d.value)
            if "'size'" in txt or '"size"' in txt:
                size_names[d.index] = name
            else:
                clos = closure_names(fn.node, [name], defs)
                if any("chunk_sizes" in norm(dd.value)
                       for c in clos for dd in defs.get(c, [])
                       if dd.value is not None):
                    cs_names[d.index] = name
    if sorted(size_names) != [0, 1, 2] or sorted(cs_names) != [0, 1, 2]:
        col.add("E-BOUND.validator", fn, "size/chunk-size names", True,
                "cannot identify per-axis size and chunk-size names",
                undecided=True)
        return
    # the `return True` guard(s)
    accept_atoms = None
    accept_test = None
    for st in stmts_of(fn.node):
        if isinstance(st, ast.If):
            for s in st.body:
                if isinstance(s, ast.Return) and isinstance(s.value, ast.Constant) \
                        and s.value.value is True:
                    accept_atoms = holds(st.test, True)
                    accept_test = st
    if accept_test is None:
        # form: return <conjunction>
        for st in stmts_of(fn.node):
            if isinstance(st, ast.Return) and st.value is not None and \
                    not isinstance(st.value, ast.Constant):
                accept_atoms = holds(st.value, True)
                accept_test = st
    if accept_test is None:
        col.add("E-BOUND.validator", fn, "accept condition", True,
                "no recognisable accept condition", undecided=True)
        return
    test_expr = accept_test.test if isinstance(accept_test, ast.If) \
        else accept_test.value
    has_calls = any(isinstance(n, ast.Call) and dotted(n.func) not in
                    ("min", "max", "range", "all", "any", "len", "int")
                    for n in walk_local(test_expr))
    used = names_in(test_expr)
    for pos in range(6):
        nm = by_pos[pos]
        col.add("E-BOUND.validator-uses", fn, "component[%d] used" % pos,
                nm in used,
                "coordinate component %s never constrains acceptance" % nm
                if nm not in used else "", node=accept_test,
                undecided=(nm not in used and has_calls))
    axes = "xyz"
    for ax in range(3):
        lo, hi = by_pos[2 * ax], by_pos[2 * ax + 1]
        sz, cs = size_names[ax], cs_names[ax]
        lower = upper = lattice = maxeq = False
        for a in accept_atoms:
            L, R = norm(a.left), norm(a.right)
            for (x, y, op) in ((L, R, a.op), (R, L, _flip(a.op))):
                if x == lo and op in (">=",) and y == "0":
                    lower = True
                if x == lo and op == ">" and y == "-1":
                    lower = True
                if x == lo and op == "<" and y == sz:
                    upper = True
                if x == lo and op == "in" and y.startswith("range(0, %s" % sz):
                    lower = upper = True
                    if y == "range(0, %s, %s)" % (sz, cs):
                        lattice = True
                if x in ("%s %% %s" % (lo, cs),) and op == "==" and y == "0":
                    lattice = True
                if x == hi and op == "==" and y in (
                        "min(%s + %s, %s)" % (lo, cs, sz),
                        "min(%s + %s, %s)" % (cs, lo, sz),
                        "min(%s, %s + %s)" % (sz, lo, cs),
                        "min(%s, %s + %s)" % (sz, cs, lo)):
                    maxeq = True
        for what, ok, why in (
                ("lower-bound", lower, "%s is not bounded below by 0: negative "
                 "multiples of the chunk size are accepted" % lo),
                ("upper-bound", upper, "%s is not bounded above by the size "
                 "%s: chunks beyond the volume are accepted" % (lo, sz)),
                ("lattice", lattice, "%s is not required to be a multiple of "
                 "%s" % (lo, cs)),
                ("max-eq", maxeq, "%s is not required to equal min(%s + %s, "
                 "%s)" % (hi, lo, cs, sz))):
            col.add("E-BOUND.validator", fn, "%s %s" % (axes[ax], what), ok,
                    "" if ok else why, node=accept_test,
                    undecided=(not ok and has_calls))


def _flip(op):
    return {"<": ">", "<=": ">=", ">": "<", ">=": "<=", "==": "==",
            "!=": "!=", "in": "contains"}.get(op, op)


# ---------------------------------------------------------------------
def cmc_lattice(repo, col):
    """get_cmc: each lower coordinate rejected unless a multiple of the
    chunk size on its own axis."""
    rule = "E-BOUND.lattice"
    fn = repo.func("sharded_base", "ShardVolumeSpec.get_cmc", inline=True)
    defs = local_defs(fn.node)
    params = [p for p in fn.params if p != "self"]
    coord_param = params[0]
    comp, cs = {}, {}
    for name, ds in defs.items():
        for d in ds:
            if d.value is None or d.index is None:
                continue
            if norm(d.value) == coord_param:
                comp[d.index] = name
            elif "chunk_sizes" in norm(d.value):
                cs[d.index] = name
    if sorted(comp) != [0, 1, 2, 3, 4, 5] or sorted(cs) != [0, 1, 2]:
        col.add(rule, fn, "unpack", True, "coordinate / chunk-size names not "
                "unpacked by name", undecided=True)
        return
    from .dataflow import single_defs, expand
    table = single_defs(fn.node, defs)
    guards = _all_guard_atoms(fn)
    src = _elem_sources(fn, defs)
    covered = set()
    unresolved_mod_guard = False

    def tuple_elts(txt_or_node):
        node = txt_or_node
        if isinstance(node, ast.Name) and node.id in table:
            node = table[node.id]
        if isinstance(node, (ast.Tuple, ast.List)):
            return [norm(e) for e in node.elts]
        return None
    # zip bindings: name -> (position in zip, zip call)
    zips = {}
    for n in walk_local(fn.node):
        if isinstance(n, (ast.For, ast.comprehension)) and \
                isinstance(n.iter, ast.Call) and \
                (dotted(n.iter.func) == "zip") and \
                isinstance(n.target, ast.Tuple):
            for k, t in enumerate(n.target.elts):
                if isinstance(t, ast.Name):
                    zips[t.id] = (k, n.iter)
    # `for a, b in ((x0, c0), (x1, c1), ...)`: name -> (position, pairs)
    pairs = {}
    for n in walk_local(fn.node):
        if isinstance(n, (ast.For, ast.comprehension)) and \
                isinstance(n.target, ast.Tuple):
            it = n.iter
            if isinstance(it, ast.Name) and it.id in table:
                it = table[it.id]
            if isinstance(it, (ast.Tuple, ast.List)) and it.elts and all(
                    isinstance(e, (ast.Tuple, ast.List)) and
                    len(e.elts) == len(n.target.elts) for e in it.elts):
                for k, t in enumerate(n.target.elts):
                    if isinstance(t, ast.Name):
                        pairs[t.id] = (k, it)
    for st, atoms in guards:
        for a in atoms:
            if not (isinstance(a.left, ast.BinOp) and
                    isinstance(a.left.op, ast.Mod) and a.op == "==" and
                    norm(a.right) == "0"):
                continue
            L, R = a.left.left, a.left.right
            if isinstance(L, ast.Name) and isinstance(R, ast.Name) and \
                    L.id in pairs and R.id in pairs and \
                    pairs[L.id][1] is pairs[R.id][1]:
                it = pairs[L.id][1]
                covered |= {(norm(e.elts[pairs[L.id][0]]),
                             norm(e.elts[pairs[R.id][0]])) for e in it.elts}
            elif isinstance(L, ast.Name) and isinstance(R, ast.Name) and \
                    L.id in zips and R.id in zips and \
                    zips[L.id][1] is zips[R.id][1]:
                z = zips[L.id][1]
                A = tuple_elts(z.args[zips[L.id][0]])
                B = tuple_elts(z.args[zips[R.id][0]])
                if A and B and len(A) == len(B):
                    covered |= set(zip(A, B))
                else:
                    unresolved_mod_guard = True
            else:
                covered.add((norm(L), norm(R)))
    any_mod_guard = bool(covered) or unresolved_mod_guard
    for ax in range(3):
        lo, c = comp[2 * ax], cs[ax]
        ok = (lo, c) in covered
        col.add(rule, fn, "%s %% %s == 0" % ("xyz"[ax] + "min", "xyz"[ax] + "cs"),
                ok, "" if ok else "no guard rejects %s that is not a "
                "multiple of %s" % (lo, c),
                undecided=not ok and unresolved_mod_guard)
    # grid coordinate = lower corner / chunk size, per axis, in x,y,z order
    ok_order = False
    recognisable = False
    want = []
    for ax in range(3):
        lo, c = comp[2 * ax], cs[ax]
        want.append({"int(%s / %s)" % (lo, c), "%s // %s" % (lo, c),
                     "int(%s // %s)" % (lo, c)})
    for v in walk_local(fn.node):
        if True:
            if isinstance(v, (ast.List, ast.Tuple)) and len(v.elts) == 3 and \
                    isinstance(getattr(v, "ctx", None), ast.Load):
                texts = [norm(e) for e in v.elts]
                if any("/" in t for t in texts):
                    recognisable = True
                if all(t in w for t, w in zip(texts, want)):
                    ok_order = True
            if isinstance(v, ast.ListComp) and len(v.generators) == 1 and \
                    isinstance(v.generators[0].iter, ast.Call) and \
                    dotted(v.generators[0].iter.func) == "zip" and \
                    isinstance(v.generators[0].target, ast.Tuple):
                g = v.generators[0]
                tn = [t.id for t in g.target.elts if isinstance(t, ast.Name)]
                seqs = [tuple_elts(x) for x in g.iter.args]
                if len(tn) == len(seqs) == 2 and all(seqs) and \
                        len(seqs[0]) == len(seqs[1]) == 3:
                    texts = []
                    for i in range(3):
                        e = expand(v.elt, {tn[0]: ast.Name(id=seqs[0][i],
                                                           ctx=ast.Load()),
                                           tn[1]: ast.Name(id=seqs[1][i],
                                                           ctx=ast.Load())}, 1)
                        texts.append(norm(e))
                    recognisable = True
                    if all(t in w for t, w in zip(texts, want)):
                        ok_order = True
    col.add(rule, fn, "grid_coords = [xmin/xcs, ymin/ycs, zmin/zcs]", ok_order,
            "" if ok_order else "grid coordinates are not the per-axis "
            "quotients in x, y, z order", undecided=not ok_order
            and not recognisable)


# ---------------------------------------------------------------------
def _table_values(module, name):
    node = module.const(name)
    if isinstance(node, ast.Dict):
        vals = []
        for v in node.values:
            c = const_int(v)
            vals.append(c)
        return vals
    return None


def negative_step_slices(repo, col):
    """A slice whose step may be negative and whose stop is a computed index
    silently wraps when the stop reaches -1; the stop must map to None.
    Slices are looked for in the conversion function and the local helpers
    it calls, written either as subscript slices (np.s_[a:b:c]) or as
    slice(a, b, c) calls."""
    rule = "E-BOUND.neg-step"
    m = repo.module("scripts.slices_to_precomputed")
    top = repo.func("scripts.slices_to_precomputed", "slices_to_raw_chunks")
    inv = _table_values(m, "AXIS_INVERSION_FOR_RAS")
    if inv is None:
        if m.const("AXIS_INVERSION_FOR_RAS") is None:
            raise AnalysisError("anchor vanished: AXIS_INVERSION_FOR_RAS")
        inv = [1, -1]     # a computed table: assume both signs occur
    from .core import helper_closure, resolve_local_call, calls_in
    fns = helper_closure(top, depth=2)
    callers = {}          # helper key -> [(caller fn, call)]
    for f in fns:
        for c in calls_in(f.node):
            h = resolve_local_call(f, c)
            if h is not None and h is not f:
                callers.setdefault(h.key, []).append((f, c))
    defs_of = {f.key: local_defs(f.node) for f in fns}

    def table_derived(f, names, depth=0):
        """True / False / None(unknown): do these names derive from the
        inversion table (whose values include -1)?"""
        defs = defs_of[f.key]
        clos = closure_names(f.node, names, defs)
        for n in clos:
            for d in defs.get(n, []):
                if d.value is not None and \
                        "AXIS_INVERSION_FOR_RAS" in norm(d.value):
                    return True
                # tuple returned by a helper that reads the table
                if d.value is not None:
                    for c in calls_in(d.value):
                        h = resolve_local_call(f, c)
                        if h is not None and "AXIS_INVERSION_FOR_RAS" in \
                                norm(h.node):
                            return True
        params = [p for p in clos if p in f.params]
        if params and depth < 2 and f.key in callers:
            res = False
            for cf, c in callers[f.key]:
                for p in params:
                    idx = f.params.index(p)
                    arg = c.args[idx] if idx < len(c.args) else None
                    for k in c.keywords:
                        if k.arg == p:
                            arg = k.value
                    if arg is None:
                        continue
                    ci = const_int(arg)
                    if ci is not None:
                        if ci < 0:
                            return True
                        continue
                    r = table_derived(cf, names_in(arg), depth + 1)
                    if r:
                        return True
                    if r is None:
                        res = None
            return res
        if params and f is not top:
            return None
        return False

    def may_be_negative(f, step):
        c = const_int(step)
        if c is not None:
            return c < 0
        r = table_derived(f, names_in(step))
        if r:
            return any(v is not None and v < 0 for v in inv)
        return r

    def none_guarded(f, stop, depth=0):
        defs = defs_of[f.key]
        if stop is None:
            return True
        if isinstance(stop, ast.Constant) and stop.value is None:
            return True
        if isinstance(stop, ast.IfExp):
            arms = (stop.body, stop.orelse)
            if any(isinstance(x, ast.Constant) and x.value is None
                   for x in arms):
                return True
        if isinstance(stop, ast.Name) and depth < 3:
            ds = defs.get(stop.id, [])
            vals = [d.value for d in ds if d.value is not None
                    and d.index is None]
            if any(isinstance(v, ast.Constant) and v.value is None
                   for v in vals):
                return True
            if vals and all(none_guarded(f, v, depth + 1) for v in vals):
                return True
            arith = [v for v in vals if not isinstance(v, ast.Name)]
            risky = [v for v in arith if _can_reach_minus_one(v)]
            if risky and all(none_guarded(f, v, depth + 1) for v in risky):
                return True
        return False

    n_sites = 0
    n_unknown = 0
    for f in fns:
        for n in walk_local(f.node):
            lower = upper = step = None
            if isinstance(n, ast.Slice) and n.step is not None:
                upper, step = n.upper, n.step
            elif isinstance(n, ast.Call) and call_name(n) == "slice" and \
                    len(n.args) == 3:
                upper, step = n.args[1], n.args[2]
                if isinstance(upper, ast.Constant) and upper.value is None:
                    upper = None
            else:
                continue
            neg = may_be_negative(f, step)
            if neg is False:
                continue
            if neg is None:
                n_unknown += 1
            n_sites += 1
            if upper is None:
                col.add(rule, f, "[%s]" % norm(n), True,
                        "stop omitted: reaches the first element for either "
                        "sign of the step", node=n, nontrivial=False)
                continue
            ok = none_guarded(f, upper)
            und = not ok and neg is None
            col.add(rule, f, "[%s]" % norm(n), ok or und,
                    "stop is mapped to None when negative" if ok else
                    "step %s can be -1 while stop %s is a computed index: for "
                    "the window that must reach element 0 the stop becomes -1,"
                    " which Python reads as 'last element' (empty window)"
                    % (norm(step), norm(upper)), node=n, undecided=und)
    if n_sites == 0:
        col.add(rule, top, "possibly-negative-step slice", True,
                "no slice with a step that can be negative was recognised in "
                "%s or its helpers" % top.key, undecided=True)


def _can_reach_minus_one(expr):
    """Conservative: an arithmetic expression ending in `- 1` / containing a
    subtraction can evaluate to -1."""
    for n in walk_local(expr):
        if isinstance(n, ast.BinOp) and isinstance(n.op, ast.Sub):
            return True
    return False


def reduction_with_initial_guard(repo, col, short="mesh"):
    """`max(indices, initial=K) >= count`: for an empty index array the
    reduction is K, so the guard compares K with the count - and rejects a
    valid empty mesh (count 0) unless it also requires the array to be
    non-empty."""
    rule = "E-BOUND.strict-index.empty"
    m = repo.module(short)
    n = 0
    from .core import block_always_raises as _bar
    for fn in m.functions.values():
        for st in stmts_of(fn.node):
            if not (isinstance(st, ast.If) and _bar(st.body)):
                continue
            tests = [st.test]
            conj = False
            if isinstance(st.test, ast.BoolOp) and \
                    isinstance(st.test.op, ast.And):
                tests = list(st.test.values)
                conj = any(_is_nonempty_test(v) for v in tests)
            for t in tests:
                if not (isinstance(t, ast.Compare) and len(t.ops) == 1):
                    continue
                for side in (t.left, t.comparators[0]):
                    init = [k for c in ast.walk(side)
                            if isinstance(c, ast.Call)
                            for k in c.keywords if k.arg == "initial"]
                    if not init:
                        continue
                    k0 = const_int(init[0].value)
                    n += 1
                    bad = not conj and k0 is not None and k0 >= 0 and \
                        isinstance(t.ops[0], (ast.GtE, ast.LtE))
                    col.add(rule, fn, norm(t)[:70], not bad, "" if not bad
                            else "for an empty array `%s` is %d, and the "
                            "guard then compares %d with the bound: valid "
                            "data with no elements and a bound of 0 (a mesh "
                            "with no vertices and no triangles) is rejected"
                            % (norm(side)[:50], k0, k0), node=st)
    col.add(rule, m.short + ":module", "%d reductions with initial= in "
            "raising guards" % n, True, "", nontrivial=False)
