"""Round-8 rules: defects that arrive as a by-product of a refactoring.

Each rule fails only on a positively wrong construct (a named expression of
/repo's current source); a shape it does not recognise gives no obligation or
an UNDECIDED one."""
import ast

from .core import (norm, walk_local, call_name, calls_in, kwarg, const_int,
                   helper_closure, resolve_local_call)
from .dataflow import local_defs, names_in


def _tokens(text):
    out = set()
    for part in text.replace(".", "_").split("_"):
        if part:
            out.add(part.lower())
    return out


def _ident_tokens(node):
    """Tokens of every identifier (names, attributes, string keys) in node."""
    out = set()
    for n in ast.walk(node):
        if isinstance(n, ast.Name):
            out |= _tokens(n.id)
        elif isinstance(n, ast.Attribute):
            out |= _tokens(n.attr)
        elif isinstance(n, ast.Constant) and isinstance(n.value, str) and \
                n.value.isidentifier():
            out |= _tokens(n.value)
        elif isinstance(n, ast.arg):
            out |= _tokens(n.arg)
    return out


# ---------------------------------------------------------------------
def float_option_dests(repo):
    """dest names of command-line options declared type=float without a
    default: None means 'not given', and 0.0 is a value the user can give."""
    cache = repo.__dict__.get("_float_dests")
    if cache is not None:
        return cache
    dests = {}
    for m in repo.modules.values():
        for c in ast.walk(m.tree):
            if not (isinstance(c, ast.Call) and
                    isinstance(c.func, ast.Attribute) and
                    c.func.attr == "add_argument" and c.args):
                continue
            t = kwarg(c, "type")
            if not (isinstance(t, ast.Name) and t.id == "float"):
                continue
            d = kwarg(c, "default")
            if d is not None and not (isinstance(d, ast.Constant) and
                                      d.value is None):
                continue
            if kwarg(c, "nargs") is not None:
                continue
            a0 = c.args[0]
            if not (isinstance(a0, ast.Constant) and isinstance(a0.value, str)
                    and a0.value.startswith("--")):
                continue
            dest = kwarg(c, "dest")
            name = dest.value if isinstance(dest, ast.Constant) else \
                a0.value.lstrip("-").replace("-", "_")
            dests.setdefault(name, "%s:%d" % (m.relpath, c.lineno))
    repo.__dict__["_float_dests"] = dests
    return dests


def _terminal_name(e):
    if isinstance(e, ast.Name):
        return e.id
    if isinstance(e, ast.Attribute):
        return e.attr
    if isinstance(e, ast.Subscript) and isinstance(e.slice, ast.Constant) and \
            isinstance(e.slice.value, str):
        return e.slice.value
    if isinstance(e, ast.Call) and isinstance(e.func, ast.Attribute) and \
            e.func.attr == "get" and len(e.args) == 1 and \
            isinstance(e.args[0], ast.Constant) and \
            isinstance(e.args[0].value, str):
        return e.args[0].value
    return None


def _truth_tested(fnode):
    """Expressions whose truth value (not their identity or magnitude)
    decides something in fnode."""
    out = []

    def leaves(e, in_test):
        if isinstance(e, ast.BoolOp):
            if not in_test and isinstance(e.op, ast.Or) and \
                    isinstance(e.values[-1], ast.Constant) and \
                    e.values[-1].value in (0, 0.0) and \
                    not isinstance(e.values[-1].value, bool):
                return      # `x or 0`: a falsy number is replaced by zero
            vals = e.values if in_test else e.values[:-1]
            for v in vals:
                leaves(v, True)
            if not in_test:
                leaves(e.values[-1], False)
        elif isinstance(e, ast.UnaryOp) and isinstance(e.op, ast.Not):
            leaves(e.operand, True)
        elif in_test:
            out.append(e)
    for n in walk_local(fnode):
        if isinstance(n, (ast.If, ast.While, ast.IfExp)):
            leaves(n.test, True)
        elif isinstance(n, ast.Assert):
            leaves(n.test, True)
        elif isinstance(n, ast.comprehension):
            for t in n.ifs:
                leaves(t, True)
        elif isinstance(n, ast.BoolOp):
            leaves(n, False)
        elif isinstance(n, ast.UnaryOp) and isinstance(n.op, ast.Not):
            leaves(n.operand, True)
    seen, uniq = set(), []
    for e in out:
        if id(e) not in seen:
            seen.add(id(e))
            uniq.append(e)
    return uniq


def optional_float_truthiness(repo, col, shorts):
    """An optional float option is 'given' when it is not None.  Testing its
    truth value instead treats the legitimate value 0.0 as 'not given'."""
    rule = "E-OPT.truthiness"
    dests = float_option_dests(repo)
    n = 0
    for ms in shorts:
        try:
            m = repo.module(ms)
        except Exception:
            continue
        for fn in m.functions.values():
            for e in _truth_tested(fn.node):
                nm = _terminal_name(e)
                if nm in dests:
                    n += 1
                    col.add(rule, fn, norm(e)[:70], False,
                            "`%s` is the float option --%s (declared at %s, "
                            "default None): its truth value is tested, so the "
                            "value 0 is handled as if the option had not been "
                            "given" % (norm(e)[:40], nm.replace("_", "-"),
                                       dests[nm]), node=e)
    col.add(rule, "package", "%d float options without default; %d tested by "
            "truth value" % (len(dests), n), True, ", ".join(sorted(dests)),
            nontrivial=False)


# ---------------------------------------------------------------------
def sibling_role_tokens(repo, col, shorts):
    """Methods of one class whose names differ in exactly one word
    (data_decoder / index_decoder, data_encoder / index_encoder) are the
    per-role instances of one operation: each reads the state named after its
    own role.  The role pair is taken from the class itself: it needs two
    sibling pairs that differ in the same two words, and all but one of
    their methods reading their own role's state."""
    rule = "E-SIB.role"
    n = 0
    for ms in shorts:
        try:
            m = repo.module(ms)
        except Exception:
            continue
        for cls in m.classes.values():
            meths = {k: v for k, v in cls.methods.items()
                     if not k.startswith("__")}
            names = sorted(meths)
            groups = {}     # (role a, role b) -> [(fa, fb)]
            for i, a in enumerate(names):
                ta = a.strip("_").split("_")
                for b in names[i + 1:]:
                    tb = b.strip("_").split("_")
                    if len(ta) != len(tb) or len(ta) < 2:
                        continue
                    diff = [k for k in range(len(ta)) if ta[k] != tb[k]]
                    if len(diff) != 1:
                        continue
                    groups.setdefault((ta[diff[0]].lower(),
                                       tb[diff[0]].lower()), []).append(
                        (meths[a], meths[b]))

            def body_tokens(f):
                out = set()
                for st in f.node.body:
                    out |= _ident_tokens(st)
                return out
            for (ra, rb), pairs in groups.items():
                if len(pairs) < 2:
                    continue
                verdicts = []
                for fa, fb in pairs:
                    for f, own, other in ((fa, ra, rb), (fb, rb, ra)):
                        toks = body_tokens(f)
                        if own in toks and other not in toks:
                            verdicts.append((f, "own", own, other))
                        elif other in toks and own not in toks:
                            verdicts.append((f, "crossed", own, other))
                        else:
                            verdicts.append((f, "none", own, other))
                good = [v for v in verdicts if v[1] == "own"]
                bad = [v for v in verdicts if v[1] == "crossed"]
                # the convention holds for the class when all but (at most)
                # one method follow it
                if len(good) < len(verdicts) - 1 or len(good) < 3:
                    continue
                for f, kind, own, other in verdicts:
                    n += 1
                    if kind == "crossed":
                        col.add(rule, f, "%s reads `%s` state" %
                                (f.qualname, other), False,
                                "%s is the `%s` instance of the sibling "
                                "methods %s, which each read the state named "
                                "after their own role; this one only refers "
                                "to `%s`-named state: the two roles are "
                                "crossed" % (f.qualname, own, ", ".join(
                                    sorted(v[0].qualname.split(".")[-1]
                                           for v in verdicts)), other),
                                node=f.node)
                    elif kind == "own":
                        col.add(rule, f, "%s reads `%s` state" %
                                (f.qualname, own), True, "", node=f.node)
    return n


# ---------------------------------------------------------------------
def crossed_parallel_assignment(repo, col, shorts):
    """a_x, a_y = f(y), f(x): the targets and the values of a parallel
    assignment name the same roles in different positions."""
    rule = "E-AXIS.parallel-assign"
    n = 0
    for ms in shorts:
        try:
            m = repo.module(ms)
        except Exception:
            continue
        for fn in m.functions.values():
            for st in walk_local(fn.node):
                if not (isinstance(st, ast.Assign) and len(st.targets) == 1
                        and isinstance(st.targets[0], (ast.Tuple, ast.List))
                        and isinstance(st.value, (ast.Tuple, ast.List))
                        and len(st.targets[0].elts) == len(st.value.elts)
                        and len(st.value.elts) >= 2):
                    continue
                tg, vs = st.targets[0].elts, st.value.elts
                if {norm(t) for t in tg} == {norm(v) for v in vs}:
                    continue        # a, b = b, a
                tt = [_ident_tokens(t) for t in tg]
                vt = [_ident_tokens(v) for v in vs]
                ct = set.intersection(*tt)
                cv = set.intersection(*vt)
                tt = [t - ct for t in tt]
                vt = [v - cv for v in vt]
                bad = None
                for i in range(len(tg)):
                    for j in range(i + 1, len(tg)):
                        if tt[i] & vt[j] and tt[j] & vt[i] and \
                                not (tt[i] & vt[i]) and not (tt[j] & vt[j]):
                            bad = (i, j)
                n += 1
                if bad:
                    i, j = bad
                    col.add(rule, fn, norm(st)[:90], False,
                            "target `%s` receives the value built from `%s` "
                            "and target `%s` the one built from `%s`: the two "
                            "positions are crossed"
                            % (norm(tg[i]), "/".join(sorted(tt[i] & vt[j])),
                               norm(tg[j]), "/".join(sorted(tt[j] & vt[i]))),
                            node=st)
            # keyword arguments crossed: f(lo=hi, hi=lo)
            for c in calls_in(fn.node):
                kws = {k.arg: k.value.id for k in c.keywords
                       if k.arg and isinstance(k.value, ast.Name)}
                for k, v in kws.items():
                    if v != k and v in kws and kws[v] == k and k < v:
                        col.add(rule, fn, norm(c)[:90], False,
                                "keyword `%s` receives `%s` and keyword `%s` "
                                "receives `%s`" % (k, v, v, k), node=c)
    col.add(rule, "package", "%d parallel assignments" % n, True, "",
            nontrivial=False)


# ---------------------------------------------------------------------
ONE_SHOT_CALLS = {"map", "filter", "zip", "iter", "reversed", "enumerate",
                  "itertools.chain", "itertools.product", "itertools.islice",
                  "itertools.zip_longest"}


def one_shot_iterator_reuse(repo, col, shorts):
    """A generator bound to a name is exhausted by its first consumer: a use
    inside a loop that does not re-create it sees an empty sequence from the
    second iteration on."""
    rule = "E-ITER.one-shot"
    n = 0
    for ms in shorts:
        try:
            m = repo.module(ms)
        except Exception:
            continue
        for fn in m.functions.values():
            defs = local_defs(fn.node)
            cands = {}
            for name, ds in defs.items():
                real = [d for d in ds if d.kind != "param"]
                if len(real) != 1 or len(real) != len(ds):
                    continue
                d = real[0]
                v = d.value
                if d.kind != "assign" or d.index is not None or v is None:
                    continue
                if isinstance(v, ast.GeneratorExp) or (
                        isinstance(v, ast.Call) and
                        (call_name(v) or "") in ONE_SHOT_CALLS):
                    cands[name] = d
            if not cands:
                continue
            # loops of the function and the statements they contain
            loops = [x for x in walk_local(fn.node)
                     if isinstance(x, (ast.For, ast.While, ast.AsyncFor))]
            comps = [x for x in walk_local(fn.node)
                     if isinstance(x, (ast.ListComp, ast.SetComp,
                                       ast.DictComp, ast.GeneratorExp))]
            for name, d in cands.items():
                n += 1
                defstmt = d.stmt
                uses = [x for x in walk_local(fn.node)
                        if isinstance(x, ast.Name) and x.id == name and
                        isinstance(x.ctx, ast.Load)]
                bad = None
                for lp in loops:
                    inside = set(id(x) for st in lp.body + lp.orelse
                                 for x in ast.walk(st))
                    if id(defstmt) in inside:
                        continue      # re-created on every iteration
                    for u in uses:
                        if id(u) in inside:
                            bad = (u, "the body of the loop at line %d"
                                   % lp.lineno)
                for cp in comps:
                    # used in the element / inner part of a comprehension
                    # (evaluated once per item), not as its outermost iterable
                    inner = set(id(x) for x in ast.walk(cp))
                    inner -= set(id(x) for x in ast.walk(cp.generators[0].iter))
                    if id(d.value) in inner or d.value is cp:
                        continue
                    for u in uses:
                        if id(u) in inner:
                            bad = (u, "a comprehension evaluated once per item")
                if bad:
                    u, where = bad
                    col.add(rule, fn, "%s = %s" % (name, norm(d.value)[:60]),
                            False, "`%s` is a one-shot iterator created once "
                            "at line %d and consumed in %s: every pass after "
                            "the first one sees it empty"
                            % (name, defstmt.lineno, where), node=u)
                else:
                    col.add(rule, fn, "%s = %s" % (name, norm(d.value)[:60]),
                            True, "consumed outside loops", node=d.value,
                            nontrivial=False)
    return n


# ---------------------------------------------------------------------
def empty_array_fully_written(repo, col, shorts):
    """np.empty returns uninitialised memory: an array of literal shape that is
    filled by subscript stores must have every cell stored before it is
    read."""
    rule = "E-INIT.empty"
    for ms in shorts:
        try:
            m = repo.module(ms)
        except Exception:
            continue
        for fn in m.functions.values():
            defs = local_defs(fn.node)
            for name, ds in defs.items():
                real = [d for d in ds if d.kind == "assign" and
                        d.index is None and d.value is not None]
                allocs = [d for d in real if isinstance(d.value, ast.Call) and
                          (call_name(d.value) or "").split(".")[-1] == "empty"
                          and d.value.args]
                if len(allocs) != 1:
                    continue
                shp = allocs[0].value.args[0]
                if isinstance(shp, (ast.Tuple, ast.List)):
                    dims = [const_int(e) for e in shp.elts]
                else:
                    dims = [const_int(shp)]
                if any(x is None for x in dims) or not 1 <= len(dims) <= 2:
                    continue
                total = 1
                for x in dims:
                    total *= x
                if total > 4096 or total == 0:
                    continue
                # handed to other code (out=, argument, method with side
                # effects): not decided here
                handed = False
                for c in calls_in(fn.node):
                    o = kwarg(c, "out")
                    if o is not None and name in names_in(o):
                        handed = True
                    if isinstance(c.func, ast.Attribute) and \
                            isinstance(c.func.value, ast.Name) and \
                            c.func.value.id == name and \
                            c.func.attr in ("fill", "put", "itemset",
                                            "setfield", "sort", "partition"):
                        handed = True
                if handed:
                    continue
                stores = []
                for st in walk_local(fn.node):
                    tg = []
                    if isinstance(st, ast.Assign):
                        tg = st.targets
                    elif isinstance(st, (ast.AugAssign, ast.AnnAssign)):
                        tg = [st.target]
                    for t in tg:
                        if isinstance(t, ast.Subscript) and \
                                isinstance(t.value, ast.Name) and \
                                t.value.id == name:
                            stores.append(t)
                if not stores:
                    continue
                # stores that come before the allocation of another array
                # bound to the same name do not count; with one allocation
                # every store is to this array
                covered = set()
                cells = [()]
                for x in dims:
                    cells = [c + (k,) for c in cells for k in range(x)]

                def slot_set(s, dim):
                    if isinstance(s, ast.Slice):
                        lo = const_int(s.lower) if s.lower is not None else 0
                        hi = const_int(s.upper) if s.upper is not None else dim
                        stp = const_int(s.step) if s.step is not None else 1
                        if None in (lo, hi, stp):
                            return set(range(dim))     # optimistic
                        return set(range(*slice(lo, hi, stp).indices(dim)))
                    k = const_int(s)
                    if k is not None:
                        return {k % dim} if -dim <= k < dim else set()
                    return set(range(dim))             # optimistic
                for t in stores:
                    sl = t.slice
                    slots = list(sl.elts) if isinstance(sl, ast.Tuple) else [sl]
                    if any(isinstance(s, ast.Constant) and s.value is Ellipsis
                           for s in slots):
                        covered = set(cells)
                        break
                    per = []
                    for k, dim in enumerate(dims):
                        per.append(slot_set(slots[k], dim)
                                   if k < len(slots) else set(range(dim)))
                    covered |= {c for c in cells
                                if all(c[k] in per[k] for k in range(len(dims)))}
                missing = [c for c in cells if c not in covered]
                col.add(rule, fn, "%s = %s" % (name, norm(allocs[0].value)[:50]),
                        not missing, "" if not missing else
                        "cells %s of `%s` are never stored (the %d subscript "
                        "stores cover %d of %d cells): the array keeps "
                        "whatever the allocator left there"
                        % (", ".join(str(list(c)) for c in missing[:6]), name,
                           len(stores), len(covered), total),
                        node=allocs[0].value)


# ---------------------------------------------------------------------
def gzip_wrapper_owns_file(repo, col, shorts=("file_accessor",)):
    """gzip.GzipFile(fileobj=f) does not close f: unless f is closed by the
    same code, its buffered bytes are written by the garbage collector, where
    a write error is discarded."""
    rule = "E-RES.gzip-fileobj"
    n = 0
    for ms in shorts:
        try:
            m = repo.module(ms)
        except Exception:
            continue
        for fn in m.functions.values():
            defs = local_defs(fn.node)
            for c in calls_in(fn.node):
                if (call_name(c) or "").split(".")[-1] != "GzipFile":
                    continue
                fo = kwarg(c, "fileobj")
                if fo is None and len(c.args) >= 4:
                    fo = c.args[3]
                if fo is None:
                    continue
                n += 1
                mode = kwarg(c, "mode") or (c.args[1] if len(c.args) > 1
                                            else None)
                opened_here = False
                nm = None
                if isinstance(fo, ast.Call):
                    opened_here = True
                elif isinstance(fo, ast.Name):
                    nm = fo.id
                    for d in defs.get(nm, []):
                        if isinstance(d.value, ast.Call) and \
                                (call_name(d.value) or "").split(".")[-1] in (
                                    "open", "fdopen"):
                            opened_here = d.kind != "with"
                closed = False
                if nm:
                    for x in walk_local(fn.node):
                        if isinstance(x, ast.Call) and \
                                isinstance(x.func, ast.Attribute) and \
                                x.func.attr == "close" and \
                                isinstance(x.func.value, ast.Name) and \
                                x.func.value.id == nm:
                            closed = True
                        if isinstance(x, ast.withitem) and \
                                isinstance(x.context_expr, ast.Name) and \
                                x.context_expr.id == nm:
                            closed = True
                if opened_here and not closed:
                    col.add(rule, fn, norm(c)[:80], False,
                            "the file object handed to GzipFile(fileobj=...) "
                            "is opened here and never closed: closing the "
                            "GzipFile leaves it open, its last buffer is "
                            "flushed by the garbage collector and an error of "
                            "that write (disk full) is swallowed", node=c)
                else:
                    col.add(rule, fn, norm(c)[:80], True,
                            "underlying file closed by this function or "
                            "owned by the caller", node=c,
                            undecided=not closed)
    col.add(rule, "package", "%d GzipFile(fileobj=) wrappers" % n, True, "",
            nontrivial=False)


# ---------------------------------------------------------------------
def convert_all_chunk_sizes(repo, col):
    """convert-chunks: the destination info may list several chunk sizes per
    scale and every one of them is a set of chunks to write."""
    rule = "E-TILE.all-chunk-sizes"
    fn = repo.func("scripts.convert_chunks", "convert_chunks_for_scale")
    fns = [fn] + [h for h in helper_closure(fn, 3)]
    looped, const_idx = None, None
    for f in fns:
        for x in walk_local(f.node):
            if isinstance(x, (ast.For, ast.comprehension)):
                it = x.iter
                if isinstance(it, ast.Call) and it.args and \
                        (call_name(it) or "") in ("tqdm", "enumerate", "list",
                                                  "tuple", "sorted"):
                    it = it.args[0]
                if isinstance(it, ast.Subscript) and \
                        isinstance(it.slice, ast.Constant) and \
                        it.slice.value == "chunk_sizes":
                    looped = (f, x)
            if isinstance(x, ast.Subscript) and const_int(x.slice) is not None \
                    and isinstance(x.value, ast.Subscript) and \
                    isinstance(x.value.slice, ast.Constant) and \
                    x.value.slice.value == "chunk_sizes":
                const_idx = (f, x)
    if looped:
        col.add(rule, looped[0], "for ... in [...]['chunk_sizes']", True,
                "every chunk size of the scale is converted", node=looped[1]
                if isinstance(looped[1], ast.For) else None)
    elif const_idx:
        f, x = const_idx
        col.add(rule, f, norm(x)[:70], False,
                "convert_chunks_for_scale (through %s) uses only element %d "
                "of the scale's chunk_sizes and never iterates over the list: "
                "the chunks of the other sizes are not written and the "
                "command still succeeds" % (f.qualname, const_int(x.slice)),
                node=x)
    else:
        col.add(rule, fn, "chunk_sizes", True, "no loop over and no constant "
                "index into chunk_sizes recognised", undecided=True)


# ---------------------------------------------------------------------
def lowercase_hex_names(repo, col, shorts=("sharded_base",
                                           "sharded_file_accessor",
                                           "sharded_http_accessor")):
    """Shard file names are the shard number in lower-case hexadecimal."""
    rule = "E-SPEC.sharded.hex-case"
    n = 0
    for ms in shorts:
        try:
            m = repo.module(ms)
        except Exception:
            continue
        for fn in m.functions.values():
            in_msg = set()
            for x in walk_local(fn.node):
                if isinstance(x, ast.Raise) or (
                        isinstance(x, ast.Call) and
                        (call_name(x) or "").split(".")[0] in (
                            "logger", "logging", "print", "warnings")):
                    in_msg |= {id(y) for y in ast.walk(x)}
            for x in walk_local(fn.node):
                if id(x) in in_msg:
                    continue
                spec = None
                if isinstance(x, ast.FormattedValue) and x.format_spec:
                    parts = [v.value for v in x.format_spec.values
                             if isinstance(v, ast.Constant)]
                    spec = "".join(str(p) for p in parts)
                elif isinstance(x, ast.Call) and call_name(x) == "format" and \
                        len(x.args) == 2 and isinstance(x.args[1], ast.JoinedStr):
                    spec = "".join(str(v.value) for v in x.args[1].values
                                   if isinstance(v, ast.Constant))
                elif isinstance(x, ast.Call) and call_name(x) == "format" and \
                        len(x.args) == 2 and isinstance(x.args[1], ast.Constant):
                    spec = str(x.args[1].value)
                elif isinstance(x, ast.Constant) and isinstance(x.value, str) \
                        and ("{" in x.value and "X}" in x.value):
                    spec = "X"
                elif isinstance(x, ast.BinOp) and isinstance(x.op, ast.Mod) and \
                        isinstance(x.left, ast.Constant) and \
                        isinstance(x.left.value, str) and "X" in x.left.value \
                        and "%" in x.left.value:
                    spec = "X"
                if spec is not None and spec.endswith(("x", "X")):
                    n += 1
                    ok = spec.endswith("x")
                    col.add(rule, fn, norm(x)[:70], ok, "" if ok else
                            "hexadecimal conversion `%s` is upper-case: shard "
                            "numbers with a digit a-f give a file name other "
                            "readers do not look for" % spec, node=x)
                if isinstance(x, ast.Call) and \
                        isinstance(x.func, ast.Attribute) and \
                        x.func.attr == "upper" and \
                        any(isinstance(y, ast.Call) and call_name(y) == "hex"
                            for y in ast.walk(x.func.value)):
                    n += 1
                    col.add(rule, fn, norm(x)[:70], False,
                            "hex(...).upper(): upper-case shard number",
                            node=x)
    return n


# ---------------------------------------------------------------------
def decode_ignores_write_options(repo, col):
    """A chunk must decode whatever options the handle was opened with: the
    options that only steer the encoder (jpeg_quality, jpeg_plane) do not
    reach any decode path."""
    rule = "E-ATTR.decode-option"
    ce = repo.module("chunk_encoding")
    for cls in ce.classes.values():
        dec = cls.methods.get("decode")
        init = cls.methods.get("__init__")
        if dec is None or init is None:
            continue
        base = [p for p in init.params if p not in ("self",)]
        # encoder-only options: constructor parameters beyond the three that
        # come from the info file
        from_info = {"data_type", "num_channels", "block_size"}
        opts = [p for p in base if p not in from_info]
        if not opts:
            continue
        attrs = set()
        for st in walk_local(init.node):
            if isinstance(st, ast.Assign):
                for t in st.targets:
                    if isinstance(t, ast.Attribute) and \
                            isinstance(t.value, ast.Name) and \
                            t.value.id == "self" and \
                            names_in(st.value) & set(opts):
                        attrs.add(t.attr)
        used = [x for x in walk_local(dec.node)
                if isinstance(x, ast.Attribute) and
                isinstance(x.value, ast.Name) and x.value.id == "self" and
                x.attr in attrs]
        for x in used:
            # whether the value read changes the outcome (a shape test) or
            # not (an element count that is the same for every setting) is a
            # value-level question
            col.add(rule, dec, "self.%s" % x.attr, True,
                    "%s.decode reads self.%s, an option of the writing handle "
                    "(%s): if the result depends on it, a dataset written "
                    "with one setting is not readable through a handle opened "
                    "with another" % (cls.name, x.attr, ", ".join(opts)),
                    node=x, undecided=True)
        if not used:
            col.add(rule, dec, "encoder options %s" % ", ".join(sorted(attrs)),
                    True, "not read by decode", node=dec.node)


# ---------------------------------------------------------------------
STATUS_CODES = {"ok": 200, "not_found": 404, "server_error": 500,
                "internal_server_error": 500, "bad_request": 400,
                "partial_content": 206, "forbidden": 403, "unauthorized": 401,
                "requested_range_not_satisfiable": 416, "gone": 410,
                "multiple_choices": 300, "too_many_requests": 429}


def resolve_pkg_call(fn, call):
    """Callee of `call` in the package: local helper, or a function imported
    from / addressed through another module of the package."""
    h = resolve_local_call(fn, call)
    if h is not None:
        return h
    m = fn.module
    from .core import dotted, PKG
    nm = dotted(call.func) or ""
    tgt = m.resolve(nm) if nm else None
    if tgt and tgt.startswith(PKG + ".") and "." in tgt:
        modname, fname = tgt.rsplit(".", 1)
        om = m.repo.modules.get(modname)
        if om is not None and fname in om.functions:
            m.repo.consulted.add(modname)
            return om.functions[fname]
    return None


def _status_const(fn, e):
    k = const_int(e)
    if k is not None:
        return k
    if isinstance(e, ast.Attribute) and e.attr in STATUS_CODES:
        return STATUS_CODES[e.attr]
    if isinstance(e, ast.Name):
        v = fn.module.const(e.id)
        if v is not None and v is not e:
            return _status_const(fn, v)
    return None


def probe_raises_for_failures(repo, col, short, qualname,
                              rule="E-EXC.B.http.probe"):
    """An existence probe answers 'absent' only for 404 (and 'present' for a
    success status): every other failure status raises.  The conditions under
    which raise_for_status() is reached are read off the tests around it."""
    from .rules_more3 import _tests_enclosing
    from .core import enclosing_stmt_map
    from .dataflow import holds
    fn = repo.func(short, qualname)
    closure, seen, frontier = [fn], {fn.key}, [fn]
    for _ in range(3):
        nxt = []
        for f in frontier:
            for c in calls_in(f.node):
                h = resolve_pkg_call(f, c)
                if h is not None and h.key not in seen:
                    seen.add(h.key)
                    closure.append(h)
                    nxt.append(h)
        frontier = nxt
    rfs = [(f, c) for f in closure for c in calls_in(f.node)
           if isinstance(c.func, ast.Attribute) and
           c.func.attr == "raise_for_status"]
    text = " ".join(norm(f.node) for f in closure)
    label = "non-200/404 statuses raise"
    if not rfs:
        looks = "status_code" in text or ".ok" in text
        col.add(rule, fn, label, not looks,
                "%s inspects the status of its HEAD request but no path "
                "calls raise_for_status(): a failure status is reported as "
                "'absent'" % fn.qualname if looks else
                "no status inspection recognised", undecided=not looks)
        return
    verdicts = []
    for f, c in rfs:
        owner = enclosing_stmt_map(f.node).get(id(c))
        ctx = _tests_enclosing(f.node, owner) or []
        v = ("ok", "")
        for test, truth in ctx:
            if "status" not in norm(test) and ".ok" not in norm(test):
                continue
            atoms = holds(test, truth)
            if not atoms:
                v = ("und", "condition `%s` not interpreted" % norm(test)[:50])
                continue
            for a in atoms:
                for x, y, op in ((a.left, a.right, a.op),
                                 (a.right, a.left,
                                  {"<": ">", "<=": ">=", ">": "<",
                                   ">=": "<="}.get(a.op, a.op))):
                    if "status" not in norm(x):
                        continue
                    if op in ("!=",):
                        k = _status_const(f, y)
                        if k is None:
                            v = ("und", "status compared with `%s`"
                                 % norm(y)[:30])
                        elif not (k == 404 or 200 <= k < 300):
                            v = ("bad", "status %d never raises" % k)
                    elif op == "not in" and isinstance(
                            y, (ast.Tuple, ast.List, ast.Set)):
                        ks = [_status_const(f, e) for e in y.elts]
                        if any(k is None for k in ks):
                            v = ("und", "status set not constant")
                        elif any(not (k == 404 or 200 <= k < 300)
                                 for k in ks):
                            v = ("bad", "statuses %s never raise" % ks)
                    elif op in (">=", ">"):
                        k = _status_const(f, y)
                        if k is None:
                            v = ("und", "status bound `%s`" % norm(y)[:30])
                        elif k > 400 or (op == ">" and k >= 400):
                            v = ("bad", "raise_for_status() is only reached "
                                 "for status %s %d: client errors such as "
                                 "401, 403 or 410 are not raised" % (op, k))
                    elif op in ("==", "in"):
                        v = ("bad", "raise_for_status() is only reached for "
                             "the listed statuses (%s)" % norm(y)[:30])
                    elif op in ("truthy", "falsy") and ".ok" in norm(x):
                        pass        # `if not r.ok: r.raise_for_status()`
                    else:
                        v = ("und", "condition `%s`" % norm(test)[:50])
        verdicts.append((f, c, v))
    good = [x for x in verdicts if x[2][0] == "ok"]
    bad = [x for x in verdicts if x[2][0] == "bad"]
    if bad and not good:
        f, c, v = bad[0]
        col.add(rule, fn, label, False,
                "%s: %s, so the probe reports them as 'absent' instead of "
                "failing" % (f.qualname, v[1]), node=c)
    elif good:
        col.add(rule, fn, label, True, "raise_for_status() reached for every "
                "status but 404 / success", node=good[0][1])
    else:
        col.add(rule, fn, label, True, verdicts[0][2][1], node=verdicts[0][1],
                undecided=True)


# ---------------------------------------------------------------------
VIEW_ATTRS = {"T", "real", "flat"}
VIEW_CALLS = {"asarray", "asanyarray", "flip", "fliplr", "flipud", "reshape",
              "transpose", "ravel", "view", "moveaxis", "swapaxes", "squeeze",
              "atleast_1d", "atleast_2d", "atleast_3d", "ascontiguousarray",
              "expand_dims", "rollaxis", "broadcast_to"}


def _array_source(e):
    """Name whose array `e` is a view of (or is), else None for a fresh
    array."""
    while True:
        if isinstance(e, ast.Name):
            return e.id
        if isinstance(e, ast.Subscript):
            e = e.value
            continue
        if isinstance(e, ast.Attribute) and e.attr in VIEW_ATTRS:
            e = e.value
            continue
        if isinstance(e, ast.Call):
            nm = (call_name(e) or "").split(".")[-1]
            if nm in VIEW_CALLS:
                if isinstance(e.func, ast.Attribute) and not (
                        isinstance(e.func.value, ast.Name) and
                        e.func.value.id in ("np", "numpy")):
                    e = e.func.value       # method form: a.reshape(...)
                    continue
                if e.args:
                    e = e.args[0]
                    continue
            return None
        return None


def no_inplace_on_arguments(repo, col, short, qualname, params,
                            rule="E-OWN.argument"):
    """The function returns new arrays: no statement stores into (a view of)
    an array it received as an argument."""
    fn = repo.func(short, qualname, inline=True)
    cfg = fn.cfg()
    dom = cfg.dominators()
    n = 0
    for st in stmts_of_local(fn.node):
        targets = []
        if isinstance(st, ast.Assign):
            targets = [t for t in st.targets if isinstance(t, ast.Subscript)]
        elif isinstance(st, ast.AugAssign):
            targets = [st.target]
        for t in targets:
            src = _array_source(t if isinstance(t, ast.Subscript) else t)
            if src is None:
                continue
            # which array does `src` name here?  follow dominating plain
            # assignments backwards
            owner = _reaching_owner(fn, cfg, dom, st, src, params, 0)
            n += 1
            if owner in params:
                col.add(rule, fn, norm(st)[:70], False,
                        "`%s` stores into the array passed as `%s` (no copy "
                        "was made on this path): the caller's data is changed "
                        "as a side effect, and a read-only array raises"
                        % (norm(st)[:50], owner), node=st)
            elif owner is None:
                col.add(rule, fn, norm(st)[:70], True, "in-place on a fresh "
                        "array", node=st)
            else:
                col.add(rule, fn, norm(st)[:70], True,
                        "owner of `%s` not determined" % src, node=st,
                        undecided=True)
    if n == 0:
        col.add(rule, fn, "no in-place stores", True, "", nontrivial=False)


def stmts_of_local(fnode):
    from .core import stmts_of
    return stmts_of(fnode)


def _reaching_owner(fn, cfg, dom, st, name, params, depth):
    """Parameter whose array `name` may designate at statement st; None when
    it is certainly a fresh array; '?' when not determined."""
    if depth > 6:
        return "?"
    sn = cfg.node_of(st)
    if sn is None:
        return "?"
    defs = local_defs(fn.node).get(name, [])
    assigns = [d for d in defs if d.kind in ("assign",) and d.stmt is not st
               and d.value is not None and d.index is None and not d.elem]
    other = [d for d in defs if d not in assigns and d.kind != "param"
             and d.stmt is not st]
    # last assignment that dominates the store
    best = None
    for d in assigns:
        dn = cfg.node_of(d.stmt)
        if dn is None or dn.id not in dom[sn.id] or dn is sn:
            continue
        if best is None or cfg.node_of(best.stmt).id in dom[dn.id]:
            best = d
    non_dominating = [d for d in assigns if d is not best and (
        cfg.node_of(d.stmt) is None or
        cfg.node_of(d.stmt).id not in dom[sn.id])]
    if other:
        return "?"
    if best is None:
        if non_dominating:
            # may still be the argument on the path that skips them
            return name if name in params else "?"
        return name if name in params else "?"
    # assignments between `best` and the store that do not dominate it
    # (conditional rebinding) leave `best` as one possibility: a conditional
    # fresh copy does not protect the other path
    src = _array_source(best.value)
    if src is None:
        # fresh on the dominating path; a later conditional alias?
        for d in non_dominating:
            dn = cfg.node_of(d.stmt)
            if dn is not None and cfg.node_of(best.stmt).id in dom[dn.id]:
                s2 = _array_source(d.value)
                if s2 is not None:
                    o2 = _reaching_owner(fn, cfg, dom, d.stmt, s2, params,
                                         depth + 1)
                    if o2 in params:
                        return o2
        return None
    if src == name:
        return _reaching_owner(fn, cfg, dom, best.stmt, name, params,
                               depth + 1)
    return _reaching_owner(fn, cfg, dom, best.stmt, src, params, depth + 1)
