"""Round-8 rules: defects that arrive as a by-product of a refactoring.

Each rule fails only on a positively wrong construct (a named expression of
/repo's current source); a shape it does not recognise gives no obligation or
an UNDECIDED one."""
import ast
import re

from .core import (norm, walk_local, call_name, calls_in, kwarg, const_int,
                   helper_closure, resolve_local_call)
from .dataflow import local_defs, names_in


def _tokens(text):
    out = set()
    for part in text.replace(".", "_").split("_"):
        if part:
            out.add(part.lower())
    return out


def _ident_tokens(node):
    """Tokens of every identifier (names, attributes, string keys) in node."""
    out = set()
    for n in ast.walk(node):
        if isinstance(n, ast.Name):
            out |= _tokens(n.id)
        elif isinstance(n, ast.Attribute):
            out |= _tokens(n.attr)
        elif isinstance(n, ast.Constant) and isinstance(n.value, str) and \
                n.value.isidentifier():
            out |= _tokens(n.value)
        elif isinstance(n, ast.arg):
            out |= _tokens(n.arg)
    return out


# ---------------------------------------------------------------------
def float_option_dests(repo):
    """dest names of command-line options declared type=float without a
    default: None means 'not given', and 0.0 is a value the user can give."""
    cache = repo.__dict__.get("_float_dests")
    if cache is not None:
        return cache
    dests = {}
    for m in repo.modules.values():
        for c in ast.walk(m.tree):
            if not (isinstance(c, ast.Call) and
                    isinstance(c.func, ast.Attribute) and
                    c.func.attr == "add_argument" and c.args):
                continue
            t = kwarg(c, "type")
            if not (isinstance(t, ast.Name) and t.id == "float"):
                continue
            d = kwarg(c, "default")
            if d is not None and not (isinstance(d, ast.Constant) and
                                      d.value is None):
                continue
            if kwarg(c, "nargs") is not None:
                continue
            a0 = c.args[0]
            if not (isinstance(a0, ast.Constant) and isinstance(a0.value, str)
                    and a0.value.startswith("--")):
                continue
            dest = kwarg(c, "dest")
            name = dest.value if isinstance(dest, ast.Constant) else \
                a0.value.lstrip("-").replace("-", "_")
            dests.setdefault(name, "%s:%d" % (m.relpath, c.lineno))
    repo.__dict__["_float_dests"] = dests
    return dests


def _terminal_name(e):
    if isinstance(e, ast.Name):
        return e.id
    if isinstance(e, ast.Attribute):
        return e.attr
    if isinstance(e, ast.Subscript) and isinstance(e.slice, ast.Constant) and \
            isinstance(e.slice.value, str):
        return e.slice.value
    if isinstance(e, ast.Call) and isinstance(e.func, ast.Attribute) and \
            e.func.attr == "get" and len(e.args) == 1 and \
            isinstance(e.args[0], ast.Constant) and \
            isinstance(e.args[0].value, str):
        return e.args[0].value
    return None


def _truth_tested(fnode):
    """Expressions whose truth value (not their identity or magnitude)
    decides something in fnode."""
    out = []

    def leaves(e, in_test):
        if isinstance(e, ast.BoolOp):
            if not in_test and isinstance(e.op, ast.Or) and \
                    isinstance(e.values[-1], ast.Constant) and \
                    e.values[-1].value in (0, 0.0) and \
                    not isinstance(e.values[-1].value, bool):
                return      # `x or 0`: a falsy number is replaced by zero
            vals = e.values if in_test else e.values[:-1]
            for v in vals:
                leaves(v, True)
            if not in_test:
                leaves(e.values[-1], False)
        elif isinstance(e, ast.UnaryOp) and isinstance(e.op, ast.Not):
            leaves(e.operand, True)
        elif in_test:
            out.append(e)
    for n in walk_local(fnode):
        if isinstance(n, (ast.If, ast.While, ast.IfExp)):
            leaves(n.test, True)
        elif isinstance(n, ast.Assert):
            leaves(n.test, True)
        elif isinstance(n, ast.comprehension):
            for t in n.ifs:
                leaves(t, True)
        elif isinstance(n, ast.BoolOp):
            leaves(n, False)
        elif isinstance(n, ast.UnaryOp) and isinstance(n.op, ast.Not):
            leaves(n.operand, True)
        elif isinstance(n, ast.Call) and isinstance(n.func, ast.Name) and \
                n.func.id == "bool" and len(n.args) == 1:
            leaves(n.args[0], True)
    seen, uniq = set(), []
    for e in out:
        if id(e) not in seen:
            seen.add(id(e))
            uniq.append(e)
    return uniq


def optional_float_truthiness(repo, col, shorts):
    """An optional float option is 'given' when it is not None.  Testing its
    truth value instead treats the legitimate value 0.0 as 'not given'."""
    rule = "E-OPT.truthiness"
    dests = float_option_dests(repo)
    n = 0
    for ms in shorts:
        try:
            m = repo.module(ms)
        except Exception:
            continue
        for fn in m.functions.values():
            for e in _truth_tested(fn.node):
                nm = _terminal_name(e)
                if nm in dests:
                    n += 1
                    col.add(rule, fn, norm(e)[:70], False,
                            "`%s` is the float option --%s (declared at %s, "
                            "default None): its truth value is tested, so the "
                            "value 0 is handled as if the option had not been "
                            "given" % (norm(e)[:40], nm.replace("_", "-"),
                                       dests[nm]), node=e)
    col.add(rule, "package", "%d float options without default; %d tested by "
            "truth value" % (len(dests), n), True, ", ".join(sorted(dests)),
            nontrivial=False)


# ---------------------------------------------------------------------
def sibling_role_tokens(repo, col, shorts):
    """Methods of one class whose names differ in exactly one word
    (data_decoder / index_decoder, data_encoder / index_encoder) are the
    per-role instances of one operation: each reads the state named after its
    own role.  The role pair is taken from the class itself: it needs two
    sibling pairs that differ in the same two words, and all but one of
    their methods reading their own role's state."""
    rule = "E-SIB.role"
    n = 0
    for ms in shorts:
        try:
            m = repo.module(ms)
        except Exception:
            continue
        for cls in m.classes.values():
            meths = {k: v for k, v in cls.methods.items()
                     if not k.startswith("__")}
            names = sorted(meths)
            groups = {}     # (role a, role b) -> [(fa, fb)]
            for i, a in enumerate(names):
                ta = a.strip("_").split("_")
                for b in names[i + 1:]:
                    tb = b.strip("_").split("_")
                    if len(ta) != len(tb) or len(ta) < 2:
                        continue
                    diff = [k for k in range(len(ta)) if ta[k] != tb[k]]
                    if len(diff) != 1:
                        continue
                    groups.setdefault((ta[diff[0]].lower(),
                                       tb[diff[0]].lower()), []).append(
                        (meths[a], meths[b]))

            def body_tokens(f):
                out = set()
                for st in f.node.body:
                    out |= _ident_tokens(st)
                return out
            for (ra, rb), pairs in groups.items():
                if len(pairs) < 2:
                    continue
                verdicts = []
                for fa, fb in pairs:
                    for f, own, other in ((fa, ra, rb), (fb, rb, ra)):
                        toks = body_tokens(f)
                        if own in toks and other not in toks:
                            verdicts.append((f, "own", own, other))
                        elif other in toks and own not in toks:
                            verdicts.append((f, "crossed", own, other))
                        else:
                            verdicts.append((f, "none", own, other))
                good = [v for v in verdicts if v[1] == "own"]
                bad = [v for v in verdicts if v[1] == "crossed"]
                # the convention holds for the class when all but (at most)
                # one method follow it
                if len(good) < len(verdicts) - 1 or len(good) < 3:
                    continue
                for f, kind, own, other in verdicts:
                    n += 1
                    if kind == "crossed":
                        col.add(rule, f, "%s reads `%s` state" %
                                (f.qualname, other), False,
                                "%s is the `%s` instance of the sibling "
                                "methods %s, which each read the state named "
                                "after their own role; this one only refers "
                                "to `%s`-named state: the two roles are "
                                "crossed" % (f.qualname, own, ", ".join(
                                    sorted(v[0].qualname.split(".")[-1]
                                           for v in verdicts)), other),
                                node=f.node)
                    elif kind == "own":
                        col.add(rule, f, "%s reads `%s` state" %
                                (f.qualname, own), True, "", node=f.node)
    return n


# ---------------------------------------------------------------------
def crossed_parallel_assignment(repo, col, shorts):
    """a_x, a_y = f(y), f(x): the targets and the values of a parallel
    assignment name the same roles in different positions."""
    rule = "E-AXIS.parallel-assign"
    n = 0
    for ms in shorts:
        try:
            m = repo.module(ms)
        except Exception:
            continue
        for fn in m.functions.values():
            for st in walk_local(fn.node):
                if not (isinstance(st, ast.Assign) and len(st.targets) == 1
                        and isinstance(st.targets[0], (ast.Tuple, ast.List))
                        and isinstance(st.value, (ast.Tuple, ast.List))
                        and len(st.targets[0].elts) == len(st.value.elts)
                        and len(st.value.elts) >= 2):
                    continue
                tg, vs = st.targets[0].elts, st.value.elts
                if {norm(t) for t in tg} == {norm(v) for v in vs}:
                    continue        # a, b = b, a
                tt = [_ident_tokens(t) for t in tg]
                vt = [_ident_tokens(v) for v in vs]
                ct = set.intersection(*tt)
                cv = set.intersection(*vt)
                tt = [t - ct for t in tt]
                vt = [v - cv for v in vt]
                bad = None
                for i in range(len(tg)):
                    for j in range(i + 1, len(tg)):
                        if tt[i] & vt[j] and tt[j] & vt[i] and \
                                not (tt[i] & vt[i]) and not (tt[j] & vt[j]):
                            bad = (i, j)
                n += 1
                if bad:
                    i, j = bad
                    col.add(rule, fn, norm(st)[:90], False,
                            "target `%s` receives the value built from `%s` "
                            "and target `%s` the one built from `%s`: the two "
                            "positions are crossed"
                            % (norm(tg[i]), "/".join(sorted(tt[i] & vt[j])),
                               norm(tg[j]), "/".join(sorted(tt[j] & vt[i]))),
                            node=st)
            # keyword arguments crossed: f(lo=hi, hi=lo)
            for c in calls_in(fn.node):
                kws = {k.arg: k.value.id for k in c.keywords
                       if k.arg and isinstance(k.value, ast.Name)}
                for k, v in kws.items():
                    if v != k and v in kws and kws[v] == k and k < v:
                        col.add(rule, fn, norm(c)[:90], False,
                                "keyword `%s` receives `%s` and keyword `%s` "
                                "receives `%s`" % (k, v, v, k), node=c)
    col.add(rule, "package", "%d parallel assignments" % n, True, "",
            nontrivial=False)


# ---------------------------------------------------------------------
ONE_SHOT_CALLS = {"map", "filter", "zip", "iter", "reversed", "enumerate",
                  "itertools.chain", "itertools.product", "itertools.islice",
                  "itertools.zip_longest"}


def one_shot_iterator_reuse(repo, col, shorts):
    """A generator bound to a name is exhausted by its first consumer: a use
    inside a loop that does not re-create it sees an empty sequence from the
    second iteration on."""
    rule = "E-ITER.one-shot"
    n = 0
    for ms in shorts:
        try:
            m = repo.module(ms)
        except Exception:
            continue
        for fn in m.functions.values():
            defs = local_defs(fn.node)
            cands = {}
            for name, ds in defs.items():
                real = [d for d in ds if d.kind != "param"]
                if len(real) != 1 or len(real) != len(ds):
                    continue
                d = real[0]
                v = d.value
                if d.kind != "assign" or d.index is not None or v is None:
                    continue
                if isinstance(v, ast.GeneratorExp) or (
                        isinstance(v, ast.Call) and
                        (call_name(v) or "") in ONE_SHOT_CALLS):
                    cands[name] = d
            if not cands:
                continue
            # loops of the function and the statements they contain
            loops = [x for x in walk_local(fn.node)
                     if isinstance(x, (ast.For, ast.While, ast.AsyncFor))]
            comps = [x for x in walk_local(fn.node)
                     if isinstance(x, (ast.ListComp, ast.SetComp,
                                       ast.DictComp, ast.GeneratorExp))]
            for name, d in cands.items():
                n += 1
                defstmt = d.stmt
                uses = [x for x in walk_local(fn.node)
                        if isinstance(x, ast.Name) and x.id == name and
                        isinstance(x.ctx, ast.Load)]
                bad = None
                for lp in loops:
                    inside = set(id(x) for st in lp.body + lp.orelse
                                 for x in ast.walk(st))
                    if id(defstmt) in inside:
                        continue      # re-created on every iteration
                    for u in uses:
                        if id(u) in inside:
                            bad = (u, "the body of the loop at line %d"
                                   % lp.lineno)
                for cp in comps:
                    # used in the element / inner part of a comprehension
                    # (evaluated once per item), not as its outermost iterable
                    inner = set(id(x) for x in ast.walk(cp))
                    inner -= set(id(x) for x in ast.walk(cp.generators[0].iter))
                    if id(d.value) in inner or d.value is cp:
                        continue
                    for u in uses:
                        if id(u) in inner:
                            bad = (u, "a comprehension evaluated once per item")
                if bad:
                    u, where = bad
                    col.add(rule, fn, "%s = %s" % (name, norm(d.value)[:60]),
                            False, "`%s` is a one-shot iterator created once "
                            "at line %d and consumed in %s: every pass after "
                            "the first one sees it empty"
                            % (name, defstmt.lineno, where), node=u)
                else:
                    col.add(rule, fn, "%s = %s" % (name, norm(d.value)[:60]),
                            True, "consumed outside loops", node=d.value,
                            nontrivial=False)
    return n


# ---------------------------------------------------------------------
def empty_array_fully_written(repo, col, shorts):
    """np.empty returns uninitialised memory: an array of literal shape that is
    filled by subscript stores must have every cell stored before it is
    read."""
    rule = "E-INIT.empty"
    for ms in shorts:
        try:
            m = repo.module(ms)
        except Exception:
            continue
        for fn in m.functions.values():
            defs = local_defs(fn.node)
            for name, ds in defs.items():
                real = [d for d in ds if d.kind == "assign" and
                        d.index is None and d.value is not None]
                allocs = [d for d in real if isinstance(d.value, ast.Call) and
                          (call_name(d.value) or "").split(".")[-1] == "empty"
                          and d.value.args]
                if len(allocs) != 1:
                    continue
                shp = allocs[0].value.args[0]
                if isinstance(shp, (ast.Tuple, ast.List)):
                    dims = [const_int(e) for e in shp.elts]
                else:
                    dims = [const_int(shp)]
                if any(x is None for x in dims) or not 1 <= len(dims) <= 2:
                    continue
                total = 1
                for x in dims:
                    total *= x
                if total > 4096 or total == 0:
                    continue
                # handed to other code (out=, argument, method with side
                # effects): not decided here
                handed = False
                for c in calls_in(fn.node):
                    o = kwarg(c, "out")
                    if o is not None and name in names_in(o):
                        handed = True
                    if isinstance(c.func, ast.Attribute) and \
                            isinstance(c.func.value, ast.Name) and \
                            c.func.value.id == name and \
                            c.func.attr in ("fill", "put", "itemset",
                                            "setfield", "sort", "partition"):
                        handed = True
                if handed:
                    continue
                stores = []
                for st in walk_local(fn.node):
                    tg = []
                    if isinstance(st, ast.Assign):
                        tg = st.targets
                    elif isinstance(st, (ast.AugAssign, ast.AnnAssign)):
                        tg = [st.target]
                    for t in tg:
                        if isinstance(t, ast.Subscript) and \
                                isinstance(t.value, ast.Name) and \
                                t.value.id == name:
                            stores.append(t)
                if not stores:
                    continue
                # stores that come before the allocation of another array
                # bound to the same name do not count; with one allocation
                # every store is to this array
                covered = set()
                cells = [()]
                for x in dims:
                    cells = [c + (k,) for c in cells for k in range(x)]

                def slot_set(s, dim):
                    if isinstance(s, ast.Slice):
                        lo = const_int(s.lower) if s.lower is not None else 0
                        hi = const_int(s.upper) if s.upper is not None else dim
                        stp = const_int(s.step) if s.step is not None else 1
                        if None in (lo, hi, stp):
                            return set(range(dim))     # optimistic
                        return set(range(*slice(lo, hi, stp).indices(dim)))
                    k = const_int(s)
                    if k is not None:
                        return {k % dim} if -dim <= k < dim else set()
                    return set(range(dim))             # optimistic
                for t in stores:
                    sl = t.slice
                    slots = list(sl.elts) if isinstance(sl, ast.Tuple) else [sl]
                    if any(isinstance(s, ast.Constant) and s.value is Ellipsis
                           for s in slots):
                        covered = set(cells)
                        break
                    per = []
                    for k, dim in enumerate(dims):
                        per.append(slot_set(slots[k], dim)
                                   if k < len(slots) else set(range(dim)))
                    covered |= {c for c in cells
                                if all(c[k] in per[k] for k in range(len(dims)))}
                missing = [c for c in cells if c not in covered]
                col.add(rule, fn, "%s = %s" % (name, norm(allocs[0].value)[:50]),
                        not missing, "" if not missing else
                        "cells %s of `%s` are never stored (the %d subscript "
                        "stores cover %d of %d cells): the array keeps "
                        "whatever the allocator left there"
                        % (", ".join(str(list(c)) for c in missing[:6]), name,
                           len(stores), len(covered), total),
                        node=allocs[0].value)


# ---------------------------------------------------------------------
def gzip_wrapper_owns_file(repo, col, shorts=("file_accessor",)):
    """gzip.GzipFile(fileobj=f) does not close f: unless f is closed by the
    same code, its buffered bytes are written by the garbage collector, where
    a write error is discarded."""
    rule = "E-RES.gzip-fileobj"
    n = 0
    for ms in shorts:
        try:
            m = repo.module(ms)
        except Exception:
            continue
        for fn in m.functions.values():
            defs = local_defs(fn.node)
            for c in calls_in(fn.node):
                if (call_name(c) or "").split(".")[-1] != "GzipFile":
                    continue
                fo = kwarg(c, "fileobj")
                if fo is None and len(c.args) >= 4:
                    fo = c.args[3]
                if fo is None:
                    continue
                n += 1
                mode = kwarg(c, "mode") or (c.args[1] if len(c.args) > 1
                                            else None)
                opened_here = False
                closed_by_with = False
                nm = None
                if isinstance(fo, ast.Call):
                    opened_here = True
                elif isinstance(fo, ast.Name):
                    nm = fo.id
                    from .core import opens_file
                    for d in defs.get(nm, []):
                        if isinstance(d.value, ast.Call) and \
                                opens_file(fn, d.value):
                            opened_here = d.kind != "with"
                            if d.kind == "with":
                                closed_by_with = True
                closed = False
                if nm:
                    for x in walk_local(fn.node):
                        if isinstance(x, ast.Call) and \
                                isinstance(x.func, ast.Attribute) and \
                                x.func.attr == "close" and \
                                isinstance(x.func.value, ast.Name) and \
                                x.func.value.id == nm:
                            closed = True
                        if isinstance(x, ast.withitem) and \
                                isinstance(x.context_expr, ast.Name) and \
                                x.context_expr.id == nm:
                            closed = True
                if opened_here and not closed:
                    col.add(rule, fn, norm(c)[:80], False,
                            "the file object handed to GzipFile(fileobj=...) "
                            "is opened here and never closed: closing the "
                            "GzipFile leaves it open, its last buffer is "
                            "flushed by the garbage collector and an error of "
                            "that write (disk full) is swallowed", node=c)
                else:
                    col.add(rule, fn, norm(c)[:80], True,
                            "underlying file closed by this function or "
                            "owned by the caller", node=c,
                            undecided=not closed and not closed_by_with)
    col.add(rule, "package", "%d GzipFile(fileobj=) wrappers" % n, True, "",
            nontrivial=False)


# ---------------------------------------------------------------------
def convert_all_chunk_sizes(repo, col):
    """convert-chunks: the destination info may list several chunk sizes per
    scale and every one of them is a set of chunks to write."""
    rule = "E-TILE.all-chunk-sizes"
    fn = repo.func("scripts.convert_chunks", "convert_chunks_for_scale")
    fns = [fn] + [h for h in helper_closure(fn, 3)]
    looped, const_idx = None, None
    for f in fns:
        for x in walk_local(f.node):
            if isinstance(x, (ast.For, ast.comprehension)):
                it = x.iter
                if isinstance(it, ast.Call) and it.args and \
                        (call_name(it) or "") in ("tqdm", "enumerate", "list",
                                                  "tuple", "sorted"):
                    it = it.args[0]
                if isinstance(it, ast.Subscript) and \
                        isinstance(it.slice, ast.Constant) and \
                        it.slice.value == "chunk_sizes":
                    looped = (f, x)
            if isinstance(x, ast.Subscript) and const_int(x.slice) is not None \
                    and isinstance(x.value, ast.Subscript) and \
                    isinstance(x.value.slice, ast.Constant) and \
                    x.value.slice.value == "chunk_sizes":
                const_idx = (f, x)
    if looped and looped[0].key != fn.key:
        # the loop builds a list in a helper: a caller that takes one
        # constant element of that list converts one chunk size only
        holders = {looped[0].key}
        for _ in range(3):
            for f in fns:
                if f.key not in holders and any(
                        (resolve_local_call(f, c) is not None and
                         resolve_local_call(f, c).key in holders) or
                        (resolve_pkg_call(f, c) is not None and
                         resolve_pkg_call(f, c).key in holders)
                        for c in calls_in(f.node)):
                    # f hands the list on only if it returns the call itself
                    if any(isinstance(r_, ast.Return) and
                           isinstance(r_.value, ast.Call) and
                           ((resolve_local_call(f, r_.value) or
                             resolve_pkg_call(f, r_.value)) is not None) and
                           (resolve_local_call(f, r_.value) or
                            resolve_pkg_call(f, r_.value)).key in holders
                           for r_ in ast.walk(f.node)):
                        holders.add(f.key)
        for f in fns:
            for x in walk_local(f.node):
                if isinstance(x, ast.Subscript) and \
                        const_int(x.slice) is not None and \
                        isinstance(x.value, ast.Call):
                    h_ = resolve_local_call(f, x.value) or \
                        resolve_pkg_call(f, x.value)
                    if h_ is not None and h_.key in holders:
                        const_idx, looped = (f, x), None
    if looped:
        col.add(rule, looped[0], "for ... in [...]['chunk_sizes']", True,
                "every chunk size of the scale is converted", node=looped[1]
                if isinstance(looped[1], ast.For) else None)
    elif const_idx:
        f, x = const_idx
        col.add(rule, f, norm(x)[:70], False,
                "convert_chunks_for_scale (through %s) uses only element %d "
                "of the scale's chunk_sizes and never iterates over the list: "
                "the chunks of the other sizes are not written and the "
                "command still succeeds" % (f.qualname, const_int(x.slice)),
                node=x)
    else:
        col.add(rule, fn, "chunk_sizes", True, "no loop over and no constant "
                "index into chunk_sizes recognised", undecided=True)


# ---------------------------------------------------------------------
def lowercase_hex_names(repo, col, shorts=("sharded_base",
                                           "sharded_file_accessor",
                                           "sharded_http_accessor")):
    """Shard file names are the shard number in lower-case hexadecimal."""
    rule = "E-SPEC.sharded.hex-case"
    n = 0
    for ms in shorts:
        try:
            m = repo.module(ms)
        except Exception:
            continue
        for fn in m.functions.values():
            in_msg = set()
            for x in walk_local(fn.node):
                if isinstance(x, ast.Raise) or (
                        isinstance(x, ast.Call) and
                        (call_name(x) or "").split(".")[0] in (
                            "logger", "logging", "print", "warnings")):
                    in_msg |= {id(y) for y in ast.walk(x)}
            for x in walk_local(fn.node):
                if id(x) in in_msg:
                    continue
                spec = None
                if isinstance(x, ast.FormattedValue) and x.format_spec:
                    parts = [v.value for v in x.format_spec.values
                             if isinstance(v, ast.Constant)]
                    spec = "".join(str(p) for p in parts)
                elif isinstance(x, ast.Call) and call_name(x) == "format" and \
                        len(x.args) == 2 and isinstance(x.args[1], ast.JoinedStr):
                    spec = "".join(str(v.value) for v in x.args[1].values
                                   if isinstance(v, ast.Constant))
                elif isinstance(x, ast.Call) and call_name(x) == "format" and \
                        len(x.args) == 2 and isinstance(x.args[1], ast.Constant):
                    spec = str(x.args[1].value)
                elif isinstance(x, ast.Constant) and isinstance(x.value, str) \
                        and ("{" in x.value and "X}" in x.value):
                    spec = "X"
                elif isinstance(x, ast.BinOp) and isinstance(x.op, ast.Mod) and \
                        isinstance(x.left, ast.Constant) and \
                        isinstance(x.left.value, str) and "X" in x.left.value \
                        and "%" in x.left.value:
                    spec = "X"
                if spec is not None and spec.endswith(("x", "X")):
                    n += 1
                    ok = spec.endswith("x")
                    col.add(rule, fn, norm(x)[:70], ok, "" if ok else
                            "hexadecimal conversion `%s` is upper-case: shard "
                            "numbers with a digit a-f give a file name other "
                            "readers do not look for" % spec, node=x)
                if isinstance(x, ast.Call) and \
                        isinstance(x.func, ast.Attribute) and \
                        x.func.attr == "upper" and \
                        any(isinstance(y, ast.Call) and call_name(y) == "hex"
                            for y in ast.walk(x.func.value)):
                    n += 1
                    col.add(rule, fn, norm(x)[:70], False,
                            "hex(...).upper(): upper-case shard number",
                            node=x)
    return n


# ---------------------------------------------------------------------
def decode_ignores_write_options(repo, col):
    """A chunk must decode whatever options the handle was opened with: the
    options that only steer the encoder (jpeg_quality, jpeg_plane) do not
    reach any decode path."""
    rule = "E-ATTR.decode-option"
    ce = repo.module("chunk_encoding")
    for cls in ce.classes.values():
        dec = cls.methods.get("decode")
        init = cls.methods.get("__init__")
        if dec is None or init is None:
            continue
        base = [p for p in init.params if p not in ("self",)]
        # encoder-only options: constructor parameters beyond the three that
        # come from the info file
        from_info = {"data_type", "num_channels", "block_size"}
        opts = [p for p in base if p not in from_info]
        if not opts:
            continue
        attrs = set()
        for st in walk_local(init.node):
            if isinstance(st, ast.Assign):
                for t in st.targets:
                    if isinstance(t, ast.Attribute) and \
                            isinstance(t.value, ast.Name) and \
                            t.value.id == "self" and \
                            names_in(st.value) & set(opts):
                        attrs.add(t.attr)
        used = [x for x in walk_local(dec.node)
                if isinstance(x, ast.Attribute) and
                isinstance(x.value, ast.Name) and x.value.id == "self" and
                x.attr in attrs]
        for x in used:
            # whether the value read changes the outcome (a shape test) or
            # not (an element count that is the same for every setting) is a
            # value-level question
            col.add(rule, dec, "self.%s" % x.attr, True,
                    "%s.decode reads self.%s, an option of the writing handle "
                    "(%s): if the result depends on it, a dataset written "
                    "with one setting is not readable through a handle opened "
                    "with another" % (cls.name, x.attr, ", ".join(opts)),
                    node=x, undecided=True)
        if not used:
            col.add(rule, dec, "encoder options %s" % ", ".join(sorted(attrs)),
                    True, "not read by decode", node=dec.node)


# ---------------------------------------------------------------------
STATUS_CODES = {"ok": 200, "not_found": 404, "server_error": 500,
                "internal_server_error": 500, "bad_request": 400,
                "partial_content": 206, "forbidden": 403, "unauthorized": 401,
                "requested_range_not_satisfiable": 416, "gone": 410,
                "multiple_choices": 300, "too_many_requests": 429}


def resolve_pkg_call(fn, call):
    """Callee of `call` in the package: local helper, or a function imported
    from / addressed through another module of the package."""
    h = resolve_local_call(fn, call)
    if h is not None:
        return h
    m = fn.module
    from .core import dotted, PKG
    nm = dotted(call.func) or ""
    tgt = m.resolve(nm) if nm else None
    if tgt and tgt.startswith(PKG + ".") and "." in tgt:
        modname, fname = tgt.rsplit(".", 1)
        om = m.repo.modules.get(modname)
        if om is not None and fname in om.functions:
            m.repo.consulted.add(modname)
            return om.functions[fname]
    return None


def _status_const(fn, e):
    k = const_int(e)
    if k is not None:
        return k
    if isinstance(e, ast.Attribute) and e.attr in STATUS_CODES:
        return STATUS_CODES[e.attr]
    if isinstance(e, ast.Name):
        v = fn.module.const(e.id)
        if v is not None and v is not e:
            return _status_const(fn, v)
    return None


def probe_raises_for_failures(repo, col, short, qualname,
                              rule="E-EXC.B.http.probe"):
    """An existence probe answers 'absent' only for 404 (and 'present' for a
    success status): every other failure status raises.  The conditions under
    which raise_for_status() is reached are read off the tests around it."""
    from .rules_more3 import _tests_enclosing
    from .core import enclosing_stmt_map
    from .dataflow import holds
    fn = repo.func(short, qualname)
    closure, seen, frontier = [fn], {fn.key}, [fn]
    for _ in range(3):
        nxt = []
        for f in frontier:
            for c in calls_in(f.node):
                h = resolve_pkg_call(f, c)
                if h is not None and h.key not in seen:
                    seen.add(h.key)
                    closure.append(h)
                    nxt.append(h)
            # methods handed on as values: self._retry(self._probe, url)
            if f.cls is not None:
                for x in ast.walk(f.node):
                    if isinstance(x, ast.Attribute) and \
                            isinstance(x.value, ast.Name) and \
                            x.value.id == "self":
                        for cc in repo.mro(f.cls):
                            h = cc.methods.get(x.attr)
                            if h is not None:
                                if h.key not in seen:
                                    seen.add(h.key)
                                    closure.append(h)
                                    nxt.append(h)
                                break
        frontier = nxt
    rfs = [(f, c) for f in closure for c in calls_in(f.node)
           if isinstance(c.func, ast.Attribute) and
           c.func.attr == "raise_for_status"]
    text = " ".join(norm(f.node) for f in closure)
    label = "non-200/404 statuses raise"
    if not rfs:
        looks = "status_code" in text or ".ok" in text
        col.add(rule, fn, label, not looks,
                "%s inspects the status of its HEAD request but no path "
                "calls raise_for_status(): a failure status is reported as "
                "'absent'" % fn.qualname if looks else
                "no status inspection recognised", undecided=not looks)
        return
    verdicts = []
    for f, c in rfs:
        owner = enclosing_stmt_map(f.node).get(id(c))
        ctx = _tests_enclosing(f.node, owner) or []
        v = ("ok", "")
        for test, truth in ctx:
            if "status" not in norm(test) and ".ok" not in norm(test):
                continue
            atoms = holds(test, truth)
            if not atoms:
                v = ("und", "condition `%s` not interpreted" % norm(test)[:50])
                continue
            for a in atoms:
                for x, y, op in ((a.left, a.right, a.op),
                                 (a.right, a.left,
                                  {"<": ">", "<=": ">=", ">": "<",
                                   ">=": "<="}.get(a.op, a.op))):
                    if "status" not in norm(x):
                        continue
                    if op in ("!=",):
                        k = _status_const(f, y)
                        if k is None:
                            v = ("und", "status compared with `%s`"
                                 % norm(y)[:30])
                        elif not (k == 404 or 200 <= k < 300):
                            v = ("bad", "status %d never raises" % k)
                    elif op == "not in" and isinstance(
                            y, (ast.Tuple, ast.List, ast.Set)):
                        ks = [_status_const(f, e) for e in y.elts]
                        if any(k is None for k in ks):
                            v = ("und", "status set not constant")
                        elif any(not (k == 404 or 200 <= k < 300)
                                 for k in ks):
                            v = ("bad", "statuses %s never raise" % ks)
                    elif op in (">=", ">"):
                        k = _status_const(f, y)
                        if k is None:
                            v = ("und", "status bound `%s`" % norm(y)[:30])
                        elif k > 400 or (op == ">" and k >= 400):
                            v = ("bad", "raise_for_status() is only reached "
                                 "for status %s %d: client errors such as "
                                 "401, 403 or 410 are not raised" % (op, k))
                    elif op in ("==", "in"):
                        v = ("bad", "raise_for_status() is only reached for "
                             "the listed statuses (%s)" % norm(y)[:30])
                    elif op in ("truthy", "falsy") and ".ok" in norm(x):
                        pass        # `if not r.ok: r.raise_for_status()`
                    else:
                        v = ("und", "condition `%s`" % norm(test)[:50])
        verdicts.append((f, c, v))
    good = [x for x in verdicts if x[2][0] == "ok"]
    bad = [x for x in verdicts if x[2][0] == "bad"]
    if bad and not good:
        f, c, v = bad[0]
        col.add(rule, fn, label, False,
                "%s: %s, so the probe reports them as 'absent' instead of "
                "failing" % (f.qualname, v[1]), node=c)
    elif good:
        col.add(rule, fn, label, True, "raise_for_status() reached for every "
                "status but 404 / success", node=good[0][1])
    else:
        col.add(rule, fn, label, True, verdicts[0][2][1], node=verdicts[0][1],
                undecided=True)


# ---------------------------------------------------------------------
VIEW_ATTRS = {"T", "real", "flat"}
VIEW_CALLS = {"asarray", "asanyarray", "flip", "fliplr", "flipud", "reshape",
              "transpose", "ravel", "view", "moveaxis", "swapaxes", "squeeze",
              "atleast_1d", "atleast_2d", "atleast_3d", "ascontiguousarray",
              "expand_dims", "rollaxis", "broadcast_to"}


def _array_source(e):
    """Name whose array `e` is a view of (or is), else None for a fresh
    array."""
    while True:
        if isinstance(e, ast.Name):
            return e.id
        if isinstance(e, ast.Subscript):
            e = e.value
            continue
        if isinstance(e, ast.Attribute) and e.attr in VIEW_ATTRS:
            e = e.value
            continue
        if isinstance(e, ast.Call):
            nm = (call_name(e) or "").split(".")[-1]
            if nm in VIEW_CALLS:
                if isinstance(e.func, ast.Attribute) and not (
                        isinstance(e.func.value, ast.Name) and
                        e.func.value.id in ("np", "numpy")):
                    e = e.func.value       # method form: a.reshape(...)
                    continue
                if e.args:
                    e = e.args[0]
                    continue
            return None
        return None


def no_inplace_on_arguments(repo, col, short, qualname, params,
                            rule="E-OWN.argument"):
    """The function returns new arrays: no statement stores into (a view of)
    an array it received as an argument."""
    fn = repo.func(short, qualname, inline=True)
    cfg = fn.cfg()
    dom = cfg.dominators()
    n = 0
    for st in stmts_of_local(fn.node):
        targets = []
        if isinstance(st, ast.Assign):
            targets = [t for t in st.targets if isinstance(t, ast.Subscript)]
        elif isinstance(st, ast.AugAssign):
            targets = [st.target]
        for t in targets:
            src = _array_source(t if isinstance(t, ast.Subscript) else t)
            if src is None:
                continue
            # which array does `src` name here?  follow dominating plain
            # assignments backwards
            owner = _reaching_owner(fn, cfg, dom, st, src, params, 0)
            n += 1
            if owner in params:
                col.add(rule, fn, norm(st)[:70], False,
                        "`%s` stores into the array passed as `%s` (no copy "
                        "was made on this path): the caller's data is changed "
                        "as a side effect, and a read-only array raises"
                        % (norm(st)[:50], owner), node=st)
            elif owner is None:
                col.add(rule, fn, norm(st)[:70], True, "in-place on a fresh "
                        "array", node=st)
            else:
                col.add(rule, fn, norm(st)[:70], True,
                        "owner of `%s` not determined" % src, node=st,
                        undecided=True)
    if n == 0:
        col.add(rule, fn, "no in-place stores", True, "", nontrivial=False)


def stmts_of_local(fnode):
    from .core import stmts_of
    return stmts_of(fnode)


def _reaching_owner(fn, cfg, dom, st, name, params, depth):
    """Parameter whose array `name` may designate at statement st; None when
    it is certainly a fresh array; '?' when not determined."""
    if depth > 6:
        return "?"
    sn = cfg.node_of(st)
    if sn is None:
        return "?"
    defs = local_defs(fn.node).get(name, [])
    assigns = [d for d in defs if d.kind in ("assign",) and d.stmt is not st
               and d.value is not None and d.index is None and not d.elem]
    other = [d for d in defs if d not in assigns and d.kind != "param"
             and d.stmt is not st]
    # last assignment that dominates the store
    best = None
    for d in assigns:
        dn = cfg.node_of(d.stmt)
        if dn is None or dn.id not in dom[sn.id] or dn is sn:
            continue
        if best is None or cfg.node_of(best.stmt).id in dom[dn.id]:
            best = d
    non_dominating = [d for d in assigns if d is not best and (
        cfg.node_of(d.stmt) is None or
        cfg.node_of(d.stmt).id not in dom[sn.id])]
    if other:
        return "?"
    if best is None:
        if non_dominating:
            # may still be the argument on the path that skips them
            return name if name in params else "?"
        return name if name in params else "?"
    # assignments between `best` and the store that do not dominate it
    # (conditional rebinding) leave `best` as one possibility: a conditional
    # fresh copy does not protect the other path
    src = _array_source(best.value)
    if src is None:
        # fresh on the dominating path; a later conditional alias?
        for d in non_dominating:
            dn = cfg.node_of(d.stmt)
            if dn is not None and cfg.node_of(best.stmt).id in dom[dn.id]:
                s2 = _array_source(d.value)
                if s2 is not None:
                    o2 = _reaching_owner(fn, cfg, dom, d.stmt, s2, params,
                                         depth + 1)
                    if o2 in params:
                        return o2
        return None
    if src == name:
        return _reaching_owner(fn, cfg, dom, best.stmt, name, params,
                               depth + 1)
    return _reaching_owner(fn, cfg, dom, best.stmt, src, params, depth + 1)


# ---------------------------------------------------------------------
def minishard_final_before_use(repo, col):
    """Shard.close: MiniShard.close() flushes the parked chunks and fills the
    gaps, which grows the minishard's data and index.  Their length / content
    is final only afterwards: no statement of Shard.close reads them on a
    path that has not closed the minishards yet."""
    rule = "E-ORDER.minishard-final"
    ms = repo.cls("sharded_file_accessor", "MiniShard")
    # what closing a minishard may still change: attributes written by
    # append (reached from close through flush_buffer)
    grown = set()
    for mname in ("append", "flush_buffer", "close"):
        f = ms.methods.get(mname)
        if f is None:
            continue
        for st in ast.walk(f.node):
            tg = []
            if isinstance(st, ast.Assign):
                tg = st.targets
            elif isinstance(st, ast.AugAssign):
                tg = [st.target]
            for t in tg:
                b = t
                while isinstance(b, ast.Subscript):
                    b = b.value
                if isinstance(b, ast.Attribute) and \
                        isinstance(b.value, ast.Name) and b.value.id == "self":
                    grown.add(b.attr)
    grown -= {"_last_chunk_id", "_appended", "next_cmc"}
    grown = {a for a in grown if not a.startswith("__")}
    # properties of the minishard computed from what still grows
    for c_ in repo.mro(ms):
        for pname, pf in c_.methods.items():
            if any("property" in norm(d) for d in pf.node.decorator_list) and \
                    any(isinstance(x, ast.Attribute) and
                        isinstance(x.value, ast.Name) and x.value.id == "self"
                        and x.attr in grown for x in ast.walk(pf.node)):
                grown.add(pname)
    fn = repo.func("sharded_file_accessor", "Shard.close", inline=True)
    cfg = fn.cfg()
    dom = cfg.dominators()
    from .core import enclosing_stmt_map
    owner = enclosing_stmt_map(fn.node)
    defs = local_defs(fn.node)
    elems = {n for n, ds in defs.items()
             if any(d.kind in ("for", "comp") or d.elem for d in ds)}
    closes = []
    close_loops = []
    for c in calls_in(fn.node):
        if isinstance(c.func, ast.Attribute) and c.func.attr == "close" and \
                isinstance(c.func.value, ast.Name) and \
                c.func.value.id in elems and not c.args:
            n_ = cfg.node_of(owner.get(id(c)))
            if n_ is not None:
                closes.append(n_)
                # the loop that closes every minishard: whatever follows the
                # loop comes after all of them were closed
                for lp in ast.walk(fn.node):
                    if isinstance(lp, ast.For) and any(
                            owner.get(id(c)) is y or any(
                                z is owner.get(id(c)) for z in ast.walk(y))
                            for y in lp.body):
                        ln_ = cfg.node_of(lp)
                        if ln_ is not None:
                            close_loops.append((ln_, {
                                id(z) for y in lp.body for z in ast.walk(y)}))
    if not closes:
        col.add(rule, fn, "minishard.close()", True,
                "no per-minishard close() call recognised in Shard.close",
                undecided=True)
        return
    n = 0
    for x in ast.walk(fn.node):
        if isinstance(x, ast.Attribute) and isinstance(x.ctx, ast.Load) and \
                x.attr in grown and isinstance(x.value, ast.Name) and \
                x.value.id in elems:
            st = owner.get(id(x))
            sn = cfg.node_of(st) if st is not None else None
            if sn is None:
                continue
            n += 1
            ok = any(cn.id in dom[sn.id] for cn in closes) or sn in closes \
                or any(ln_.id in dom[sn.id] and id(st) not in body
                       for ln_, body in close_loops)
            if sn in closes:
                # same statement: close() must come first in it
                ok = True
            col.add(rule, fn, "%s read after close()" % re.sub(r"__h\d+", "", norm(x)), ok,
                    "" if ok else "`%s` is read at line %d on a path where "
                    "no minishard has been closed yet: close() still appends "
                    "the parked chunks and the gap entries, so a length or "
                    "offset taken here is too small for every minishard "
                    "after the first" % (norm(x), getattr(x, "lineno", 0)),
                    node=x)
    # a helper of the shard that looks at the minishards (a generator that
    # filters them, a method that sums their sizes) reads them where it is
    # called
    from .core import resolve_local_call, helper_closure
    for c in calls_in(fn.node):
        h = resolve_local_call(fn, c)
        if h is None or h.key == fn.key:
            continue
        reads = [x for g in helper_closure(h, depth=2)
                 for x in ast.walk(g.node)
                 if isinstance(x, ast.Attribute) and
                 isinstance(x.ctx, ast.Load) and x.attr in grown and
                 isinstance(x.value, ast.Name) and
                 x.value.id not in ("self", "cls")]
        if not reads:
            continue
        st = owner.get(id(c))
        sn = cfg.node_of(st) if st is not None else None
        if sn is None:
            continue
        n += 1
        ok = any(cn.id in dom[sn.id] for cn in closes) or any(
            ln_.id in dom[sn.id] and id(st) not in body
            for ln_, body in close_loops)
        col.add(rule, fn, "%s(): %s read after close()" % (
            h.qualname.split(".")[-1], norm(reads[0])), ok,
            "" if ok else "%s reads `%s` of the minishards and is called at "
            "line %d, where no minishard has been closed yet: close() still "
            "appends the parked chunks and the gap entries, so what it sees "
            "is not final" % (h.qualname, norm(reads[0]),
                              getattr(c, "lineno", 0)), node=c)
    if n == 0:
        col.add(rule, fn, "reads of %s" % ", ".join(sorted(grown)), True,
                "no read of the growing attributes recognised",
                undecided=True)


# ---------------------------------------------------------------------
def _derivations(fn, expr, depth=0, seen=None):
    """Expressions `expr` may evaluate from: local definitions followed
    backwards, and - for a name unpacked from the result of a local helper -
    the helper's return expressions at that position."""
    seen = seen if seen is not None else set()
    out = [expr]
    if depth > 4:
        return out
    defs = local_defs(fn.node)
    for n in ast.walk(expr):
        if not isinstance(n, ast.Name) or (fn.key, n.id) in seen:
            continue
        seen.add((fn.key, n.id))
        for d in defs.get(n.id, []):
            if d.value is None or d.elem:
                continue
            v = d.value
            if isinstance(v, ast.Call):
                h = resolve_local_call(fn, v)
                if h is not None and h is not fn:
                    for r in ast.walk(h.node):
                        if isinstance(r, ast.Return) and r.value is not None:
                            rv = r.value
                            if d.index is not None and isinstance(
                                    rv, (ast.Tuple, ast.List)) and \
                                    d.index < len(rv.elts):
                                rv = rv.elts[d.index]
                            out += _derivations(h, rv, depth + 1, seen)
                    continue
            if d.index is not None and isinstance(v, (ast.Tuple, ast.List)) \
                    and d.index < len(v.elts):
                v = v.elts[d.index]
            out += _derivations(fn, v, depth + 1, seen)
    return out


def legacy_seek_rebased(repo, col):
    """Legacy shards keep the index in <n>.index and everything behind it in
    <n>.data: an offset counted from the start of the shard is reduced by the
    index length before it is used inside the .data file."""
    rule = "E-ORDER.seek-before-read.legacy"
    fn = repo.func("sharded_file_accessor", "Shard.read_bytes")
    closure = helper_closure(fn, 3)
    text = " ".join(norm(f.node) for f in closure)
    legacy = "'.data'" in text
    seeks = [c for f in closure for c in calls_in(f.node)
             if isinstance(c.func, ast.Attribute) and c.func.attr == "seek"
             and c.args]
    own = [c for c in calls_in(fn.node)
           if isinstance(c.func, ast.Attribute) and c.func.attr == "seek"
           and c.args]
    if not legacy or not own:
        col.add(rule, fn, "offset rebased for .data", True,
                "no legacy .data branch / no seek in read_bytes recognised",
                undecided=True)
        return
    for c in own:
        ds = _derivations(fn, c.args[0])
        rebased = any(
            isinstance(x, ast.BinOp) and isinstance(x.op, ast.Sub) and
            "header_byte_length" in norm(x.right) or
            (isinstance(x, ast.AugAssign) and isinstance(x.op, ast.Sub))
            for e in ds for x in ast.walk(e))
        # `offset -= self.header_byte_length` in place
        if not rebased:
            for f in closure:
                for st in ast.walk(f.node):
                    if isinstance(st, ast.AugAssign) and \
                            isinstance(st.op, ast.Sub) and \
                            "header_byte_length" in norm(st.value) and \
                            norm(st.target) in {norm(e) for e in ds}:
                        rebased = True
        col.add(rule, fn, norm(c)[:50], rebased, "" if rebased else
                "the position `%s` that read_bytes seeks to never has the "
                "index length (header_byte_length) subtracted, although the "
                "bytes may come from the legacy .data file: every read there "
                "lands that many bytes too far" % norm(c.args[0])[:40],
                node=c)


# ---------------------------------------------------------------------
def _zero_tests_dominating(f, stmt, names):
    """If-tests (with continue / return / raise bodies, or enclosing the
    statement) in f that mention one of `names` and dominate `stmt`."""
    from .rules_more3 import _tests_enclosing
    cfg = f.cfg()
    dom = cfg.dominators()
    sn = cfg.node_of(stmt)
    out = []
    if sn is None:
        return out
    from .core import stmts_of
    for st in stmts_of(f.node):
        if isinstance(st, ast.If) and names_in(st.test) & names:
            gn = cfg.node_of(st)
            if gn is not None and gn.id in dom[sn.id] and st.body and \
                    isinstance(st.body[-1], (ast.Continue, ast.Return,
                                             ast.Raise, ast.Break)):
                out.append(st)
    for t, _ in (_tests_enclosing(f.node, stmt) or []):
        if names_in(t) & names:
            out.append(t)
    return out


def nonempty_range_before_read(repo, col):
    """An unused minishard has an empty index range.  Asking the byte-range
    reader for zero bytes is harmless on a local file but is the unsatisfiable
    request `Range: bytes=N-(N-1)` over HTTP: the emptiness test comes before
    the read, not after it."""
    rule = "E-PROTO.empty-range"
    from .core import enclosing_stmt_map
    fn = repo.func("sharded_base", "ShardCMC.populate_minishard_dict")
    closure = helper_closure(fn, 3)
    reads = [(f, c) for f in closure for c in calls_in(f.node)
             if isinstance(c.func, ast.Attribute) and
             c.func.attr == "read_bytes" and len(c.args) >= 2 and
             # a fixed length (the shard index itself) is never empty
             (names_in(c.args[1]) - {"self", "cls", "int", "len"})]
    if not reads:
        col.add(rule, fn, "read_bytes(start, length)", True,
                "no byte-range read recognised", undecided=True)
        return

    def guarded(f, stmt, length_expr, depth=0):
        """True / False / None (not traced)."""
        defs = local_defs(f.node)
        names = set(names_in(length_expr))
        from .dataflow import closure_names
        names |= closure_names(f.node, names, defs)
        names -= {"self", "cls", "int", "len", "np", "numpy"}
        if not names:
            return None
        if _zero_tests_dominating(f, stmt, names):
            return True
        if depth > 3:
            return None
        # the length is a parameter: the callers decide
        params = [p for p in f.params if p not in ("self", "cls")]
        pn = [n for n in names_in(length_expr) if n in params]
        if pn:
            res = []
            for g in closure:
                for c in calls_in(g.node):
                    if resolve_local_call(g, c) is not f:
                        continue
                    idx = params.index(pn[0])
                    arg = c.args[idx] if idx < len(c.args) else None
                    for k in c.keywords:
                        if k.arg == pn[0]:
                            arg = k.value
                    if arg is None:
                        res.append(None)
                        continue
                    st = enclosing_stmt_map(g.node).get(id(c))
                    res.append(guarded(g, st, arg, depth + 1))
            if res and all(r is True for r in res):
                return True
            if any(r is False for r in res):
                return False
            return None if not res or any(r is None for r in res) else True
        # the length is the element of a local generator: its yields decide
        for n in names_in(length_expr):
            for d in defs.get(n, []):
                if d.kind == "for" and isinstance(d.value, ast.Call):
                    h = resolve_local_call(f, d.value)
                    if h is None:
                        continue
                    ys = [y for y in ast.walk(h.node)
                          if isinstance(y, ast.Yield) and y.value is not None]
                    if not ys:
                        continue
                    r = []
                    for y in ys:
                        st = enclosing_stmt_map(h.node).get(id(y))
                        v = y.value
                        if d.index is not None and isinstance(
                                v, (ast.Tuple, ast.List)) and \
                                d.index < len(v.elts):
                            v = v.elts[d.index]
                        r.append(guarded(h, st, v, depth + 1))
                    if r and all(x is True for x in r):
                        return True
                    if any(x is False for x in r):
                        return False
                    return None
        # traced down to the raw index entries with no test on the way
        txt = " ".join(norm(d.value) for n in names for d in defs.get(n, [])
                       if d.value is not None) + " " + norm(length_expr)
        if "offsets" in txt or " - " in txt or "end" in names:
            return False
        return None
    for f, c in reads:
        st = enclosing_stmt_map(f.node).get(id(c))
        r = guarded(f, st, c.args[1])
        col.add(rule, f, norm(c)[:60], r is not False,
                "an emptiness test on the length precedes the read" if r
                else ("the byte range `%s` is requested without a preceding "
                      "test that its length is not zero: for an unused "
                      "minishard this is a zero-length read, which an HTTP "
                      "server answers with 416 and the whole shard becomes "
                      "unreadable" % norm(c)[:50] if r is False else
                      "origin of the length not traced"),
                node=c, undecided=r is None)


# ---------------------------------------------------------------------
def pad_after_promotion(repo, col):
    """AveragingDownscaler: the outside value is a float given by the user;
    np.pad casts it to the dtype of the array it pads.  The chunk is therefore
    promoted to the floating-point work type before it is padded."""
    rule = "E-DTYPE.pad-promoted"
    from .core import enclosing_stmt_map
    fn = repo.func("downscaling", "AveragingDownscaler.downscale")
    cfg = fn.cfg()
    dom = cfg.dominators()
    owner = enclosing_stmt_map(fn.node)
    defs = local_defs(fn.node)

    def is_pad(c):
        return (call_name(c) or "").split(".")[-1] == "pad" and (
            any(k.arg is None or k.arg == "constant_values"
                for k in c.keywords) or len(c.args) >= 3)

    def may_pad(f, depth=0):
        for c in calls_in(f.node):
            if is_pad(c):
                return True
            if depth < 3:
                h = resolve_local_call(f, c)
                if h is not None and h is not f and may_pad(h, depth + 1):
                    return True
        return False
    pad_nodes = []
    for c in calls_in(fn.node):
        hit = is_pad(c)
        if not hit:
            h = resolve_local_call(fn, c)
            hit = h is not None and h is not fn and may_pad(h)
        if hit:
            n_ = cfg.node_of(owner.get(id(c)))
            if n_ is not None:
                pad_nodes.append((c, n_))
    promos = []
    from .dataflow import closure_names
    for c in calls_in(fn.node):
        nm = (call_name(c) or "").split(".")[-1]
        d = None
        if nm == "astype" and c.args:
            d = c.args[0]
        elif nm in ("asarray", "array", "asanyarray"):
            d = kwarg(c, "dtype") or (c.args[1] if len(c.args) > 1 else None)
        if d is None:
            continue
        names = names_in(d) | closure_names(fn.node, names_in(d), defs)
        txt = norm(d) + " " + " ".join(
            norm(x.value) for n in names for x in defs.get(n, [])
            if x.value is not None)
        if "promote_types" in txt or "float" in txt:
            n_ = cfg.node_of(owner.get(id(c)))
            if n_ is not None:
                promos.append(n_)
    if not pad_nodes:
        col.add(rule, fn, "np.pad(...)", True, "no padding call recognised",
                undecided=True)
        return
    if not promos:
        col.add(rule, fn, "chunk.astype(work dtype)", True,
                "promotion to the work type not in the recognised form",
                undecided=True)
        return
    for c, n_ in pad_nodes:
        ok = any(p.id in dom[n_.id] for p in promos)
        col.add(rule, fn, norm(c)[:60], ok, "" if ok else
                "`%s` pads the chunk on a path where it still has its input "
                "dtype: np.pad casts the outside value to that dtype (2.5 "
                "becomes 2, -1 wraps for unsigned types) before it is "
                "averaged" % norm(c)[:50], node=c)


# ---------------------------------------------------------------------
def jpeg_pixel_type_checked(repo, col):
    """JPEG decoder: PIL opens any image format it knows; a 16-bit or 1-bit
    single-band image has the right number of pixels and channels but decodes
    to another dtype.  Some test of the decoded pixel type (image mode, array
    dtype, format) or a conversion to 8 bits stands between PIL and the
    returned array."""
    rule = "E-EXC.shape.jpeg-dtype"
    fn = repo.func("_jpeg", "decode_chunk")
    closure = helper_closure(fn, 3)
    evidence = []
    for f in closure:
        for g, atoms in _raise_guards_of(f):
            for x in ast.walk(g.test if hasattr(g, "test") else g):
                if isinstance(x, ast.Attribute) and x.attr in (
                        "mode", "dtype", "format", "bits", "itemsize"):
                    evidence.append((f, g, x.attr))
                if isinstance(x, ast.Call) and (call_name(x) or "").split(
                        ".")[-1] in ("getbands", "can_cast", "issubdtype"):
                    # the *number* of bands says nothing about the pixel
                    # type ("I;16", "1" and "F" images have one band)
                    counted = any(
                        isinstance(y, ast.Call) and call_name(y) == "len"
                        and any(z is x for z in ast.walk(y))
                        for y in ast.walk(g.test if hasattr(g, "test")
                                          else g))
                    if not ((call_name(x) or "").endswith("getbands")
                            and counted):
                        evidence.append((f, g, "call"))
        for c in calls_in(f.node):
            nm = (call_name(c) or "").split(".")[-1]
            if nm == "convert" and c.args:
                evidence.append((f, c, "convert"))
            if nm == "astype" and c.args and "uint8" in norm(c.args[0]):
                evidence.append((f, c, "astype"))
            if nm in ("asarray", "array") and kwarg(c, "dtype") is not None:
                evidence.append((f, c, "dtype="))
    if evidence:
        f, g, what = evidence[0]
        col.add(rule, fn, "pixel type of the decoded image is checked", True,
                "%s tests / fixes the pixel type (%s)" % (f.qualname, what),
                node=g)
    else:
        col.add(rule, fn, "pixel type of the decoded image is checked", False,
                "no raising test in the JPEG decoder looks at the image mode, "
                "the array dtype or the file format, and nothing converts to "
                "8 bits: a 16-bit or 1-bit single-band image of the right "
                "size is returned with another dtype than the requested "
                "uint8 instead of being rejected")


def _raise_guards_of(f):
    from .dataflow import raise_guards
    return raise_guards(f.node)


# ---------------------------------------------------------------------
def round_clip_in_work_dtype(repo, col):
    """Value converter: rounding and clipping operate on an array of the work
    dtype (the promotion of input and output type) - in the input's own dtype
    the clipping bounds are not representable (float32 cannot hold 2**32-1)
    and the result wraps.  Every path to np.rint / np.clip passes a cast of
    their operand to an explicitly given dtype."""
    rule = "E-DTYPE.work-cast"
    from .core import enclosing_stmt_map, stmts_of
    m = repo.module("data_types")
    funcs = list(m.functions.values())

    def is_cast(f, e, depth=0):
        if isinstance(e, ast.IfExp):
            return is_cast(f, e.body, depth) and is_cast(f, e.orelse, depth)
        if not isinstance(e, ast.Call):
            return False
        nm = (call_name(e) or "").split(".")[-1]
        d = None
        if nm == "astype" and e.args:
            d = e.args[0]
        elif nm in ("asarray", "array", "asanyarray", "ascontiguousarray",
                    "require"):
            d = kwarg(e, "dtype") or (e.args[1] if len(e.args) > 1 else None)
        if d is not None:
            t = norm(d)
            return not (t.endswith(".dtype") or "input" in t)
        h = resolve_local_call(f, e)
        if h is not None and h is not f and depth < 3:
            rets = [r.value for r in stmts_of(h.node)
                    if isinstance(r, ast.Return) and r.value is not None]
            hdefs = local_defs(h.node)

            def ret_cast(rv):
                if is_cast(h, rv, depth + 1):
                    return True
                if isinstance(rv, ast.Name):
                    ds = [x for x in hdefs.get(rv.id, []) if x.kind != "param"]
                    pr = [x for x in hdefs.get(rv.id, []) if x.kind == "param"]
                    if ds and not pr:
                        return all(x.value is not None and
                                   is_cast(h, x.value, depth + 1) for x in ds)
                    if ds and pr:
                        # a parameter rebound on some paths only
                        cfg = h.cfg()
                        rn = [cfg.node_of(r) for r in stmts_of(h.node)
                              if isinstance(r, ast.Return) and r.value is rv]
                        casts = [cfg.node_of(x.stmt) for x in ds
                                 if x.value is not None and
                                 is_cast(h, x.value, depth + 1)]
                        casts = [c for c in casts if c is not None]
                        return bool(rn) and rn[0] is not None and \
                            cfg.every_path_passes(cfg.entry, rn[0], casts)
                return False
            return bool(rets) and all(ret_cast(rv) for rv in rets)
        return False

    def callers_of(f):
        out = []
        for g in funcs:
            for c in calls_in(g.node):
                if resolve_local_call(g, c) is f:
                    out.append((g, c))
        return out

    def check(f, stmt, name, depth=0):
        """'ok' | 'raw' | 'und' for operand `name` used at stmt of f."""
        cfg = f.cfg()
        sn = cfg.node_of(stmt)
        if sn is None or depth > 3:
            return "und", None
        defs = local_defs(f.node)
        casts = []
        for d in defs.get(name, []):
            if d.kind == "assign" and d.value is not None and \
                    d.index is None and is_cast(f, d.value):
                n_ = cfg.node_of(d.stmt)
                if n_ is not None:
                    casts.append(n_)
        # a test that the array already has the work dtype is as good as the
        # cast on the arm where it holds
        from .rules_more3 import _tests_enclosing
        from .dataflow import holds
        for t_, tr_ in (_tests_enclosing(f.node, stmt) or []):
            for a_ in holds(t_, tr_):
                if a_.op == "==" and {norm(a_.left), norm(a_.right)} & \
                        {"%s.dtype" % name} and not any(
                            "input" in norm(x_) for x_ in (a_.left, a_.right)):
                    return "ok", None
        if casts and cfg.every_path_passes(cfg.entry, sn, casts):
            return "ok", None
        is_param = any(d.kind == "param" for d in defs.get(name, []))
        if is_param:
            cs = callers_of(f)
            if not cs:
                # the converter itself: its argument is the raw chunk
                path = cfg.path(cfg.entry, sn, avoiding=casts)
                return "raw", path
            res = []
            params = [p for p in f.params if p not in ("self", "cls")]
            idx = params.index(name)
            for g, c in cs:
                arg = c.args[idx] if idx < len(c.args) else None
                for k in c.keywords:
                    if k.arg == name:
                        arg = k.value
                if arg is None:
                    res.append(("und", None))
                elif is_cast(g, arg):
                    res.append(("ok", None))
                elif isinstance(arg, ast.Name):
                    st = enclosing_stmt_map(g.node).get(id(c))
                    res.append(check(g, st, arg.id, depth + 1))
                else:
                    res.append(("und", None))
            for r in res:
                if r[0] == "raw":
                    return r
            if all(r[0] == "ok" for r in res):
                return "ok", None
            return "und", None
        # a local that is not cast on some path: what is it bound to there?
        others = [d for d in defs.get(name, []) if d.kind == "assign"
                  and d.value is not None and not is_cast(f, d.value)]
        for d in others:
            v = d.value
            if isinstance(v, ast.Name):
                r = check(f, d.stmt, v.id, depth + 1)
                if r[0] != "ok":
                    return r
            elif isinstance(v, ast.Call) and \
                    resolve_local_call(f, v) is not None:
                return "raw", None     # a helper with an un-cast return
            else:
                return "und", None
        return "und", None
    n = 0
    for f in funcs:
        owner = enclosing_stmt_map(f.node)
        for c in calls_in(f.node):
            nm = (call_name(c) or "").split(".")[-1]
            if nm not in ("rint", "clip", "round", "around") or not c.args:
                continue
            op = c.args[0]
            if nm in ("clip",) and isinstance(c.func, ast.Attribute) and \
                    not (isinstance(c.func.value, ast.Name) and
                         c.func.value.id in ("np", "numpy")):
                op = c.func.value
            if not isinstance(op, ast.Name):
                continue
            n += 1
            verdict, path = check(f, owner.get(id(c)), op.id)
            col.add(rule, f, norm(c)[:60], verdict != "raw",
                    "operand cast to the work dtype on every path"
                    if verdict == "ok" else
                    ("`%s` is reached on a path where `%s` is still the array "
                     "that was passed in, in its own dtype: rounding and "
                     "clipping then run in the input type, whose values "
                     "cannot represent the output limits (float32 and "
                     "2**32-1), so saturated values wrap"
                     % (norm(c)[:40], op.id) if verdict == "raw" else
                     "dtype of the operand not traced"),
                    node=c, undecided=verdict == "und",
                    path=[repr(p_) for p_ in path] if path else None)
    if n == 0:
        col.add(rule, m.short + ":module", "np.rint / np.clip", True,
                "no rounding / clipping call recognised in data_types",
                undecided=True)


# ---------------------------------------------------------------------
def readable_count_format_types(repo, col):
    """readable_count promises at least two significant digits: the general
    format ('g' without '#') drops trailing zeros, so 1024 prints as '1 ki'."""
    rule = "E-TABLE.iec.format-type"
    fn = repo.func("utils", "readable_count")
    n = 0
    for f in helper_closure(fn, 3):
        for x in ast.walk(f.node):
            spec = None
            if isinstance(x, ast.FormattedValue) and x.format_spec is not None:
                parts = [v.value for v in x.format_spec.values
                         if isinstance(v, ast.Constant)]
                if len(parts) == len(x.format_spec.values):
                    spec = "".join(str(p) for p in parts)
            elif isinstance(x, ast.Call) and call_name(x) == "format" and \
                    len(x.args) == 2 and isinstance(x.args[1], ast.Constant):
                spec = str(x.args[1].value)
            elif isinstance(x, ast.Constant) and isinstance(x.value, str) \
                    and "{" in x.value and ":" in x.value:
                for mm in re.finditer(r"\{[^{}:]*:([^{}]*)\}", x.value):
                    s_ = mm.group(1)
                    if s_ and s_[-1] in "gG":
                        spec = s_
            if spec is None or not spec or spec[-1] not in "gGfFeEn%":
                continue
            n += 1
            bad = spec[-1] in "gG" and "#" not in spec
            col.add(rule, f, "format spec %r" % spec, not bad, "" if not bad
                    else "the general format %r removes trailing zeros: a "
                    "mantissa that rounds to a whole number (1024 -> 1.0) is "
                    "printed with one significant digit" % spec, node=x)
    if n == 0:
        col.add(rule, fn, "format specs", True, "no literal format spec "
                "recognised", undecided=True)


# ---------------------------------------------------------------------
def delete_guard_excludes_open(repo, col, short="file_accessor"):
    """A guard that removes the target when the guarded block raises must not
    enclose the open() itself: with exclusive creation ('xb') the failure is
    the refusal to overwrite, and the guard would then delete the file that
    was to be protected."""
    rule = "E-EXC.B.no-delete-on-error.guard"
    m = repo.module(short)
    deleting = {}
    for f in m.functions.values():
        decos = [(call_name(d) if isinstance(d, ast.Call) else
                  ".".join(filter(None, [getattr(getattr(d, "value", None),
                                                 "id", None),
                                         getattr(d, "attr", None) or
                                         getattr(d, "id", None)])))
                 for d in f.node.decorator_list]
        if not any((x or "").endswith("contextmanager") for x in decos):
            continue
        for h in ast.walk(f.node):
            if isinstance(h, ast.ExceptHandler) and any(
                    isinstance(c, ast.Call) and (
                        (isinstance(c.func, ast.Attribute) and
                         c.func.attr in ("unlink", "remove")) or
                        (call_name(c) or "") in ("os.remove", "os.unlink"))
                    for s_ in h.body for c in ast.walk(s_)):
                deleting[f.qualname] = f
    n = 0

    def is_open(c):
        nm = call_name(c) or ""
        return nm in ("open", "gzip.open", "io.open", "os.open") or (
            isinstance(c.func, ast.Attribute) and c.func.attr == "open")
    for f in m.functions.values():
        for w in ast.walk(f.node):
            if not isinstance(w, ast.With):
                continue
            for k, it in enumerate(w.items):
                c = it.context_expr
                if isinstance(c, ast.Call) and \
                        (call_name(c) or "").split(".")[-1] in deleting:
                    n += 1
                    inside = [x for later in w.items[k + 1:]
                              for x in ast.walk(later.context_expr)
                              if isinstance(x, ast.Call) and is_open(x)]
                    inside += [x for st in w.body for x in ast.walk(st)
                               if isinstance(x, ast.Call) and is_open(x)]
                    col.add(rule, f, norm(c)[:60], not inside,
                            "the file is opened before the guard is entered"
                            if not inside else
                            "`%s` is evaluated inside the guard `%s`, whose "
                            "handler deletes the target: when the open itself "
                            "fails because the file exists (mode 'xb', "
                            "overwrite not permitted) the existing file is "
                            "removed" % (norm(inside[0])[:40], norm(c)[:40]),
                            node=inside[0] if inside else c)
    if n == 0:
        col.add(rule, m.short + ":module", "deleting guards", True,
                "%d context managers that delete on error, none used"
                % len(deleting), nontrivial=False)


# ---------------------------------------------------------------------
def sibling_accessors_same_location(repo, col):
    """get_accessor_for_url: the plain accessor that probes the info file and
    the sharded accessor that replaces it are opened on the same location
    (the URL with the `precomputed://` prefix already removed)."""
    rule = "E-SIB.dispatch.location"
    fn = repo.func("accessor", "get_accessor_for_url")
    nodes = [fn.node]
    from .dataflow import single_defs, expand
    table = single_defs(fn.node)
    params = [p for p in fn.params]
    found = {}
    for c in ast.walk(fn.node):
        if isinstance(c, ast.Call):
            nm = (call_name(c) or "").split(".")[-1]
            if nm in ("HttpAccessor", "ShardedHttpAccessor",
                      "FileAccessor", "ShardedFileAccessor") and c.args:
                found.setdefault(nm, []).append(c)
    n = 0
    for plain, sharded in (("HttpAccessor", "ShardedHttpAccessor"),
                           ("FileAccessor", "ShardedFileAccessor")):
        for a in found.get(plain, []):
            for b in found.get(sharded, []):
                n += 1
                ta = norm(expand(a.args[0], table, depth=4))
                tb = norm(expand(b.args[0], table, depth=4))
                raw_a = isinstance(a.args[0], ast.Name) and \
                    a.args[0].id in params
                raw_b = isinstance(b.args[0], ast.Name) and \
                    b.args[0].id in params
                bad = ta != tb and (raw_a != raw_b)
                col.add(rule, fn, "%s(%s) / %s(%s)" % (
                    plain, norm(a.args[0])[:20], sharded,
                    norm(b.args[0])[:20]), not bad,
                    "" if not bad else
                    "%s is opened on `%s` but %s on `%s`: one of them gets "
                    "the URL as the caller wrote it (with its precomputed:// "
                    "prefix), the other the normalised location"
                    % (plain, norm(a.args[0]), sharded, norm(b.args[0])),
                    node=b, undecided=ta != tb and not bad)
    if n == 0:
        col.add(rule, fn, "plain / sharded accessor pairs", True,
                "constructors not found in get_accessor_for_url",
                undecided=True)
