"""E-ORDER: must-pass-through, ordering and typestate obligations decided on
per-function CFGs."""
import ast
import re

from .core import (AnalysisError, dotted, norm, walk_local, const_int,
                   enclosing_stmt_map, stmts_of, block_always_raises,
                   calls_in, call_name)
from .core import kwarg as kwarg_
from .dataflow import local_defs, names_in, closure_names, holds


def _cfg_node_of_expr(fn, expr, owner=None):
    owner = owner if owner is not None else enclosing_stmt_map(fn.node)
    st = owner.get(id(expr))
    if st is None:
        return None
    return fn.cfg().node_of(st)


def _calls(fn, pred):
    return [c for c in calls_in(fn.node) if pred(c)]


def _attr_call(call, attr):
    return isinstance(call.func, ast.Attribute) and call.func.attr == attr


# ---------------------------------------------------------------------
# O1: validation dominates every store / fetch in PrecomputedIO
# ---------------------------------------------------------------------
def validation_dominates_io(repo, col):
    rule = "E-ORDER.validate-before-io"
    for meth, io_attr in (("write_chunk", "store_chunk"),
                          ("read_chunk", "fetch_chunk")):
        from .core import inline_view
        fn = inline_view(repo.func("precomputed_io", "PrecomputedIO." + meth),
                         keep=("validate_chunk_coords",))
        cfg = fn.cfg()
        owner = enclosing_stmt_map(fn.node)
        io_calls = _calls(fn, lambda c: _attr_call(c, io_attr))
        if not io_calls and fn.cls is not None:
            # the I/O may sit in a helper method of the same class
            for c in calls_in(fn.node):
                if isinstance(c.func, ast.Attribute) and \
                        isinstance(c.func.value, ast.Name) and \
                        c.func.value.id == "self" and \
                        c.func.attr in fn.cls.methods and any(
                            _attr_call(x, io_attr) for x in calls_in(
                                fn.cls.methods[c.func.attr].node)):
                    io_calls.append(c)
        if not io_calls:
            raise AnalysisError("anchor vanished: %s no longer calls "
                                "accessor.%s" % (fn.key, io_attr))
        params = [p for p in fn.params if p != "self"]
        for call in io_calls:
            target = _cfg_node_of_expr(fn, call, owner)
            # test nodes that use validate_chunk_coords on the same key/coords
            through = []
            for n in cfg.nodes:
                if n.kind != "test" or n.ast is None:
                    continue
                test = n.ast.test
                vcalls = [c for c in walk_local(test) if isinstance(c, ast.Call)
                          and _attr_call(c, "validate_chunk_coords")]
                if not vcalls:
                    continue
                vc = vcalls[0]
                argn = set()
                for a in vc.args:
                    argn |= names_in(a)
                if not {"scale_key", "chunk_coords"} <= argn and \
                        not set(params[-2:]) <= argn and \
                        not {p for p in params if "coord" in p or "key" in p} <= argn:
                    continue
                # which branch is the "invalid" one?
                negated = _under_not(test, vc)
                if isinstance(n.ast, ast.Assert):
                    if negated:
                        continue   # asserts the coordinates are INVALID
                    through.append(n)
                    continue
                invalid_tag = True if negated else False
                # the invalid branch must not reach the I/O call
                bad = False
                for s in n.succ:
                    if cfg.branch.get((n.id, s.id)) == invalid_tag:
                        if target.id in cfg.reachable(s):
                            bad = True
                if not bad:
                    through.append(n)
            # a helper of the class that asserts / tests the validation on
            # every path, called anywhere in a statement
            # (`self._checked_scale(key, coords).encoder`)
            from .core import resolve_local_call as _rl
            for c2 in calls_in(fn.node):
                h2 = _rl(fn, c2)
                if h2 is None or h2.key == fn.key:
                    continue
                hcfg = h2.cfg()
                hn = []
                for n2 in hcfg.nodes:
                    a2 = n2.ast
                    t2 = a2.test if isinstance(a2, (ast.Assert, ast.If)) \
                        else None
                    if t2 is not None and any(
                            isinstance(x, ast.Call) and
                            _attr_call(x, "validate_chunk_coords")
                            for x in walk_local(t2)) and \
                            not _under_not(t2, [x for x in walk_local(t2)
                                                if isinstance(x, ast.Call) and
                                                _attr_call(
                                                    x, "validate_chunk_coords")
                                                ][0]) and \
                            isinstance(a2, ast.Assert):
                        hn.append(n2)
                if hn and hcfg.every_path_passes(hcfg.entry, hcfg.exit, hn):
                    st2 = owner.get(id(c2))
                    n3 = cfg.node_of(st2) if st2 is not None else None
                    if n3 is not None:
                        through.append(n3)
            ok = bool(through) and (target in through or
                                    cfg.every_path_passes(cfg.entry, target,
                                                          through))
            path = None
            if not ok:
                p = cfg.path(cfg.entry, target, avoiding=through)
                path = [norm(x.ast)[:60] if x.ast is not None else x.label
                        for x in (p or [])]
            col.add(rule, fn, "%s <- validate_chunk_coords" % io_attr, ok,
                    "every path to accessor.%s passes a check of "
                    "validate_chunk_coords" % io_attr if ok else
                    "a path reaches accessor.%s without a check of "
                    "validate_chunk_coords(scale_key, chunk_coords): "
                    "off-grid chunks would be stored/fetched" % io_attr,
                    node=call, path=path)


def _under_not(root, target):
    """True if `target` occurs under an odd number of `not` in root."""
    def rec(n, neg):
        if n is target:
            return neg
        if isinstance(n, ast.UnaryOp) and isinstance(n.op, ast.Not):
            return rec(n.operand, not neg)
        for c in ast.iter_child_nodes(n):
            r = rec(c, neg)
            if r is not None:
                return r
        return None
    return bool(rec(root, False))


# ---------------------------------------------------------------------
# O2: 24-bit field guard in the compressed_segmentation encoder
# ---------------------------------------------------------------------
def _has_24bit_test(test):
    consts = {const_int(x) for x in walk_local(test)}
    txt = norm(test)
    return 0xFFFFFF in consts or 1 << 24 in consts or "<< 24" in txt \
        or "2 ** 24" in txt or ">> 24" in txt


def cseg_field_guard(repo, col):
    rule = "E-ORDER.field-guard"
    from .core import helper_closure
    top = repo.func("_compressed_segmentation", "_encode_channel")
    fns = helper_closure(top)
    found = []          # (function, call, offset expr, bits expr)
    for fn in fns:
        for c in calls_in(fn.node):
            nm = call_name(c) or ""
            is_pack = nm.endswith("pack_into") or nm.endswith("struct.pack") \
                or (isinstance(c.func, ast.Attribute)
                    and c.func.attr in ("pack", "pack_into"))
            if not is_pack:
                continue
            for a in c.args:
                for b in walk_local(a):
                    if isinstance(b, ast.BinOp) and isinstance(b.op, ast.BitOr):
                        sides = [b.left, b.right]
                        sh = [s_ for s_ in sides if isinstance(s_, ast.BinOp)
                              and isinstance(s_.op, ast.LShift)
                              and const_int(s_.right) == 24]
                        other = [s_ for s_ in sides if s_ not in sh]
                        if sh and other:
                            found.append((fn, c, other[0], sh[0].left))
    if not found:
        col.add(rule, top, "offset | (bits << 24)", True, "packing of the "
                "first header word not recognised in %s or its helpers"
                % top.key, undecided=True)
        return
    any_guard = any(
        isinstance(st, (ast.If, ast.Assert)) and _has_24bit_test(st.test)
        for fn in fns for st in stmts_of(fn.node))
    for fn, call, offset_expr, bits_expr in found:
        cfg = fn.cfg()
        owner = enclosing_stmt_map(fn.node)
        target = _cfg_node_of_expr(fn, call, owner)
        onames = names_in(offset_expr)
        through = []
        for n in cfg.nodes:
            if n.kind != "test" or n.ast is None:
                continue
            test = n.ast.test
            if not (names_in(test) & onames):
                continue
            if _has_24bit_test(test):
                if isinstance(n.ast, ast.Assert) or \
                        block_always_raises(getattr(n.ast, "body", [])):
                    through.append(n)
        ok = bool(through) and cfg.every_path_passes(cfg.entry, target,
                                                     through)
        # the guard may sit in the caller of a helper that only packs
        und = not ok and any_guard and fn is not top
        col.add(rule, fn, "%s | (%s << 24)" % (norm(offset_expr),
                                                norm(bits_expr)), ok or und,
                "the 24-bit table offset is range-checked before packing"
                if ok else "lookup-table offset is packed into a 24-bit field "
                "without a dominating range check: offsets >= 2**24 would "
                "corrupt the bit-width field", node=call, undecided=und)


# ---------------------------------------------------------------------
# O3: guards of compute_dyadic_downscaling
# ---------------------------------------------------------------------
def _scale_sources(fn, defs, direct_only=False):
    """Classify local names by which scale's field they derive from:
    returns {name: set of (which, field)} with which in {old,new},
    field in {size, chunk_sizes}.  With direct_only the derivation follows
    only renamings, element access and conversions (no arithmetic): the name
    *is* that field or an element of it."""
    out = {}
    # names bound directly to info["scales"][E]
    scale_of = {}
    for name, ds in defs.items():
        for d in ds:
            if d.value is None:
                continue
            t = norm(d.value)
            if "['scales'][" in t:
                which = "new" if "+ 1" in t or "+1" in t else "old"
                scale_of[name] = which
            elif any(isinstance(x_, ast.Call) for x_ in ast.walk(d.value)):
                # a record of the scale built by a helper from the scale
                # index: helper(info, i) / helper(info, i + 1)
                from .dataflow import single_defs as _sd, expand as _ex
                idxp = {p_ for p_ in fn.params if "index" in p_}
                tab_ = _sd(fn.node)
                call_ = [x_ for x_ in ast.walk(d.value)
                         if isinstance(x_, ast.Call)][0]
                for a_ in [_ex(y_, tab_) for y_ in list(call_.args) +
                           [k.value for k in call_.keywords]]:
                    if isinstance(a_, ast.Name) and a_.id in idxp:
                        scale_of.setdefault(name, "old")
                    elif isinstance(a_, ast.BinOp) and \
                            isinstance(a_.op, ast.Add) and \
                            isinstance(a_.left, ast.Name) and \
                            a_.left.id in idxp and \
                            isinstance(a_.right, ast.Constant) and \
                            a_.right.value == 1:
                        scale_of[name] = "new"

    def plain(v):
        """Value that only renames / indexes / converts other names."""
        if isinstance(v, (ast.Name, ast.Subscript, ast.Attribute)):
            return True
        if isinstance(v, (ast.Tuple, ast.List)):
            return all(plain(e) for e in v.elts)
        if isinstance(v, ast.Call):
            nm = (call_name(v) or "").split(".")[-1]
            return nm in ("asarray", "array", "tuple", "list", "zip",
                          "enumerate", "reversed", "int") and \
                all(plain(a) for a in v.args)
        return False

    def direct_closure(name):
        seen, work = set(), [name]
        while work:
            n = work.pop()
            if n in seen:
                continue
            seen.add(n)
            for d in defs.get(n, []):
                if d.value is not None and plain(d.value):
                    work.extend(names_in(d.value) - seen)
        return seen
    for name in defs:
        tags = set()
        clos = closure_names(fn.node, [name], defs)
        if direct_only:
            clos = direct_closure(name)
        for n in clos:
            for d in defs.get(n, []):
                if d.value is None:
                    continue
                if direct_only and not plain(d.value):
                    continue
                for sub in walk_local(d.value):
                    if isinstance(sub, ast.Attribute) and \
                            sub.attr in ("size", "chunk_size",
                                         "chunk_sizes") and \
                            isinstance(sub.value, ast.Name) and \
                            scale_of.get(sub.value.id):
                        tags.add((scale_of[sub.value.id],
                                  "size" if sub.attr == "size"
                                  else "chunk_sizes"))
                    if isinstance(sub, ast.Subscript) and \
                            isinstance(sub.slice, ast.Constant) and \
                            sub.slice.value in ("size", "chunk_sizes"):
                        base = sub.value
                        which = None
                        if isinstance(base, ast.Name):
                            which = scale_of.get(base.id)
                        else:
                            t = norm(base)
                            if "['scales'][" in t:
                                which = "new" if "+ 1" in t else "old"
                        if which:
                            tags.add((which, sub.slice.value))
        out[name] = tags
    # accumulators: `problems.append(...)` under a test on tagged names makes
    # `problems` stand for that test (`if problems: raise`)
    from .dataflow import control_names
    from .core import enclosing_stmt_map
    owner = enclosing_stmt_map(fn.node)
    for _ in range(2):
        for c in calls_in(fn.node):
            if isinstance(c.func, ast.Attribute) and \
                    c.func.attr in ("append", "extend", "add") and \
                    isinstance(c.func.value, ast.Name):
                st = owner.get(id(c))
                if st is None:
                    continue
                ctl = control_names(fn.node, st)
                tags = set()
                for n in ctl:
                    tags |= out.get(n, set())
                out.setdefault(c.func.value.id, set()).update(tags)
    return out


def pyramid_guards(repo, col):
    rule = "E-ORDER.pyramid-guard"
    # helpers that fetch the per-scale fields are inlined: the guards are
    # recognised by the fields of info["scales"][i] / [i + 1] they relate
    fn = repo.func("dyadic_pyramid", "compute_dyadic_downscaling", inline=True)
    cfg = fn.cfg()
    defs = local_defs(fn.node)
    src_all = _scale_sources(fn, defs)
    src_direct = _scale_sources(fn, defs, direct_only=True)
    # the chunk loop: the `for` whose body calls write_chunk
    loop = None
    for st in stmts_of(fn.node):
        if isinstance(st, ast.For) and any(
                _attr_call(c, "write_chunk") for s in st.body
                for c in calls_in(s)):
            loop = st
    if loop is None:
        raise AnalysisError("anchor vanished: chunk loop calling write_chunk "
                            "in %s" % fn.key)
    target = cfg.node_of(loop)

    def guard_nodes(required, table=None):
        src = table if table is not None else src_all
        res = []
        for n in cfg.nodes:
            if n.kind != "test" or not isinstance(n.ast, ast.If):
                continue
            if not block_always_raises(n.ast.body):
                continue
            tags = set()
            for nm in names_in(n.ast.test):
                tags |= src.get(nm, set())
            # names bound inside comprehensions of the test
            for sub in walk_local(n.ast.test):
                if isinstance(sub, ast.comprehension):
                    for nm in names_in(sub.iter):
                        tags |= src.get(nm, set())
            if required <= tags:
                # a per-axis guard written as a loop over the (three) axes:
                # the loop as a whole is the guard
                holder = n
                for lp in stmts_of(fn.node):
                    if isinstance(lp, ast.For) and n.ast in lp.body and \
                            lp is not loop:
                        ln_ = cfg.node_of(lp)
                        if ln_ is not None:
                            holder = ln_
                res.append(holder)
        return res

    for label, required, why in (
            ("factor guard", {("old", "size"), ("new", "size")},
             "scale pairs whose sizes are not related by factors 1 or 2 are "
             "processed instead of rejected"),
            ("chunk-size compatibility guard",
             {("old", "chunk_sizes"), ("new", "chunk_sizes")},
             "the two-pieces-per-axis assembly silently writes wrong data "
             "(NumPy broadcasting) when the chunk sizes of the two scales are "
             "not in ratio 1 or 2 after downscaling")):
        # the size relation must be tested on the sizes themselves (the
        # chunk-size guard also touches quantities derived from them)
        g = guard_nodes(required, src_direct if ("old", "size") in required
                        else None)
        ok = bool(g) and cfg.every_path_passes(cfg.entry, target, g)
        und_g = False
        if not ok:
            # guards moved into helpers that are called before the loop: the
            # relation they test is not traced through the helper's own data
            # structures, but a raising helper on every path is not a defect
            from .core import resolve_local_call
            hn = []
            owner_ = enclosing_stmt_map(fn.node)
            for c_ in calls_in(fn.node):
                h_ = resolve_local_call(fn, c_)
                if h_ is None or h_ is fn:
                    continue
                raising = any(
                    isinstance(x_, ast.If) and block_always_raises(x_.body)
                    for x_ in ast.walk(h_.node))
                if raising:
                    n_ = cfg.node_of(owner_.get(id(c_)))
                    if n_ is not None:
                        hn.append(n_)
            und_g = bool(hn) and cfg.every_path_passes(cfg.entry, target, hn)
            if not und_g:
                # the same question on the function as written (helpers that
                # were inlined above are calls there)
                ofn = getattr(fn, "inlined_from", fn)
                ocfg = ofn.cfg()
                oloop = None
                for st_ in stmts_of(ofn.node):
                    if isinstance(st_, ast.For) and any(
                            _attr_call(c_, "write_chunk") for s_ in st_.body
                            for c_ in calls_in(s_)):
                        oloop = st_
                otarget = ocfg.node_of(oloop) if oloop is not None else None
                oowner = enclosing_stmt_map(ofn.node)
                ohn = []
                for c_ in calls_in(ofn.node):
                    h_ = resolve_local_call(ofn, c_)
                    if h_ is None or h_ is ofn:
                        continue
                    if any(isinstance(x_, ast.If) and
                           block_always_raises(x_.body) or
                           isinstance(x_, ast.Raise)
                           for x_ in ast.walk(h_.node)):
                        n_ = ocfg.node_of(oowner.get(id(c_)))
                        if n_ is not None:
                            ohn.append(n_)
                und_g = otarget is not None and bool(ohn) and \
                    ocfg.every_path_passes(ocfg.entry, otarget, ohn)
        if ok and ("old", "size") in required:
            # the guard must reject a pair of scales as soon as ONE axis is
            # inconsistent: what holds on its fall-through path is then an
            # elementwise equality
            from .dataflow import holds
            gi = g[0].ast
            if isinstance(gi, ast.If):
                atoms = holds(gi.test, False)
                has_eq = any(a.op == "==" for a in atoms)
                all_ne = any(
                    isinstance(c, ast.Call) and (
                        (dotted(c.func) or "") in ("all", "np.all",
                                                   "numpy.all") or
                        (isinstance(c.func, ast.Attribute) and
                         c.func.attr == "all" and not c.args)) and
                    any(isinstance(x, ast.Compare) and
                        isinstance(x.ops[0], ast.NotEq)
                        for x in ast.walk(c))
                    for c in ast.walk(gi.test))
                col.add(rule + ".quantifier", fn, norm(gi.test)[:80],
                        has_eq or not all_ne,
                        "passing the guard establishes the size relation on "
                        "every axis" if has_eq else
                        ("the guard raises only when the sizes differ on ALL "
                         "axes (all(... != ...)): a pair of scales with an "
                         "unsupported factor on one axis passes it"
                         if all_ne else "quantifier of the guard not "
                         "recognised"), node=gi,
                        undecided=not has_eq and not all_ne)
        col.add(rule, fn, label, ok or und_g,
                "a raising guard relating %s dominates the chunk loop"
                % " and ".join("%s %s" % r for r in sorted(required)) if ok
                else "no raising guard relating %s dominates the chunk loop: "
                % " and ".join("%s %s" % r for r in sorted(required)) + why,
                node=loop, undecided=und_g and not ok)
    # the compatibility guard must test both conditions per axis: exact
    # halving of the old chunk and new in {half, 2*half}
    g = guard_nodes({("old", "chunk_sizes"), ("new", "chunk_sizes")})
    if g and isinstance(g[0].ast, ast.For):
        inner = [x for x in g[0].ast.body if isinstance(x, ast.If)]
        g = [type("N", (), {"ast": inner[0]})()] if inner else []
    if g:
        test = g[0].ast.test
        txt = norm(test)
        has_membership = any(isinstance(n, ast.Compare) and
                             isinstance(n.ops[0], (ast.NotIn, ast.In))
                             for n in walk_local(test)) or "%" in txt
        col.add(rule + ".shape", fn, "compatibility test shape", has_membership,
                "guard constrains the new chunk size to a set / multiple of "
                "the half chunk" if has_membership else
                "compatibility guard no longer constrains the new chunk size "
                "to {half, 2*half}", node=g[0].ast,
                undecided=not has_membership)
    # downscaler.check_factors consulted before the loop
    chk = [c for c in calls_in(fn.node) if _attr_call(c, "check_factors")]
    col.add(rule, fn, "downscaler.check_factors(...)", bool(chk),
            "" if chk else "downscaler is never asked whether it supports the "
            "factors")


# ---------------------------------------------------------------------
# O4: level driver
# ---------------------------------------------------------------------
def level_driver(repo, col):
    rule = "E-ORDER.level-driver"
    fn = repo.func("dyadic_pyramid", "compute_dyadic_scales")
    loops = [s for s in stmts_of(fn.node)
             if isinstance(s, (ast.For, ast.While)) and any(
                 (call_name(c) or "").endswith("compute_dyadic_downscaling")
                 for c in calls_in(s))]
    if not loops:
        col.add(rule, fn, "level loop", True, "no loop calling "
                "compute_dyadic_downscaling in %s" % fn.key, undecided=True)
        return
    loop = loops[0]
    from .intexpr import canon, NotInt
    from .dataflow import single_defs, expand
    ltab = single_defs(fn.node)
    ok_range, und_range = False, True
    lv = None
    if isinstance(loop, ast.For):
        it = norm(loop.iter)
        lv = loop.target.id if isinstance(loop.target, ast.Name) else None
        if isinstance(loop.iter, ast.Call) and \
                call_name(loop.iter) == "range" and len(loop.iter.args) == 1:
            try:
                c = canon(expand(loop.iter.args[0], ltab))
            except NotInt:
                c = None
            if c and "len(" in c and "scales" in c:
                und_range = False
                ok_range = c.startswith("-1 + len(")
    else:
        # while i < len(scales) - 1: ...; i += 1   (i starts at 0)
        it = "while " + norm(loop.test)
        for a in holds(loop.test, True):
            for b in (a, a.flipped()):
                if b.op == "<" and isinstance(b.left, ast.Name):
                    try:
                        c = canon(expand(b.right, ltab))
                    except NotInt:
                        c = None
                    i_ = b.left.id
                    starts0 = any(const_int(d.value) == 0
                                  for d in local_defs(fn.node).get(i_, [])
                                  if d.value is not None and d.kind == "assign")
                    steps1 = any(isinstance(x, ast.AugAssign) and
                                 isinstance(x.op, ast.Add) and
                                 norm(x.target) == i_ and
                                 const_int(x.value) == 1
                                 for x in ast.walk(loop))
                    if c and "len(" in c and "scales" in c and starts0 \
                            and steps1:
                        und_range = False
                        ok_range = c.startswith("-1 + len(")
                        lv = i_
    col.add(rule, fn, "for i in %s" % it, ok_range,
            "covers every transition i -> i+1" if ok_range else
            "level loop does not cover range(len(scales) - 1): some scale "
            "transitions are skipped or out of range", node=loop,
            undecided=und_range)
    calls = [c for c in calls_in(loop)
             if (call_name(c) or "").endswith("compute_dyadic_downscaling")]
    ok_call = bool(calls) and len(calls[0].args) >= 2 and \
        norm(calls[0].args[1]) == lv
    und_call = not calls or lv is None or (
        len(calls[0].args) >= 2 and lv not in names_in(calls[0].args[1])
        and not isinstance(calls[0].args[1], ast.Constant))
    col.add(rule, fn, "compute_dyadic_downscaling(info, i, ...)", ok_call,
            "source scale index is the loop variable" if ok_call else
            "source scale index is not the loop variable", node=loop,
            undecided=not ok_call and und_call)
    if calls:
        c = calls[0]
        rd_ = kwarg_(c, "chunk_reader") or (c.args[3] if len(c.args) > 3
                                            else None)
        wr_ = kwarg_(c, "chunk_writer") or (c.args[4] if len(c.args) > 4
                                            else None)
        same_io = rd_ is not None and wr_ is not None and \
            norm(rd_) == norm(wr_)
        col.add(rule, fn, "reader is writer", same_io,
                "level i+1 is read back through the object that wrote it"
                if same_io else "reader and writer differ", node=c,
                nontrivial=False)
    # close between levels
    closes = []
    via_helper = False
    from .core import resolve_local_call
    for st in loop.body:
        for c in calls_in(st):
            if _attr_call(c, "close") and "accessor" in norm(c.func.value):
                closes.append((st, c))
            else:
                h = resolve_local_call(fn, c)
                if h is not None and any(_attr_call(x, "close")
                                         for x in calls_in(h.node)) and any(
                        "accessor" in norm(a_) for a_ in c.args):
                    closes.append((st, c))
                    via_helper = True
    ok_close = False
    for st, c in closes:
        if isinstance(st, ast.If):
            t = norm(st.test)
            if "isinstance(" in t and "ShardedFileAccessor" in t and \
                    "not " not in t:
                ok_close = True
        elif isinstance(st, ast.Expr):
            ok_close = True
    # must come after the downscaling call in the loop body
    if ok_close and calls:
        idx_call = max(i for i, s in enumerate(loop.body)
                       if any(x is calls[0] for x in calls_in(s)))
        idx_close = max(i for i, s in enumerate(loop.body)
                        if any(x is cc for _, cc in closes
                               for x in calls_in(s)))
        ok_close = idx_close > idx_call
    other_calls = False
    if calls and not closes:
        seen_call = False
        for st in loop.body:
            cs = calls_in(st)
            if any(x is calls[0] for x in cs):
                seen_call = True
                continue
            if seen_call and any(not (call_name(x) or "").startswith(
                    ("logger.", "logging.", "print", "isinstance"))
                    for x in cs):
                other_calls = True
    col.add(rule, fn, "accessor.close() between levels", ok_close,
            "sharded output of level i+1 is flushed before it is read as the "
            "source of level i+2" if ok_close else
            "sharded accessor is not closed after writing a level: the next "
            "level reads shards that are still buffered in memory",
            node=loop, undecided=not ok_close and other_calls)


# ---------------------------------------------------------------------
# O5: flush chain
# ---------------------------------------------------------------------
_EMPTY_TESTS = ("len(self.%s) == 0", "not self.%s", "not self.dirty",
                "self.dirty is False", "not len(self.%s)")


def _closing_loop(fn, container_attr):
    """Find `for v in <expr over self.container>: v.close()` at the top level
    of the function body (or of a with-block at top level)."""
    defs = local_defs(fn.node)

    def top_level(stmts):
        for st in stmts:
            yield st
            if isinstance(st, (ast.With,)):
                yield from top_level(st.body)
    for st in top_level(fn.node.body):
        if not isinstance(st, ast.For):
            continue
        it_names = closure_names(fn.node, names_in(st.iter), defs)
        # (comprehension form `[x.close() for x in ...]` handled below)
        txt = norm(st.iter)
        derives = ("self.%s" % container_attr) in txt or any(
            ("self.%s" % container_attr) in norm(d.value)
            for n in it_names for d in defs.get(n, []) if d.value is not None)
        if not derives:
            # a list filled element by element from the container
            for c in calls_in(fn.node):
                if isinstance(c.func, ast.Attribute) and \
                        c.func.attr in ("append", "extend", "add") and \
                        isinstance(c.func.value, ast.Name) and \
                        c.func.value.id in it_names and c.args and \
                        ("self.%s" % container_attr) in norm(c.args[0]):
                    derives = True
        if not derives or not isinstance(st.target, ast.Name):
            continue
        v = st.target.id
        for s in st.body:
            if isinstance(s, ast.Expr) and isinstance(s.value, ast.Call) \
                    and _attr_call(s.value, "close") \
                    and norm(s.value.func.value) == v:
                return st
    for st in top_level(fn.node.body):
        if isinstance(st, ast.Expr) and isinstance(st.value, (ast.ListComp,
                                                              ast.GeneratorExp)):
            lc = st.value
            g = lc.generators[0]
            if ("self.%s" % container_attr) in norm(g.iter) and \
                    isinstance(lc.elt, ast.Call) and _attr_call(lc.elt, "close") \
                    and isinstance(g.target, ast.Name) and \
                    norm(lc.elt.func.value) == g.target.id:
                fake = ast.For(target=g.target, iter=g.iter, body=[st],
                               orelse=[])
                ast.copy_location(fake, st)
                fake.end_lineno = st.end_lineno
                fake.end_col_offset = st.end_col_offset
                return fake
    return None


def flush_chain(repo, col):
    rule = "E-ORDER.flush-chain"
    sites = [("ShardedFileAccessor.close", "shard_dict"),
             ("ShardedScale.close", "shard_dict"),
             ("Shard.close", "minishard_dict")]
    for qn, attr in sites:
        fn = repo.func("sharded_file_accessor", qn, inline=True)
        loop = _closing_loop(fn, attr)
        ok = loop is not None
        # a loop that closes *something* but is not recognised as ranging
        # over the whole container is not evidence of a defect
        some_close_loop = any(
            isinstance(l_, (ast.For, ast.While)) and any(
                isinstance(s_, ast.Expr) and isinstance(s_.value, ast.Call)
                and _attr_call(s_.value, "close") for s_ in l_.body)
            for l_ in stmts_of(fn.node))
        col.add(rule, fn, "for x in self.%s: x.close()" % attr,
                ok or some_close_loop,
                "every element of self.%s is closed unconditionally" % attr
                if ok else "no unconditional loop closes every element of "
                "self.%s: buffered chunks of some scale / shard / minishard "
                "are never written" % attr, node=loop,
                undecided=not ok and some_close_loop)
        # filtered iteration (comprehension with an `if`) drops elements
        if loop is not None:
            filt = any(isinstance(n, ast.comprehension) and n.ifs
                       for n in walk_local(loop.iter))
            defs = local_defs(fn.node)
            for nm in closure_names(fn.node, names_in(loop.iter), defs):
                for d in defs.get(nm, []):
                    if d.value is not None and any(
                            isinstance(n, ast.comprehension) and n.ifs
                            for n in walk_local(d.value)):
                        filt = True
            col.add(rule, fn, "iteration over self.%s unfiltered" % attr,
                    not filt, "" if not filt else "the closing loop iterates "
                    "over a filtered subset of self.%s" % attr, node=loop)
        # early returns only under emptiness / not-dirty tests
        for st in stmts_of(fn.node):
            if isinstance(st, ast.Return):
                guard = _enclosing_if(fn.node, st)
                allowed = False
                if guard is not None:
                    t = norm(guard.test)
                    allowed = any(t == pat % attr if "%s" in pat else t == pat
                                  for pat in _EMPTY_TESTS)
                if loop is not None and _after(fn.node, st, loop):
                    continue
                if not allowed and guard is not None:
                    # `if self._closed: return` - idempotent close.  Sound
                    # when storing anything clears the flag again: every
                    # store_* method the class resolves to assigns it False
                    flag = _flag_attr(guard.test)
                    if flag is not None:
                        cls_ = repo.cls("sharded_file_accessor",
                                        qn.split(".")[0])
                        stores = {}
                        for c_ in reversed(repo.mro(cls_)):
                            for mn_, mf_ in c_.methods.items():
                                if mn_.startswith("store_"):
                                    stores[mn_] = mf_
                        def resets_(mf_, seen_=()):
                            if any(isinstance(x_, ast.Assign) and any(
                                    norm(t_) == "self." + flag
                                    for t_ in x_.targets) and
                                    isinstance(x_.value, ast.Constant) and
                                    x_.value.value is False
                                    for x_ in ast.walk(mf_.node)):
                                return True
                            # through another store method of the object
                            for c_ in calls_in(mf_.node):
                                if isinstance(c_.func, ast.Attribute) and \
                                        isinstance(c_.func.value, ast.Name) \
                                        and c_.func.value.id == "self" and \
                                        c_.func.attr in stores and \
                                        c_.func.attr not in seen_ and \
                                        stores[c_.func.attr] is not mf_:
                                    if resets_(stores[c_.func.attr],
                                               seen_ + (c_.func.attr,)):
                                        return True
                            # a method that never reaches the buffered
                            # container has nothing to flush later
                            from .core import closure_text
                            txt_ = closure_text(mf_)
                            if ("self.%s" % attr) not in txt_ and \
                                    "get_shard" not in txt_ and \
                                    "get_scale" not in txt_ and \
                                    "store_cmc_chunk" not in txt_ and \
                                    "store_chunk" not in txt_.replace(
                                        "def store_chunk", ""):
                                return True
                            return False
                        resets = {mn_: resets_(mf_)
                                  for mn_, mf_ in stores.items()}
                        if stores and all(resets.values()):
                            allowed = True
                        elif stores:
                            col.add(rule, fn, "early return under `%s`"
                                    % norm(guard.test), False,
                                    "close() returns at once while `self.%s` "
                                    "is set, and %s stores new chunks without "
                                    "clearing it: everything stored after the "
                                    "first close() is never written"
                                    % (flag, ", ".join(
                                        "%s.%s" % (mf_.qualname.split(".")[0],
                                                   mn_)
                                        for mn_, mf_ in stores.items()
                                        if not resets[mn_])), node=st)
                            continue
                col.add(rule, fn, "early return under `%s`"
                        % (norm(guard.test) if guard is not None else "-"),
                        allowed, "" if allowed else "close() can return before "
                        "the flushing loop under a condition other than "
                        "'nothing to flush'", node=st)
    # atexit registration, unconditional
    fn = repo.func("sharded_file_accessor", "ShardedFileAccessor.__init__")
    reg = None
    for st in fn.node.body:
        if isinstance(st, ast.Expr) and isinstance(st.value, ast.Call) and \
                (call_name(st.value) or "").endswith("atexit.register") and \
                st.value.args and norm(st.value.args[0]) == "self.close":
            reg = st
    col.add(rule, fn, "atexit.register(self.close)", reg is not None,
            "the accessor flushes itself at interpreter exit (the conversion "
            "scripts never call close())" if reg is not None else
            "ShardedFileAccessor no longer registers self.close with atexit "
            "unconditionally: scripts that never call close() lose every "
            "buffered shard", node=reg)


def _flag_attr(test):
    """X for tests `self.X` / `self.X is True` / `self.closed` (property
    names are returned as written)."""
    if isinstance(test, ast.Attribute) and isinstance(test.value, ast.Name) \
            and test.value.id == "self":
        return test.attr
    if isinstance(test, ast.Compare) and len(test.ops) == 1 and \
            isinstance(test.ops[0], (ast.Is, ast.Eq)) and \
            isinstance(test.comparators[0], ast.Constant) and \
            test.comparators[0].value is True:
        return _flag_attr(test.left)
    return None


def _enclosing_if(fnode, target):
    res = [None]

    def rec(stmts, cur_if):
        for st in stmts:
            if st is target:
                res[0] = cur_if
                return True
            if isinstance(st, ast.If):
                if rec(st.body, st) or rec(st.orelse, st):
                    return True
            elif isinstance(st, (ast.For, ast.While, ast.With, ast.Try)):
                for field in ("body", "orelse", "finalbody"):
                    if rec(getattr(st, field, []) or [], cur_if):
                        return True
                for h in getattr(st, "handlers", []) or []:
                    if rec(h.body, cur_if):
                        return True
        return False
    rec(fnode.body, None)
    return res[0]


def _after(fnode, a, b):
    """statement a occurs textually after statement b"""
    return (a.lineno, a.col_offset) > (b.end_lineno, b.end_col_offset)


# ---------------------------------------------------------------------
# O6: shard index written last
# ---------------------------------------------------------------------
def shard_index_last(repo, col):
    rule = "E-ORDER.index-last"
    fn = repo.func("sharded_file_accessor", "Shard.close", inline=True)
    cfg = fn.cfg()
    owner = enclosing_stmt_map(fn.node)
    # the with-open handle
    fp = None
    with_stmt = None
    for st in stmts_of(fn.node):
        if isinstance(st, ast.With):
            for item in st.items:
                c = item.context_expr
                if isinstance(c, ast.Call) and call_name(c) == "open" and \
                        len(c.args) >= 2 and isinstance(c.args[1], ast.Constant) \
                        and "w" in str(c.args[1].value) and \
                        isinstance(item.optional_vars, ast.Name):
                    fp = item.optional_vars.id
                    with_stmt = st
                elif isinstance(c, ast.Call) and \
                        isinstance(item.optional_vars, ast.Name):
                    # a helper of the package that returns the file opened
                    # for writing
                    from .core import resolve_local_call as _rl
                    h_ = _rl(fn, c)
                    if h_ is not None and any(
                            isinstance(r_, ast.Return) and
                            isinstance(r_.value, ast.Call) and
                            (call_name(r_.value) or "").split(".")[-1] == "open"
                            and any("'wb'" in norm(a_) or "'w" in norm(a_)
                                    for a_ in r_.value.args[1:] +
                                    [k_.value for k_ in r_.value.keywords])
                            for r_ in stmts_of(h_.node)):
                        fp = item.optional_vars.id
                        with_stmt = st
    if fp is None:
        raise AnalysisError("anchor vanished: `with open(..., 'wb') as fp` in "
                            "%s" % fn.key)
    writes, seeks = [], []
    for c in calls_in(with_stmt):
        if isinstance(c.func, ast.Attribute) and norm(c.func.value) == fp:
            if c.func.attr == "write":
                writes.append(c)
            elif c.func.attr == "seek":
                seeks.append(c)
    seek0 = [s for s in seeks if s.args and const_int(s.args[0]) == 0]
    if len(seek0) != 1:
        col.add(rule, fn, "%s.seek(0)" % fp, False,
                "expected exactly one seek(0) before the final index write, "
                "found %d" % len(seek0), node=with_stmt)
        return
    S = _cfg_node_of_expr(fn, seek0[0], owner)
    after = cfg.reachable(S) - {S.id}
    wnodes = [(w, _cfg_node_of_expr(fn, w, owner)) for w in writes]
    last = [(w, n) for w, n in wnodes if n.id in after]
    before = [(w, n) for w, n in wnodes if n.id not in after]
    ok_single = len(last) == 1
    col.add(rule, fn, "single write after seek(0)", ok_single,
            "the only write after seek(0) is the shard index" if ok_single
            else "%d writes follow seek(0): data is written after (or over) "
            "the index" % len(last), node=seek0[0])
    # every other write precedes the seek on every path and cannot recur
    for w, n in before:
        ok = S.id in cfg.reachable(n)
        col.add(rule, fn, "%s precedes seek(0)" % norm(w), ok,
                "" if ok else "a write is not followed by the index write",
                node=w, nontrivial=False)
    # index write argument is the index buffer, and the first write is the
    # zero placeholder of the index length
    if ok_single:
        arg = norm(last[0][0].args[0]) if last[0][0].args else ""
        okb = "sh_idx" in arg or "index" in arg.lower() or "hdr" in arg.lower()
        col.add(rule, fn, "final write(%s)" % arg, okb, "" if okb else
                "final write does not look like the shard index buffer",
                node=last[0][0], undecided=not okb)
    doms = cfg.dominators()
    first = None
    for w, n in before:
        if all(n.id in doms[m.id] for _, m in before):
            first = (w, n)
    if first is None:
        col.add(rule, fn, "placeholder first", False,
                "no single first write dominates all other writes",
                node=with_stmt)
    else:
        from .dataflow import single_defs, expand
        a = first[0].args[0] if first[0].args else None
        if a is not None:
            a = expand(a, single_defs(fn.node))
            from .core import expand_properties
            a = expand_properties(repo, fn.module, a)
        txt = norm(a)
        zero = isinstance(a, ast.BinOp) and isinstance(a.op, ast.Mult) and any(
            isinstance(s, ast.Constant) and s.value in (b"\0", b"\x00")
            for s in (a.left, a.right))
        zero = zero or txt.startswith("bytes(")
        length_ok = ("minishard_bits" in txt and "16" in txt) or \
            "header_byte_length" in txt
        # ... or as long as the very buffer that is written at the end
        if not length_ok and ok_single and last[0][0].args and \
                first[0].args:
            fin = norm(last[0][0].args[0])
            raw = norm(first[0].args[0])
            fin2 = norm(expand(last[0][0].args[0], single_defs(fn.node)))
            length_ok = ("len(%s)" % fin) in raw or ("len(%s)" % fin2) in txt
        # positively wrong: not zeros, or 2**minishard_bits times a
        # constant other than the 16 bytes of an entry
        mult = re.findall(r"minishard_bits\)* \* (\d+)", txt) + \
            re.findall(r"(\d+) \* \(*2 \*\* ", txt)
        wrong = not zero or (("minishard_bits" in txt and bool(mult) and
                              "16" not in mult)) or \
            (isinstance(a, ast.BinOp) and any(
                isinstance(s_, ast.Constant) and isinstance(s_.value, int)
                for s_ in (a.left, a.right)))
        und = not (zero and length_ok) and not wrong
        col.add(rule, fn, "first write(%s)" % txt[:80],
                (zero and length_ok) or und,
                "a zero placeholder of exactly the index length is written "
                "first, so an interrupted shard lists no chunk"
                if zero and length_ok else
                "the first write is not a zero placeholder of the shard-index "
                "length (2**minishard_bits * 16)", node=first[0],
                undecided=und)
    # normal exit passes the seek
    okp = cfg.every_path_passes(cfg.node_of(with_stmt), cfg.exit, [S])
    col.add(rule, fn, "every normal exit writes the index", okp,
            "" if okp else "a path leaves the with-block normally without "
            "writing the shard index", node=with_stmt)


# ---------------------------------------------------------------------
# O7: MiniShard.close drains the reorder buffer
# ---------------------------------------------------------------------
def _means_nonempty(test, attr):
    """The test, when true, says that the container attribute is not empty:
    `len(self.x) > 0`, `0 < len(self.x)`, `len(self.x) != 0`, `len(self.x)`,
    `self.x`."""
    from .dataflow import holds
    for a in holds(test, True):
        for b in (a, a.flipped()):
            lt = norm(b.left)
            if attr not in lt:
                continue
            if b.op == "truthy":
                return True
            if lt.startswith("len(") and (
                    (b.op in (">", "!=") and const_int(b.right) == 0) or
                    (b.op == ">=" and const_int(b.right) == 1)):
                return True
    return False


def minishard_drain(repo, col):
    rule = "E-ORDER.drain"
    from .core import minishard_buffer_attr
    bufattr = minishard_buffer_attr(repo)
    from .core import inline_view
    # new helpers are looked through; the two operations the clauses name
    # (append, flush_buffer) stay calls
    fn = inline_view(repo.func("sharded_file_accessor", "MiniShard.close"),
                     keep=("append", "flush_buffer"))
    cfg = fn.cfg()
    drains = []
    other_form = False
    for n in cfg.nodes:
        if n.kind == "loop" and isinstance(n.ast, ast.While):
            if _means_nonempty(n.ast.test, "self." + bufattr):
                drains.append(n)
            elif isinstance(n.ast.test, ast.Constant) and n.ast.test.value:
                # `while True: ...; if <buffer empty>: return/break; ...`
                for x in ast.walk(n.ast):
                    if isinstance(x, ast.If) and x.body and isinstance(
                            x.body[-1], (ast.Return, ast.Break)) and \
                            _means_nonempty(ast.UnaryOp(op=ast.Not(),
                                                        operand=x.test),
                                            "self." + bufattr):
                        drains.append(n)
                        break
                else:
                    if ("self." + bufattr) in norm(n.ast):
                        other_form = True
            elif ("self." + bufattr) in norm(n.ast.test):
                other_form = True
    # `for id in sorted(buffer): fill the gap; flush`: another way to drain
    for_loops = [x for x in ast.walk(fn.node) if isinstance(x, ast.For)
                 and ("self." + bufattr) in norm(x.iter)]
    if for_loops:
        other_form = True
    for lp in for_loops:
        it = lp.iter
        is_sorted = isinstance(it, ast.Call) and call_name(it) in (
            "sorted",) or (isinstance(it, ast.Call) and
                           call_name(it) in ("iter", "list", "tuple") and
                           it.args and isinstance(it.args[0], ast.Call) and
                           call_name(it.args[0]) == "sorted")
        appends = any((call_name(c) or "").startswith("self.")
                      for c in calls_in(lp))
        if not is_sorted and appends:
            # the in-memory reorder buffer is a plain dict: its iteration
            # order is the order in which the chunks arrived
            plain = False
            init = repo.func("sharded_file_accessor", "MiniShard.__init__")
            for x in ast.walk(init.node):
                if isinstance(x, (ast.Dict,)) and not x.keys:
                    plain = True
                if isinstance(x, ast.Call) and call_name(x) == "dict" and \
                        not x.args and not x.keywords:
                    plain = True
            col.add(rule + ".order", fn, norm(it)[:60], not plain,
                    "" if not plain else
                    "the parked chunks are appended in the iteration order of "
                    "`%s`, which for the in-memory buffer (a plain dict) is "
                    "their arrival order: a chunk with a lower id than one "
                    "already handled is appended behind it, so the shard "
                    "depends on the order of writes" % norm(it)[:50], node=lp,
                    undecided=False)
    ok = bool(drains) and cfg.every_path_passes(cfg.entry, cfg.exit, drains)
    col.add(rule, fn, "while len(self._chunk_buffer) > 0",
            ok or (not drains and other_form),
            "close() returns only once the reorder buffer is empty" if ok else
            "close() can return while chunks are still parked in the reorder "
            "buffer: they never reach the shard file",
            node=drains[0].ast if drains else None,
            undecided=not ok and not drains and other_form)
    if drains:
        body_calls = [call_name(c) or "" for c in calls_in(drains[0].ast)]
        ok2 = any(b.endswith("self.append") for b in body_calls) and \
            any(b.endswith("self.flush_buffer") for b in body_calls)
        und2 = False
        if not ok2 and any(b.endswith("self.flush_buffer")
                           for b in body_calls):
            # the gap may be filled by another method that advances the
            # minishard's chunk counter (a vectorised append of empty entries)
            ms_cls = repo.cls("sharded_file_accessor", "MiniShard")
            appf_ = ms_cls.methods.get("append")
            cnts = [norm(x.target) for x in stmts_of(appf_.node)
                    if isinstance(x, ast.AugAssign)] if appf_ else []
            for c_ in calls_in(drains[0].ast):
                if isinstance(c_.func, ast.Attribute) and \
                        isinstance(c_.func.value, ast.Name) and \
                        c_.func.value.id == "self" and \
                        c_.func.attr in ms_cls.methods and \
                        c_.func.attr != "flush_buffer":
                    h_ = ms_cls.methods[c_.func.attr]
                    if any(isinstance(x, ast.AugAssign) and
                           norm(x.target) in cnts for x in ast.walk(h_.node)):
                        und2 = True
        col.add(rule, fn, "gap filled then buffer flushed", ok2 or und2,
                "" if ok2 else ("the gap is filled by a method other than "
                                "append(); its entries are not checked here"
                                if und2 else
                                "the drain loop does not fill the gap with an "
                                "empty entry and flush"), node=drains[0].ast,
                undecided=und2 and not ok2)
        # the filler must be an empty entry at the next expected id
        fills = [c for c in calls_in(drains[0].ast)
                 if (call_name(c) or "").endswith("self.append")]
        if fills:
            a = fills[0].args
            okf = len(a) == 2 and isinstance(a[0], ast.Constant) and \
                a[0].value == b"" and norm(a[1]) == "self.next_cmc"
            col.add(rule, fn, "append(b'', self.next_cmc)", okf,
                    "" if okf else "gap filler is not a zero-length entry at "
                    "the next expected id", node=fills[0])
    # flush_buffer: loop while next id parked
    fb = inline_view(repo.func("sharded_file_accessor",
                               "MiniShard.flush_buffer"), keep=("append",))
    loops = [s for s in stmts_of(fb.node) if isinstance(s, ast.While)]
    other_loops = [s for s in stmts_of(fb.node)
                   if isinstance(s, ast.For) and
                   ("self." + bufattr) in norm(s.iter)]
    if not loops:
        # the loop may live in a generator of the class that flush_buffer
        # consumes (`for cmc, buf in self._ready_chunks(): self.append(...)`)
        from .core import resolve_local_call as _rl
        for s_ in stmts_of(fb.node):
            if isinstance(s_, ast.For) and isinstance(s_.iter, ast.Call):
                g_ = _rl(fb, s_.iter)
                if g_ is not None and any(isinstance(y, ast.Yield)
                                          for y in ast.walk(g_.node)):
                    loops = [w for w in stmts_of(g_.node)
                             if isinstance(w, ast.While)]
                    if loops:
                        fb = g_
                        break
    if not loops and not other_loops and any(
            isinstance(s_, ast.For) for s_ in stmts_of(fb.node)):
        other_loops = [s_ for s_ in stmts_of(fb.node)
                       if isinstance(s_, ast.For)]
    if not loops and other_loops:
        col.add(rule, fb, "while self.next_cmc in self._chunk_buffer", True,
                "flush_buffer walks the buffer in a form this rule does not "
                "interpret (%s)" % norm(other_loops[0].iter)[:50],
                node=other_loops[0], undecided=True)
        loops = None
    okl = loops is not None and bool(loops) and (norm(loops[0].test) in (
        "self.next_cmc in self." + bufattr,) or (
        isinstance(loops[0].test, ast.Compare) and
        isinstance(loops[0].test.ops[0], ast.In) and
        norm(loops[0].test.comparators[0]) == "self." + bufattr and
        isinstance(loops[0].test.left, ast.Name) and all(
            norm(d.value) == "self.next_cmc"
            for d in local_defs(fb.node).get(loops[0].test.left.id, [])
            if d.value is not None)))
    if loops is not None:
        col.add(rule, fb, "while self.next_cmc in self._chunk_buffer", okl,
                "" if okl else "flush_buffer does not loop while the next "
                "expected id is parked", node=loops[0] if loops else None,
                undecided=bool(loops) and not okl)
    if loops:
        pops = [c for c in calls_in(loops[0]) if _attr_call(c, "pop")]
        apps = [c for c in calls_in(loops[0])
                if (call_name(c) or "").endswith("self.append")]
        fdefs = local_defs(fb.node)

        def is_next(e):
            if norm(e) == "self.next_cmc":
                return True
            if isinstance(e, ast.Name):
                vs = [d.value for d in fdefs.get(e.id, []) if d.value is not None]
                return bool(vs) and all(norm(v) == "self.next_cmc" for v in vs)
            return False
        okp = bool(pops) and bool(apps) and pops[0].args and \
            is_next(pops[0].args[0]) and \
            len(apps[0].args) == 2 and is_next(apps[0].args[1]) and \
            (norm(pops[0].args[0]) == norm(apps[0].args[1]))
        col.add(rule, fb, "pop(next) -> append(buf, next)", okp,
                "" if okp else "the parked chunk is not appended under the id "
                "it was parked with", node=loops[0],
                undecided=not okp and not (pops and apps))
    # store path: appended iff can_be_appended, else parked under its own id
    st = repo.func("sharded_file_accessor", "MiniShard.store_cmc_chunk", inline=True)
    parked = [n for n in walk_local(st.node) if isinstance(n, ast.Assign)
              and isinstance(n.targets[0], ast.Subscript)
              and norm(n.targets[0].value) == "self." + bufattr]
    params = [p for p in st.params if p != "self"]
    okk = bool(parked) and norm(parked[0].targets[0].slice) == params[-1]
    col.add(rule, st, "self._chunk_buffer[cmc] = chunk", okk,
            "" if okk else "early arrivals are not parked under their own "
            "chunk id", node=parked[0] if parked else None)


# ---------------------------------------------------------------------
# O8: nothing the exit-time flush reads is itself removed at exit
# ---------------------------------------------------------------------
def exit_order(repo, col):
    """ShardedFileAccessor flushes from an atexit handler registered when the
    accessor is created.  Exit handlers run last-in-first-out, so anything
    registered later (a TemporaryDirectory object kept alive, a
    weakref.finalize, an atexit rmtree of a buffer directory) runs BEFORE
    the flush and destroys the buffered chunks."""
    rule = "E-ORDER.exit-order"
    m = repo.module("sharded_file_accessor")
    n = 0
    for cname in ("OnDiskBytesDict", "OnDiskByteArray", "MiniShard", "Shard"):
        ci = repo.cls("sharded_file_accessor", cname)
        for mname, fn in sorted(ci.methods.items()):
            for st in stmts_of(fn.node):
                bad = None
                if isinstance(st, (ast.Assign, ast.AnnAssign)):
                    v = st.value
                    tg = st.targets if isinstance(st, ast.Assign) else [st.target]
                    if isinstance(v, ast.Call) and \
                            (call_name(v) or "").endswith("TemporaryDirectory") \
                            and any(isinstance(t, ast.Attribute) for t in tg):
                        bad = "keeps a TemporaryDirectory object alive " \
                            "(removed by its finalizer at exit)"
                for c in calls_in(st) if not isinstance(
                        st, (ast.For, ast.While, ast.If, ast.With, ast.Try)) else []:
                    nm = call_name(c) or ""
                    if nm.endswith("weakref.finalize") or nm == "finalize":
                        bad = "registers a weakref.finalize clean-up"
                    if nm.endswith("atexit.register") and c.args and \
                            "rmtree" in norm(c.args[0]):
                        bad = "registers an atexit rmtree"
                if bad:
                    n += 1
                    col.add(rule, fn, norm(st)[:70], False,
                            "%s.%s %s: exit handlers run LIFO, so the buffer "
                            "directory disappears before the accessor's "
                            "atexit flush reads it and the shards are written "
                            "truncated or not at all" % (cname, mname, bad),
                            node=st)
    # positive anchor: the temporary directories are created by name only
    uses = 0
    for cname in ("OnDiskBytesDict", "OnDiskByteArray"):
        fn = repo.func("sharded_file_accessor", cname + ".__init__")
        for c in calls_in(fn.node):
            if (call_name(c) or "").endswith("TemporaryDirectory"):
                uses += 1
    col.add(rule, "sharded_file_accessor:OnDisk*", "%d buffer directories "
            "created, none registered for removal at exit" % uses, True,
            "buffers outlive the exit-time flush", nontrivial=uses > 0)
    return n
