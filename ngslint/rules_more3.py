"""Small closed-world rules added after the third breaking round.

Each is a necessary condition of the property it is listed under in
props.py, stated on the shape of the code; each fails only on positive
evidence of the wrong construct and prints UNDECIDED when the construct it
looks for is not there in a recognisable form."""
import ast

from .core import (AnalysisError, dotted, norm, walk_local, const_int,
                   stmts_of, calls_in, call_name, kwarg, enclosing_stmt_map,
                   helper_closure, resolve_local_call, PKG)
from .dataflow import local_defs, names_in, closure_names, holds


# ---------------------------------------------------------------------
def write_open_truncates(repo, col):
    """C12: a file that is opened to be (over)written must start empty:
    os.open flags need O_TRUNC (or O_EXCL / O_APPEND semantics), text modes
    must not be 'r+'.  Otherwise a shorter payload keeps the tail of the old
    file."""
    rule = "E-SIB.store.truncate"
    m = repo.module("file_accessor")
    n = 0
    for fn in m.functions.values():
        defs = local_defs(fn.node)
        for c in calls_in(fn.node):
            nm = m.resolve(call_name(c) or "") or ""
            if nm == "os.open" and len(c.args) >= 2:
                n += 1
                flags = set()
                stack = [c.args[1]]
                seen = set()
                while stack:
                    e = stack.pop()
                    for x in ast.walk(e):
                        if isinstance(x, ast.Attribute) and \
                                x.attr.startswith("O_"):
                            flags.add(x.attr)
                        elif isinstance(x, ast.Constant) and \
                                isinstance(x.value, str) and \
                                x.value.startswith("O_"):
                            flags.add(x.value)
                        elif isinstance(x, ast.Name) and x.id not in seen:
                            seen.add(x.id)
                            for d in defs.get(x.id, []):
                                if d.value is not None:
                                    stack.append(d.value)
                writes = flags & {"O_WRONLY", "O_RDWR"}
                ok = not writes or bool(flags & {"O_TRUNC", "O_APPEND"})
                col.add(rule, fn, norm(c)[:70], ok, "" if ok else
                        "the file is opened for writing with flags %s: "
                        "without O_TRUNC an existing longer file keeps its "
                        "tail after the new bytes (only the exclusive-create "
                        "path is safe)" % sorted(flags), node=c)
            is_open = nm in ("open", "io.open", "gzip.open") or (
                isinstance(c.func, ast.Attribute) and c.func.attr == "open")
            if is_open:
                mode = kwarg(c, "mode")
                cand = [a for a in c.args if isinstance(a, ast.Constant)
                        and isinstance(a.value, str)]
                if mode is None and cand:
                    mode = cand[-1] if nm != "gzip.open" or len(c.args) > 1 \
                        else None
                if isinstance(mode, ast.Constant) and isinstance(
                        mode.value, str) and "+" in mode.value and \
                        mode.value.startswith("r"):
                    n += 1
                    col.add(rule, fn, norm(c)[:70], False,
                            "mode %r updates the file in place: a shorter "
                            "payload leaves the tail of the old content"
                            % mode.value, node=c)
    return n


# ---------------------------------------------------------------------
def pil_truncation_switch(repo, col):
    """C18/C10: PIL's global LOAD_TRUNCATED_IMAGES switch makes the JPEG
    decoder fill in missing data instead of raising - a partially written
    chunk would decode to wrong voxels."""
    rule = "E-EXC.B.pil-truncated"
    hits = []
    for m in repo.modules.values():
        for n in ast.walk(m.tree):
            tgt = None
            if isinstance(n, ast.Assign):
                tgt = n.targets
            elif isinstance(n, ast.AugAssign):
                tgt = [n.target]
            for t in tgt or []:
                if isinstance(t, ast.Attribute) and \
                        t.attr == "LOAD_TRUNCATED_IMAGES":
                    val = n.value
                    if not (isinstance(val, ast.Constant)
                            and val.value is False):
                        hits.append((m, n))
                        repo.consulted.add(m.name)
    col.add(rule, "_jpeg:module", "PIL.ImageFile.LOAD_TRUNCATED_IMAGES stays "
            "off", not hits, "" if not hits else
            "%s sets PIL.ImageFile.LOAD_TRUNCATED_IMAGES: truncated JPEG "
            "chunks (interrupted writes) are then decoded to made-up voxel "
            "values instead of being rejected" % hits[0][0].short,
            loc="%s:%d" % (hits[0][0].relpath, hits[0][1].lineno)
            if hits else "")


# ---------------------------------------------------------------------
def dirty_cleared_after_write(repo, col):
    """C18/C05: Shard.close marks the shard clean only once everything has
    been written: no I/O call may follow `self.dirty = False`."""
    rule = "E-ORDER.clean-after-write"
    fn = repo.func("sharded_file_accessor", "Shard.close")
    cfg = fn.cfg()
    owner = enclosing_stmt_map(fn.node)
    clears = [st for st in stmts_of(fn.node) if isinstance(st, ast.Assign)
              and isinstance(st.targets[0], ast.Attribute)
              and isinstance(st.targets[0].value, ast.Name)
              and st.targets[0].value.id == "self"
              and isinstance(st.value, ast.Constant) and st.value.value is False
              and "dirty" in st.targets[0].attr]
    if not clears:
        col.add(rule, fn, "self.dirty = False", True, "no statement clears "
                "the dirty flag in Shard.close", undecided=True)
        return
    io = []
    for c in calls_in(fn.node):
        nm = call_name(c) or ""
        if nm in ("open",) or (isinstance(c.func, ast.Attribute) and
                               c.func.attr in ("write", "seek", "mkdir",
                                               "open", "close")):
            st = owner.get(id(c))
            n = cfg.node_of(st) if st is not None else None
            if n is not None:
                io.append((c, n))
    for st in clears:
        cn = cfg.node_of(st)
        reach = cfg.reachable(cn) if cn is not None else set()
        after = [c for c, n in io if n.id in reach and n is not cn]
        ok = not after
        col.add(rule, fn, norm(st), ok, "the shard is marked clean after the "
                "last write" if ok else
                "the shard is marked clean before `%s`: if that call fails, a "
                "later close() (retry, per-level flush, exit handler) skips "
                "the shard and its chunks are never written although close() "
                "returns normally" % norm(after[0])[:50], node=st)


# ---------------------------------------------------------------------
def new_dataset_store_failure(repo, col):
    """C19/C18: creating a dataset fails when its info cannot be stored; a
    handler around the store that carries on (for instance because an info
    'with the same scales' exists) lets a second run write chunks that do not
    match the stored info."""
    rule = "E-EXC.B.new-dataset"
    fn = repo.func("precomputed_io", "get_IO_for_new_dataset")
    n = 0
    for st in stmts_of(fn.node):
        if not isinstance(st, ast.Try):
            continue
        stores = [c for s_ in st.body for c in calls_in(s_)
                  if isinstance(c.func, ast.Attribute)
                  and c.func.attr == "store_file"]
        if not stores:
            continue
        for h in st.handlers:
            n += 1
            from .core import block_always_raises
            ok = block_always_raises(h.body)
            col.add(rule, fn, "except %s around store_file('info')"
                    % norm(h.type), ok, "" if ok else
                    "a failure to store the info is not always propagated: "
                    "the dataset is then written under an info that was not "
                    "stored by this call", node=h)
    if n == 0:
        col.add(rule, fn, "store_file('info') unguarded", True,
                "failures of the info store propagate (no handler)",
                nontrivial=False)


# ---------------------------------------------------------------------
def resolution_from_affine(repo, col):
    """C16: the resolution written to the info and the scaling removed from
    the transform are the same quantity - the voxel sizes of the affine."""
    rule = "E-SPEC.resolution-source"
    fn = repo.func("volume_reader", "nibabel_image_to_info")
    bad = []
    src_ok = False
    for h in helper_closure(fn):
        hdefs = local_defs(h.node)
        # names that hold header zooms / pixdim values, and what is computed
        # from them
        tainted = set()
        for name, ds in hdefs.items():
            for d in ds:
                if d.value is not None and (
                        "get_zooms" in norm(d.value) or
                        "pixdim" in norm(d.value)):
                    tainted.add(name)
        for _ in range(4):
            for name, ds in hdefs.items():
                if name in tainted:
                    continue
                if any(d.value is not None and names_in(d.value) & tainted
                       for d in ds):
                    tainted.add(name)

        def used_for_output(node_):
            """The header value reaches what the function hands out: a
            return value, or the text of the info / transform."""
            for x in ast.walk(h.node):
                if isinstance(x, ast.Return) and x.value is not None and (
                        names_in(x.value) & tainted or any(
                            y is node_ for y in ast.walk(x.value))):
                    return True
                if isinstance(x, ast.JoinedStr) and (
                        any(isinstance(v, ast.FormattedValue) and (
                            names_in(v.value) & tainted or
                            any(y is node_ for y in ast.walk(v.value)))
                            for v in x.values)) and \
                        "resolution" in norm(x):
                    return True
                if isinstance(x, ast.Dict) and any(
                        isinstance(k, ast.Constant) and k.value == "resolution"
                        and (names_in(v) & tainted or
                             any(y is node_ for y in ast.walk(v)))
                        for k, v in zip(x.keys, x.values)):
                    return True
            return False
        for c in calls_in(h.node):
            nm = call_name(c) or ""
            if (nm.endswith("get_zooms") or "pixdim" in norm(c)) and \
                    used_for_output(c):
                bad.append((h, c))
            if nm.endswith("voxel_sizes"):
                src_ok = True
        for n in walk_local(h.node):
            if isinstance(n, ast.Subscript) and "pixdim" in norm(n) and \
                    used_for_output(n):
                bad.append((h, n))
    ok = src_ok and not bad
    col.add(rule, fn, "voxel size = nibabel.affines.voxel_sizes(affine)",
            ok or (not bad and not src_ok), "" if ok else
            "voxel sizes are read from the header's pixdim (%s) while the "
            "transform is derived from the affine: for files whose affine "
            "was edited the resolution and the transform disagree"
            % (norm(bad[0][1])[:50] if bad else "-"),
            node=bad[0][1] if bad else None, undecided=not bad and not src_ok)


# ---------------------------------------------------------------------
def multichannel_table_agrees(repo, col):
    """C16/C01: the channel count appended for structured (multi-channel)
    voxels equals the number of fields every accepted structured type has."""
    rule = "E-TABLE.multichannel"
    dt = repo.module("data_types")
    tab = dt.const("NG_MULTICHANNEL_DATATYPES")
    lens = None
    if isinstance(tab, (ast.Tuple, ast.List)) and all(
            isinstance(e, (ast.Tuple, ast.List)) for e in tab.elts):
        lens = sorted({len(e.elts) for e in tab.elts})
    vr = repo.module("volume_reader")
    lits = []
    for fn in vr.functions.values():
        for n in walk_local(fn.node):
            # shape + (3,)
            if isinstance(n, ast.BinOp) and isinstance(n.op, ast.Add) and \
                    isinstance(n.right, ast.Tuple) and len(n.right.elts) == 1 \
                    and const_int(n.right.elts[0]) is not None and \
                    "shape" in norm(n.left):
                lits.append((fn, n, const_int(n.right.elts[0])))
    if lens is None or not lits:
        col.add(rule, "data_types:NG_MULTICHANNEL_DATATYPES",
                "field count vs appended channel count", True,
                "table or literal channel count not found", undecided=True)
        return
    for fn, n, k in lits:
        ok = lens == [k]
        col.add(rule, fn, norm(n)[:60], ok, "" if ok else
                "structured voxel types with %s fields are accepted "
                "(NG_MULTICHANNEL_DATATYPES) but the info always declares %d "
                "channels" % (lens, k), node=n)


# ---------------------------------------------------------------------
def label_parsed_as_integer(repo, col):
    """C17: segment labels are 64-bit identifiers; parsing them through
    float() rounds identifiers above 2**53 and files the link under another
    label."""
    rule = "E-SPEC.mesh.label-int"
    fn = repo.func("scripts.link_mesh_fragments", "make_mesh_fragment_links")
    floats = []
    ints = []
    for h in helper_closure(fn):
        for c in calls_in(h.node):
            nm = call_name(c) or ""
            if nm == "float" or nm.endswith(".float64") or \
                    nm.endswith(".float_"):
                floats.append((h, c))
            if nm == "int":
                ints.append((h, c))
    ok = not floats
    col.add(rule, fn, "labels parsed with int()", ok or not ints,
            "" if ok else "a table cell is converted with %s on the way to "
            "the label: identifiers above 2**53 are rounded to another "
            "label" % norm(floats[0][1])[:40],
            node=floats[0][1] if floats else None,
            undecided=not ints and ok)


# ---------------------------------------------------------------------
def squeeze_without_axis(repo, col, shorts):
    """C15/C01: np.squeeze / .squeeze() without an axis drops EVERY length-1
    axis; on image blocks a legitimate extent of one (a single slice, a
    one-voxel border) disappears and later indexing hits the wrong axis."""
    rule = "E-AXIS.squeeze"
    n = 0
    for ms in shorts:
        m = repo.module(ms)
        for fn in m.functions.values():
            for c in calls_in(fn.node):
                nm = m.resolve(call_name(c) or "") or ""
                is_sq = nm == "numpy.squeeze" or (
                    isinstance(c.func, ast.Attribute)
                    and c.func.attr == "squeeze")
                if not is_sq:
                    continue
                n += 1
                has_axis = kwarg(c, "axis") is not None or (
                    nm == "numpy.squeeze" and len(c.args) >= 2) or (
                    nm != "numpy.squeeze" and len(c.args) >= 1)
                col.add(rule, fn, norm(c)[:60], has_axis, "" if has_axis else
                        "squeeze without an axis removes every axis of "
                        "length one, including a spatial axis whose extent "
                        "happens to be 1 (single slice / one-voxel chunk)",
                        node=c)
    if n == 0:
        col.add(rule, "%s:module" % shorts[0], "no squeeze of image blocks",
                True, "", nontrivial=False)
    return n


# ---------------------------------------------------------------------
def stats_bytes_include_channels(repo, col):
    """C20: the reported uncompressed size counts every channel: the product
    prod(size) * itemsize has a third factor that comes from
    info['num_channels'] (followed through a helper's parameter to the value
    the caller passes, or its default)."""
    rule = "E-TILE.stats.channels"
    top = repo.func("scripts.scale_stats", "show_scales_info")
    fns = helper_closure(top, depth=2)
    callers = {}
    for f in fns:
        for c in calls_in(f.node):
            h = resolve_local_call(f, c)
            if h is not None and h is not f:
                callers.setdefault(h.key, []).append((f, c))

    def from_channels(f, expr, depth=0):
        """True / False / None: does expr carry info['num_channels']?"""
        t = norm(expr)
        if "['num_channels']" in t:
            return True
        if isinstance(expr, ast.Constant):
            return False
        if isinstance(expr, ast.Name) and depth < 3:
            defs = local_defs(f.node)
            ds = [d for d in defs.get(expr.id, []) if d.value is not None]
            if ds:
                rs = [from_channels(f, d.value, depth + 1) for d in ds]
                if all(r is True for r in rs):
                    return True
                if any(r is False for r in rs):
                    return False
                return None
            if expr.id in f.params:
                rs = []
                a = f.node.args
                allp = [x.arg for x in a.posonlyargs + a.args]
                dflt = dict(zip(allp[len(allp) - len(a.defaults):],
                                a.defaults))
                for cf, c in callers.get(f.key, []):
                    idx = f.params.index(expr.id)
                    if f.params and f.params[0] in ("self", "cls") and \
                            isinstance(c.func, ast.Attribute):
                        idx -= 1
                    arg = c.args[idx] if 0 <= idx < len(c.args) else None
                    for k in c.keywords:
                        if k.arg == expr.id:
                            arg = k.value
                    if arg is None:
                        arg = dflt.get(expr.id)
                    if arg is None:
                        rs.append(None)
                    else:
                        rs.append(from_channels(cf, arg, depth + 1))
                if rs and all(r is True for r in rs):
                    return True
                if any(r is False for r in rs):
                    return False
        return None

    n = 0
    for f in fns:
        for node in walk_local(f.node):
            if not (isinstance(node, ast.BinOp) and
                    isinstance(node.op, ast.Mult)):
                continue
            factors = []

            def flat(e):
                if isinstance(e, ast.BinOp) and isinstance(e.op, ast.Mult):
                    flat(e.left)
                    flat(e.right)
                else:
                    factors.append(e)
            flat(node)
            has_prod = any(isinstance(x, ast.Call) and
                           (call_name(x) or "").endswith("prod")
                           for x in factors)
            has_item = any(isinstance(x, ast.Attribute) and
                           x.attr == "itemsize" for x in factors)
            if not (has_prod and has_item):
                continue
            others = [x for x in factors if not (
                isinstance(x, ast.Call) and (call_name(x) or "").endswith(
                    "prod")) and not (isinstance(x, ast.Attribute)
                                      and x.attr == "itemsize")]
            n += 1
            verdicts = [from_channels(f, x) for x in others]
            ok = any(v is True for v in verdicts)
            bad = not ok and (not others or all(v is False for v in verdicts))
            col.add(rule, f, norm(node)[:70], ok or not bad, "" if ok else
                    "the uncompressed size does not include the channel "
                    "count of the dataset (factor(s) %s): multi-channel "
                    "datasets are under-reported"
                    % [norm(x) for x in others], node=node,
                    undecided=not ok and not bad)
            break
    if n == 0:
        col.add(rule, top, "prod(size) * itemsize * channels", True,
                "byte-size product not recognised", undecided=True)


# ---------------------------------------------------------------------
def cseg_bit_order(repo, col):
    """C02: value k of a 32-bit word sits at bit k*bits counted from the
    least significant bit.  numpy.packbits / unpackbits work MSB-first unless
    bitorder='little' is given, so using them for the 1-bit case mirrors every
    group of eight voxels for any other decoder."""
    rule = "E-SPEC.cseg.bit-order"
    m = repo.module("_compressed_segmentation")
    n = 0
    for fn in m.functions.values():
        for c in calls_in(fn.node):
            nm = m.resolve(call_name(c) or "") or ""
            if nm in ("numpy.packbits", "numpy.unpackbits"):
                n += 1
                bo = kwarg(c, "bitorder")
                ok = isinstance(bo, ast.Constant) and bo.value == "little"
                col.add(rule, fn, norm(c)[:70], ok, "" if ok else
                        "%s packs bits most-significant first by default; "
                        "the format stores value k at bit k*bits from the "
                        "least significant end" % nm.split(".")[-1], node=c)
    if n == 0:
        col.add(rule, "_compressed_segmentation:module", "no byte-wise bit "
                "packing", True, "", nontrivial=False)


# ---------------------------------------------------------------------
def all_in_one_info_edits(repo, col):
    """C19: the all-in-one command hands the info from stage to stage exactly
    as the separate commands do through their files; an edit of the info made
    by the driver itself (pop / del / item assignment) has no counterpart in
    the step-by-step pipeline."""
    rule = "E-SIB.pipeline.info-edits"
    from .rules_sib import STAGES
    top = repo.func("scripts.volume_to_precomputed_pyramid",
                    "volume_to_precomputed_pyramid")
    edits = []
    for h in helper_closure(top):
        if h.qualname.split(".")[-1] in STAGES or \
                h.module is not top.module:
            continue
        # names that hold the info: results of json.loads / named info
        defs = local_defs(h.node)
        infos = {nm for nm, ds in defs.items() for d in ds
                 if d.value is not None and "json.loads" in norm(d.value)}
        infos |= {p_ for p_ in h.params if p_ == "info"}
        for n in walk_local(h.node):
            if isinstance(n, ast.Call) and isinstance(n.func, ast.Attribute) \
                    and n.func.attr in ("pop", "update", "setdefault",
                                        "clear", "__setitem__",
                                        "__delitem__") \
                    and isinstance(n.func.value, ast.Name) and \
                    n.func.value.id in infos:
                edits.append((h, n))
            if isinstance(n, ast.Delete):
                for t in n.targets:
                    if isinstance(t, ast.Subscript) and isinstance(
                            t.value, ast.Name) and t.value.id in infos:
                        edits.append((h, n))
            if isinstance(n, ast.Assign):
                for t in n.targets:
                    if isinstance(t, ast.Subscript) and isinstance(
                            t.value, ast.Name) and t.value.id in infos:
                        edits.append((h, n))
    ok = not edits
    col.add(rule, top, "the driver does not edit the info between stages", ok,
            "" if ok else "`%s` changes the info inside the all-in-one "
            "command only: the stages then see a different info than in the "
            "step-by-step pipeline" % norm(edits[0][1])[:60],
            node=edits[0][1] if edits else None)


# ---------------------------------------------------------------------
_FMT_RE = None


def little_endian_literals(repo, col, shorts):
    """Every binary format this package reads or writes (precomputed chunks,
    compressed_segmentation, sharded indices, precomputed meshes) is
    little-endian.  A struct format or dtype literal with an explicit
    big-endian / network byte order in those modules is wrong for all of
    them."""
    import re
    rule = "E-SPEC.little-endian"
    pat = re.compile(r"^[>!][0-9]*[A-Za-z][A-Za-z0-9]*$")
    hits = []
    n = 0
    for ms in shorts:
        if ms not in ("_compressed_segmentation", "chunk_encoding", "mesh",
                      "sharded_base", "sharded_file_accessor",
                      "sharded_http_accessor", "volume_reader", "data_types",
                      "scripts.slices_to_precomputed",
                      "scripts.convert_chunks"):
            continue
        m = repo.module(ms)
        for node in ast.walk(m.tree):
            if isinstance(node, ast.Constant) and isinstance(node.value, str) \
                    and 2 <= len(node.value) <= 8:
                if re.match(r"^[<>!=@][0-9]*[A-Za-z][A-Za-z0-9]*$",
                            node.value):
                    n += 1
                if pat.match(node.value):
                    hits.append((m, node))
            # .newbyteorder('>') / byteorder='big'
            if isinstance(node, ast.Call) and isinstance(
                    node.func, ast.Attribute) and \
                    node.func.attr == "newbyteorder" and node.args and \
                    isinstance(node.args[0], ast.Constant) and \
                    node.args[0].value in (">", "B", "big"):
                hits.append((m, node))
            if isinstance(node, ast.keyword) and node.arg == "byteorder" and \
                    isinstance(node.value, ast.Constant) and \
                    node.value.value == "big":
                hits.append((m, node))
    if not n and not hits:
        return
    ok = not hits
    col.add(rule, "%s:module" % (hits[0][0].short if hits else shorts[0]),
            "%d byte-order literals, none big-endian" % n, ok, "" if ok else
            "big-endian / network byte order literal %s in a little-endian "
            "format codec" % norm(hits[0][1])[:30],
            loc="%s:%d" % (hits[0][0].relpath, hits[0][1].lineno)
            if hits else "", nontrivial=False)


# ---------------------------------------------------------------------
SINK_ATTRS = {"write", "store_chunk", "store_file", "store_cmc_chunk",
              "append", "extend", "writelines", "send", "sendall",
              "write_chunk"}


def _payload_sinks(fn, param, depth=0):
    """CFG nodes of fn at which a value derived from `param` is handed on:
    passed to a writing / storing method, to a local helper that itself hands
    it on on every path, stored into a container item or appended to an
    attribute."""
    from .dataflow import local_defs as _ld
    defs = _ld(fn.node)
    derived = {param}
    changed = True
    while changed:
        changed = False
        for nm, ds in defs.items():
            if nm in derived:
                continue
            for d in ds:
                if d.value is not None and names_in(d.value) & derived:
                    derived.add(nm)
                    changed = True
    cfg = fn.cfg()
    owner = enclosing_stmt_map(fn.node)
    out = []

    def mentions(e):
        return bool(names_in(e) & derived)
    for st in stmts_of(fn.node):
        hit = False
        if isinstance(st, ast.AugAssign) and mentions(st.value) and \
                isinstance(st.target, (ast.Attribute, ast.Subscript)):
            hit = True
        if isinstance(st, ast.Assign) and mentions(st.value) and any(
                isinstance(t, ast.Subscript) for t in st.targets):
            hit = True
        n = cfg.node_of(st)
        if hit and n is not None:
            out.append(n)
    for c in calls_in(fn.node):
        args = list(c.args) + [k.value for k in c.keywords]
        if not any(mentions(a) for a in args):
            continue
        hit = isinstance(c.func, ast.Attribute) and c.func.attr in SINK_ATTRS
        if not hit and depth < 3:
            h = resolve_local_call(fn, c)
            if h is not None and h is not fn:
                hp = list(h.params)
                if hp and hp[0] in ("self", "cls") and isinstance(
                        c.func, ast.Attribute):
                    hp = hp[1:]
                for i, a in enumerate(c.args):
                    if mentions(a) and i < len(hp):
                        hs = _payload_sinks(h, hp[i], depth + 1)
                        hcfg = h.cfg()
                        if hs and hcfg.every_path_passes(hcfg.entry,
                                                         hcfg.exit, hs):
                            hit = True
        if hit:
            st = owner.get(id(c))
            n = cfg.node_of(st) if st is not None else None
            if n is not None:
                out.append(n)
    return out


STORE_CHAIN = [
    ("file_accessor", "FileAccessor.store_file", 1),
    ("file_accessor", "FileAccessor.store_chunk", 0),
    ("precomputed_io", "PrecomputedIO.write_chunk", 0),
    ("sharded_file_accessor", "ShardedFileAccessor.store_chunk", 0),
    ("sharded_file_accessor", "ShardedFileAccessor.store_file", 1),
    ("sharded_base", "ShardedScaleBase.store_chunk", 0),
    ("sharded_file_accessor", "Shard.store_cmc_chunk", 0),
    ("sharded_file_accessor", "MiniShard.store_cmc_chunk", 0),
    ("sharded_file_accessor", "MiniShard.append", 0),
    ("sharded_file_accessor", "OnDiskBytesDict.__setitem__", 1),
    ("sharded_file_accessor", "OnDiskByteArray.__add__", 0),
    ("sharded_file_accessor", "OnDiskByteArray.__iadd__", 0),
]


def payload_reaches_storage(repo, col, only=None):
    """C12/C03/C05/...: a store operation that returns normally has handed
    its payload on - to a write, to the next layer's store, into the reorder
    buffer - on every path.  (A path that returns without doing so drops the
    data silently.)"""
    rule = "E-ORDER.payload-stored"
    n = 0
    for ms, qn, pos in STORE_CHAIN:
        if only is not None and ms not in only:
            continue
        if not repo.has_func(ms, qn):
            continue
        fn = repo.func(ms, qn)
        params = [p_ for p_ in fn.params if p_ not in ("self", "cls")]
        if pos >= len(params):
            continue
        pname = params[pos]
        sinks = _payload_sinks(fn, pname)
        cfg = fn.cfg()
        n += 1
        if not sinks:
            col.add(rule, fn, "%s handed on" % pname, True, "no write / store "
                    "/ append of `%s` recognised in %s" % (pname, fn.key),
                    undecided=True)
            continue
        ok = cfg.every_path_passes(cfg.entry, cfg.exit, sinks)
        path = None
        if not ok:
            p_ = cfg.path(cfg.entry, cfg.exit, avoiding=sinks)
            path = [norm(x.ast)[:50] if x.ast is not None else x.label
                    for x in (p_ or [])]
        col.add(rule, fn, "%s handed on on every normal path" % pname, ok,
                "" if ok else "a path returns normally without writing / "
                "storing / queuing `%s`: the data is dropped while the call "
                "reports success" % pname, path=path)
    return n


# ---------------------------------------------------------------------
def _tests_enclosing(fnode, target):
    """[(test, truth)] of the if-statements enclosing `target` statement or
    expression owner."""
    found = []

    def visit(stmts, ctx):
        for st in stmts:
            if st is target:
                found.append(list(ctx))
                return True
            if isinstance(st, ast.If):
                if visit(st.body, ctx + [(st.test, True)]) or \
                        visit(st.orelse, ctx + [(st.test, False)]):
                    return True
            elif not isinstance(st, (ast.FunctionDef, ast.AsyncFunctionDef,
                                     ast.ClassDef)):
                for field in ("body", "orelse", "finalbody"):
                    sub = getattr(st, field, None)
                    if isinstance(sub, list) and sub and \
                            isinstance(sub[0], ast.stmt) and visit(sub, ctx):
                        return True
                for h in getattr(st, "handlers", []) or []:
                    if visit(h.body, ctx):
                        return True
        return False
    visit(fnode.body, [])
    return found[0] if found else None


def gzip_branch_polarity(repo, col):
    """C12: bytes go through gzip (to <name>.gz) exactly when compression is
    on and the MIME type is not exempt; the plain write is the other arm."""
    rule = "E-SIB.store.gzip-branch"
    from .core import inline_view
    for mname in ("store_file", "store_chunk"):
        fn = repo.func("file_accessor", "FileAccessor." + mname, inline=True)
        owner = enclosing_stmt_map(fn.node)
        n = 0
        for c in calls_in(fn.node):
            nm = fn.module.resolve(call_name(c) or "") or ""
            is_gz = nm == "gzip.open"
            is_plain = (isinstance(c.func, ast.Attribute)
                        and c.func.attr == "open" and nm != "gzip.open") \
                or nm == "open"
            if not (is_gz or is_plain):
                continue
            st = owner.get(id(c))
            ctx = _tests_enclosing(fn.node, st) if st is not None else None
            if ctx is None:
                continue
            rel = [(t, tr) for t, tr in ctx if "gzip" in norm(t)
                   or "NO_COMPRESS" in norm(t)]
            if not rel:
                continue
            n += 1
            t, tr = rel[-1]
            # a plain open whose file object is handed to gzip.GzipFile(
            # fileobj=...) is the raw file *under* the gzip writer
            if is_plain:
                wrapped = False
                for c2 in calls_in(fn.node):
                    nm2 = fn.module.resolve(call_name(c2) or "") or ""
                    if nm2 in ("gzip.GzipFile", "gzip.open") and (
                            kwarg(c2, "fileobj") is not None or any(
                                any(y is c for y in walk_local(a_))
                                for a_ in c2.args)):
                        st2 = owner.get(id(c2))
                        ctx2 = _tests_enclosing(fn.node, st2) \
                            if st2 is not None else None
                        if ctx2 is not None and [(norm(x), y) for x, y in
                                                 ctx2] == [(norm(x), y)
                                                           for x, y in ctx]:
                            wrapped = True
                if wrapped:
                    continue
            atoms = holds(t, tr)
            # positive form: self.gzip truthy and mime not in exempt set
            says_compress = any(a.op == "truthy" and "gzip" in norm(a.left)
                                for a in atoms) and any(
                a.op == "not in" and "NO_COMPRESS" in norm(a.right)
                for a in atoms)
            says_plain_possible = not says_compress
            ok = says_compress if is_gz else says_plain_possible
            col.add(rule, fn, "%s under %s`%s`" % (
                "gzip.open" if is_gz else "plain open",
                "" if tr else "not ", norm(t)[:50]), ok, "" if ok else
                ("the gzip writer is used on the arm where compression is "
                 "off or the MIME type is exempt" if is_gz else
                 "the plain writer is used on the arm where compression "
                 "applies: files land under the wrong name / encoding"),
                node=c)
        if n == 0:
            col.add(rule, fn, "gzip / plain arms", True, "write arms not "
                    "under a test on self.gzip / NO_COMPRESS_MIME_TYPES",
                    undecided=True)


# ---------------------------------------------------------------------
def legacy_suffix_polarity(repo, col):
    """C14: a legacy shard is split in <n>.index (offsets below the index
    length) and <n>.data (the rest); a modern one is <n>.shard.  The suffix
    chosen for a read must sit on the matching arm."""
    rule = "E-EXC.B.http.legacy-suffix"
    for ms, qn in (("sharded_http_accessor", "HttpShard.read_bytes"),
                   ("sharded_file_accessor", "Shard.read_bytes")):
        if not repo.has_func(ms, qn):
            continue
        fn = repo.func(ms, qn)
        n = 0
        for h in helper_closure(fn):
            owner = enclosing_stmt_map(h.node)
            for node in walk_local(h.node):
                if not (isinstance(node, ast.Constant) and
                        node.value in (".index", ".data", ".shard")):
                    continue
                st = owner.get(id(node))
                ctx = _tests_enclosing(h.node, st) if st is not None else None
                if ctx is None:
                    continue
                n += 1
                legacy = None
                below = None
                for t, tr in ctx:
                    for a in holds(t, tr):
                        for b in (a, a.flipped()):
                            if "is_legacy" in norm(b.left) and \
                                    b.op in ("truthy", "falsy"):
                                legacy = b.op == "truthy"
                            if "header_byte_length" in norm(b.right) and \
                                    b.op in ("<", ">="):
                                below = b.op == "<"
                want = {".shard": (False, None), ".index": (True, True),
                        ".data": (True, False)}[node.value]
                bad = (legacy is not None and want[0] != legacy) or (
                    below is not None and want[1] is not None
                    and want[1] != below)
                und = not bad and legacy is None
                col.add(rule, h, "%s under legacy=%s below-index=%s"
                        % (node.value, legacy, below), not bad,
                        "" if not bad else "suffix %s is chosen on the wrong "
                        "arm (legacy=%s, offset below index length=%s): the "
                        "bytes are read from the wrong file"
                        % (node.value, legacy, below), node=node,
                        undecided=und)
        if n == 0:
            col.add(rule, fn, "suffix arms", True, "file suffixes not found "
                    "under tests", undecided=True)


# ---------------------------------------------------------------------
def downscaler_dispatch(repo, col):
    """C06/C07: the method name selects the documented downscaler class, and
    an outside value selects constant padding (none selects edge padding)."""
    rule = "E-SIB.tables.downscaler"
    fn = repo.func("downscaling", "get_downscaler")
    want = {"stride": "StridingDownscaler", "average": "AveragingDownscaler",
            "majority": "MajorityDownscaler"}
    owner = enclosing_stmt_map(fn.node)
    seen = 0
    for c in calls_in(fn.node):
        nm = call_name(c) or ""
        if nm not in want.values():
            continue
        st = owner.get(id(c))
        ctx = _tests_enclosing(fn.node, st) if st is not None else None
        if not ctx:
            continue
        method = None
        for t, tr in ctx:
            for a in holds(t, tr):
                for b in (a, a.flipped()):
                    if b.op == "==" and isinstance(b.right, ast.Constant) \
                            and b.right.value in want:
                        method = b.right.value
        if method is None:
            continue
        seen += 1
        ok = want[method] == nm
        col.add(rule, fn, "%s -> %s" % (method, nm), ok, "" if ok else
                "downscaling method %r constructs %s (documented: %s)"
                % (method, nm, want[method]), node=c)
    if seen == 0:
        col.add(rule, fn, "method -> class", True, "dispatch not in an "
                "if/elif on the method name", undecided=True)
    ini = repo.func("downscaling", "AveragingDownscaler.__init__")
    owner = enclosing_stmt_map(ini.node)
    for node in walk_local(ini.node):
        if isinstance(node, ast.Constant) and node.value in ("edge",
                                                             "constant"):
            st = owner.get(id(node))
            ctx = _tests_enclosing(ini.node, st) if st is not None else None
            if not ctx:
                continue
            is_none = None
            for t, tr in ctx:
                for a in holds(t, tr):
                    if a.op in ("is", "is not") and norm(a.right) == "None" \
                            and "outside" in norm(a.left):
                        is_none = a.op == "is"
            if is_none is None:
                continue
            ok = (node.value == "edge") == is_none
            col.add(rule, ini, "padding %r when outside value is %s"
                    % (node.value, "None" if is_none else "given"), ok,
                    "" if ok else "padding mode %r is selected when the "
                    "outside value is %s" % (node.value, "absent" if is_none
                                             else "given"), node=node)


# ---------------------------------------------------------------------
def seek_before_read(repo, col):
    """C05/C14: a byte range of a shard is read at its offset: every path to
    `fp.read(length)` in Shard.read_bytes passes `fp.seek(<offset>)`."""
    rule = "E-ORDER.seek-before-read"
    fn = repo.func("sharded_file_accessor", "Shard.read_bytes", inline=True)
    cfg = fn.cfg()
    owner = enclosing_stmt_map(fn.node)
    params = [p_ for p_ in fn.params if p_ != "self"]
    off = params[0] if params else "offset"
    defs = local_defs(fn.node)
    seeks, reads = [], []
    for c in calls_in(fn.node):
        if isinstance(c.func, ast.Attribute) and c.func.attr == "seek" and \
                c.args and off in closure_names(fn.node, names_in(c.args[0]),
                                                defs) | names_in(c.args[0]):
            n = cfg.node_of(owner.get(id(c)))
            if n is not None:
                seeks.append(n)
        if isinstance(c.func, ast.Attribute) and c.func.attr == "read" and \
                c.args:
            n = cfg.node_of(owner.get(id(c)))
            if n is not None:
                reads.append((c, n))
    if not reads:
        col.add(rule, fn, "fp.seek(offset); fp.read(length)", True,
                "no sized read recognised (os.pread / mmap?)", undecided=True)
        return
    for c, n in reads:
        ok = bool(seeks) and cfg.every_path_passes(cfg.entry, n, seeks)
        col.add(rule, fn, norm(c)[:50], ok, "" if ok else
                "bytes are read without first seeking to the requested "
                "offset: every range is read from the start of the file",
                node=c)


# ---------------------------------------------------------------------
def probe_statuses(repo, col):
    """C14/C18: an existence probe answers 'absent' only for 404; any other
    failure status is raised, not reported as 'missing'."""
    from .rules_more4 import probe_raises_for_failures
    probe_raises_for_failures(repo, col, "http_accessor",
                              "HttpAccessor.file_exists")


# ---------------------------------------------------------------------
def new_dataset_stores_info(repo, col):
    """C01/C03/C13/C19: creating a dataset writes its info file: every normal
    path of get_IO_for_new_dataset passes accessor.store_file('info', ...)."""
    rule = "E-ORDER.new-dataset-info"
    fn = repo.func("precomputed_io", "get_IO_for_new_dataset", inline=True)
    cfg = fn.cfg()
    owner = enclosing_stmt_map(fn.node)
    stores = []
    for c in calls_in(fn.node):
        if isinstance(c.func, ast.Attribute) and c.func.attr == "store_file" \
                and c.args and "info" in norm(c.args[0]).lower():
            n = cfg.node_of(owner.get(id(c)))
            if n is not None:
                stores.append(n)
    if not stores:
        # a helper may do it
        from .core import nodes_passing
        base = getattr(fn, "inlined_from", fn)
        stores = nodes_passing(
            base, lambda c: isinstance(c.func, ast.Attribute)
            and c.func.attr == "store_file")
        cfg = base.cfg()
        fn = base
    ok = bool(stores) and cfg.every_path_passes(cfg.entry, cfg.exit, stores)
    col.add(rule, fn, "store_file('info', ...) on every normal path", ok,
            "" if ok else "a new dataset can be handed out without its info "
            "file having been stored: nothing written afterwards can be read "
            "back")


# ---------------------------------------------------------------------
def decoder_fills_output(repo, col):
    """C02/C03/C10: the array allocated for a compressed_segmentation chunk is
    uninitialised memory until every channel has been decoded into it:
    decode_chunk_into hands `chunk` to the per-channel decoder inside its
    channel loop, and that decoder stores into it."""
    rule = "E-SPEC.cseg.output-filled"
    fn = repo.func("_compressed_segmentation", "decode_chunk_into")
    params = fn.params
    out = params[0] if params else "chunk"

    unresolved = [False]

    def writes_into(f, name, depth=0):
        # views: v = name[...]  /  v = name
        fdefs = local_defs(f.node)
        aliases = {name}
        changed = True
        while changed:
            changed = False
            for nm_, ds in fdefs.items():
                if nm_ in aliases:
                    continue
                for d in ds:
                    v = d.value
                    while isinstance(v, ast.Subscript):
                        v = v.value
                    if isinstance(v, ast.Name) and v.id in aliases and \
                            d.value is not None and isinstance(
                                d.value, (ast.Subscript, ast.Name)):
                        aliases.add(nm_)
                        changed = True
        for al in aliases - {name}:
            if _stores_into(f, al):
                return True
        if _stores_into(f, name):
            return True
        if depth < 3:
            def base(a):
                # a view of the array (chunk[channel]) is the array
                while isinstance(a, ast.Subscript):
                    a = a.value
                return a
            for c in calls_in(f.node):
                if not any(isinstance(base(a), ast.Name) and
                           base(a).id in aliases for a in c.args):
                    continue
                h = resolve_local_call(f, c)
                if h is None or h is f:
                    if (call_name(c) or "").split(".")[-1] not in (
                            "len", "isinstance", "print", "range", "ceil_div",
                            "min", "max", "prod"):
                        unresolved[0] = True
                    continue
                hp = list(h.params)
                for i, a in enumerate(c.args):
                    a = base(a)
                    if isinstance(a, ast.Name) and a.id in aliases and \
                            i < len(hp) and writes_into(h, hp[i], depth + 1):
                        return True
        return False

    def _stores_into(f, name):
        for n in walk_local(f.node):
            if isinstance(n, (ast.Assign, ast.AugAssign)):
                tg = n.targets if isinstance(n, ast.Assign) else [n.target]
                for t in tg:
                    b = t
                    while isinstance(b, ast.Subscript):
                        b = b.value
                    if isinstance(t, ast.Subscript) and \
                            isinstance(b, ast.Name) and b.id == name:
                        return True
            if isinstance(n, ast.Call) and kwarg(n, "out") is not None and \
                    name in names_in(kwarg(n, "out")):
                return True
        return False
    ok = writes_into(fn, out)
    col.add(rule, fn, "decoded blocks are stored into `%s`" % out,
            ok or unresolved[0],
            "" if ok else "decode_chunk_into never stores into its output "
            "array (directly or through the per-channel decoder): the caller "
            "gets uninitialised memory", undecided=not ok and unresolved[0])


# ---------------------------------------------------------------------
DRIVER_CHAIN = [
    # (module, function, call that must be reached on every normal path)
    ("volume_reader", "volume_file_to_precomputed",
     "nibabel_image_to_precomputed"),
    ("volume_reader", "nibabel_image_to_precomputed", "volume_to_precomputed"),
    ("volume_reader", "store_nibabel_image_to_fullres_info", "store_file"),
    ("scripts.compute_scales", "compute_scales", "compute_dyadic_scales"),
    ("dyadic_pyramid", "compute_dyadic_scales", "compute_dyadic_downscaling"),
    ("scripts.convert_chunks", "convert_chunks", "convert_chunks_for_scale"),
    ("scripts.slices_to_precomputed", "main", "slices_to_raw_chunks"),
    ("scripts.mesh_to_precomputed", "mesh_file_to_precomputed", "store_file"),
    ("scripts.scale_stats", "show_scale_file_info", "show_scales_info"),
    ("scripts.volume_to_precomputed_pyramid", "volume_to_precomputed_pyramid",
     "compute_dyadic_scales"),
    ("scripts.volume_to_precomputed_pyramid", "volume_to_precomputed_pyramid",
     "nibabel_image_to_precomputed"),
]


def driver_chain(repo, col, shorts=None):
    """C19 and the conversion properties: a command that returns success has
    run its conversion step: every path of the driver that does not raise or
    return a non-zero status passes the call that does the work."""
    rule = "E-EXIT.driver-chain"
    from .core import nodes_passing
    n = 0
    for ms, qn, callee in DRIVER_CHAIN:
        if shorts is not None and ms not in shorts:
            continue
        if not repo.has_func(ms, qn):
            continue
        fn = repo.func(ms, qn)
        cfg = fn.cfg()

        def is_work(c, callee=callee):
            return (call_name(c) or "").split(".")[-1] == callee or (
                isinstance(c.func, ast.Attribute) and c.func.attr == callee)
        work = nodes_passing(fn, is_work)
        # error exits: `return <non-zero constant>`
        err = []
        for st in stmts_of(fn.node):
            if isinstance(st, ast.Return) and st.value is not None and \
                    const_int(st.value) not in (None, 0):
                k = cfg.node_of(st)
                if k is not None:
                    err.append(k)
        # loops over possibly empty collections legitimately skip the call;
        # the loop header then counts as the work site
        for st in stmts_of(fn.node):
            if isinstance(st, (ast.For, ast.While)) and any(
                    is_work(c) for c in calls_in(st)):
                k = cfg.node_of(st)
                if k is not None:
                    work.append(k)
        n += 1
        if not work:
            col.add(rule, fn, "%s(...) reached" % callee, True,
                    "no call of %s in %s or its local helpers" % (callee,
                                                                  fn.key),
                    undecided=True)
            continue
        ok = cfg.every_path_passes(cfg.entry, cfg.exit, work + err)
        path = None
        if not ok:
            p_ = cfg.path(cfg.entry, cfg.exit, avoiding=work + err)
            path = [norm(x.ast)[:50] if x.ast is not None else x.label
                    for x in (p_ or [])]
        col.add(rule, fn, "%s(...) on every successful path" % callee, ok,
                "" if ok else "%s can return normally (status 0) without "
                "having called %s: the command reports success although "
                "nothing was converted / written" % (fn.qualname, callee),
                path=path)
    return n


# ---------------------------------------------------------------------
def encoder_dispatch(repo, col):
    """C03/C02/C10: the encoding named in the info selects the matching
    codec class (branch polarity of the dispatch)."""
    rule = "E-SIB.tables.encoder"
    top = repo.func("chunk_encoding", "get_encoder")
    want = {"raw": "RawChunkEncoder",
            "compressed_segmentation": "CompressedSegmentationEncoder",
            "jpeg": "JpegChunkEncoder"}
    seen = 0
    for fn in helper_closure(top):
        owner = enclosing_stmt_map(fn.node)
        for c in calls_in(fn.node):
            nm = call_name(c) or ""
            if nm not in want.values():
                continue
            st = owner.get(id(c))
            ctx = _tests_enclosing(fn.node, st) if st is not None else None
            if not ctx:
                continue
            enc = None
            for t, tr in ctx:
                for a in holds(t, tr):
                    for b in (a, a.flipped()):
                        if b.op == "==" and isinstance(b.right, ast.Constant) \
                                and b.right.value in want:
                            enc = b.right.value
            if enc is None:
                continue
            seen += 1
            ok = want[enc] == nm
            col.add(rule, fn, "%s -> %s" % (enc, nm), ok, "" if ok else
                    "encoding %r constructs %s" % (enc, nm), node=c)
    if seen == 0:
        col.add(rule, top, "encoding -> codec class", True,
                "dispatch is not an if/elif on the encoding name",
                undecided=True)


# ---------------------------------------------------------------------
def chunk_name_component_order(repo, col):
    """C12: chunk file names list the six coordinates in the order
    xmin, xmax, ymin, ymax, zmin, zmax (the components 0..5 of chunk_coords);
    swapping min and max of one axis keeps the axis roles and is only visible
    here."""
    rule = "E-SIB.store.name-order"
    n = 0
    for ms, qn in (("file_accessor", "FileAccessor._chunk_path"),
                   ("file_accessor", "FileAccessor._flat_chunk_basename"),
                   ("http_accessor", "HttpAccessor.chunk_relative_url")):
        if not repo.has_func(ms, qn):
            continue
        fn = repo.func(ms, qn)
        for h in helper_closure(fn):
            hdefs = local_defs(h.node)
            params = [p_ for p_ in h.params if p_ not in ("self", "cls")]
            for c in calls_in(h.node):
                if not (isinstance(c.func, ast.Attribute)
                        and c.func.attr == "format" and len(c.args) == 6
                        and all(isinstance(a, ast.Name) for a in c.args)):
                    continue
                idx, src = [], set()
                for a in c.args:
                    ds = [d for d in hdefs.get(a.id, [])
                          if d.index is not None and
                          isinstance(d.value, ast.Name)]
                    if len(ds) != 1:
                        idx.append(None)
                        continue
                    idx.append(ds[0].index)
                    src.add(ds[0].value.id)
                if None in idx or len(src) != 1:
                    continue
                n += 1
                ok = idx == [0, 1, 2, 3, 4, 5]
                col.add(rule, h, norm(c)[:70], ok, "" if ok else
                        "the six coordinates are formatted in the order %s "
                        "of chunk_coords instead of 0..5: chunks are stored "
                        "under names no reader looks for" % idx, node=c)
    if n == 0:
        col.add(rule, "file_accessor:FileAccessor._chunk_path",
                "format(xmin, xmax, ymin, ymax, zmin, zmax)", True,
                "six-coordinate format call not recognised", undecided=True)
