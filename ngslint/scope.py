"""Which functions belong to a property: the functions its anchors name
(properties.jsonl, anchors.mechanism[].where) and everything they call inside
the package.  The generic rules that every property shares (swapped arguments,
crossed roles, truth-value tests of optional numbers, ...) report only inside
that set: a defect elsewhere in an anchor *file* is a defect, but not a
violation of this property."""
import ast
import json
import os
import re

from .core import PKG, calls_in, dotted, resolve_local_call, _partial_target

_WHERE = {}

# method names shared with files, dicts and lists: no evidence about the class
GENERIC_METHODS = {"close", "read", "write", "get", "pop", "keys", "append",
                   "open", "seek", "flush", "items", "update", "copy",
                   "format", "values", "index", "count", "extend", "tell"}


def _where_strings(pid):
    if not _WHERE:
        from .report import VERIF
        try:
            for line in open(os.path.join(VERIF, "properties.jsonl")):
                rec = json.loads(line)
                _WHERE[rec["id"]] = [m.get("where", "") for m in
                                     rec["anchors"].get("mechanism", [])]
        except OSError:
            pass
    return _WHERE.get(pid, [])


def _all_functions(repo):
    for m in repo.modules.values():
        for f in m.functions.values():
            yield m, f


def _seed_functions(repo, pid):
    """Functions named by the property's anchors (today's names; a name that
    no longer exists is skipped: the property-specific rules fail closed on
    vanished anchors, this set only scopes the generic ones)."""
    shorts = sorted((m.short for m in repo.modules.values()),
                    key=len, reverse=True)
    by_short = {m.short: m for m in repo.modules.values()}
    seeds = []
    for where in _where_strings(pid):
        where = re.sub(r"\([^)]*\)", " ", where).replace("scripts/", "scripts.")
        last_mod, last_cls = None, None
        for piece in re.split(r"[/;,]", where):
            words = [w for w in re.findall(r"[A-Za-z_][\w.*]*", piece)]
            for w in words:
                w = w.strip(".")
                hit = False
                # module-qualified
                for sh in shorts:
                    if w == sh or w.startswith(sh + "."):
                        m = by_short[sh]
                        rest = w[len(sh) + 1:]
                        last_mod = m
                        if rest in ("", "*"):
                            seeds.extend(m.functions.values())
                            hit = True
                        elif rest.endswith(".*") and rest[:-2] in m.classes:
                            last_cls = m.classes[rest[:-2]]
                            seeds.extend(last_cls.methods.values())
                            hit = True
                        elif rest in m.classes:
                            last_cls = m.classes[rest]
                            seeds.extend(last_cls.methods.values())
                            hit = True
                        elif rest in m.functions:
                            f = m.functions[rest]
                            seeds.append(f)
                            if f.cls is not None:
                                last_cls = f.cls
                            hit = True
                        elif rest.endswith(".main") and "*" in rest:
                            hit = True
                        if not hit and rest and rest != "*":
                            # moved to another module of the package (and
                            # imported back): a class / function of that name
                            # that is unique in the package
                            head = rest.split(".")[0]
                            homes = [mm for mm in repo.modules.values()
                                     if head in mm.classes or
                                     head in mm.functions]
                            if len(homes) == 1 and homes[0] is not m:
                                hm = homes[0]
                                tail = rest[len(head) + 1:]
                                if head in hm.classes:
                                    last_cls = hm.classes[head]
                                    if tail in ("", "*"):
                                        seeds.extend(
                                            last_cls.methods.values())
                                        hit = True
                                    elif tail in last_cls.methods:
                                        seeds.append(last_cls.methods[tail])
                                        hit = True
                                    else:
                                        seeds.extend(
                                            last_cls.methods.values())
                                        hit = True
                                elif rest in hm.functions:
                                    seeds.append(hm.functions[rest])
                                    hit = True
                                elif head in hm.functions:
                                    seeds.append(hm.functions[head])
                                    hit = True
                        if hit:
                            break
                        if "." in rest:
                            # a nested function / method that has gone: the
                            # longest prefix that still names something
                            parts = rest.split(".")
                            for k in range(len(parts) - 1, 0, -1):
                                pre = ".".join(parts[:k])
                                if pre in m.functions:
                                    seeds.append(m.functions[pre])
                                    hit = True
                                    break
                                if pre in m.classes:
                                    last_cls = m.classes[pre]
                                    seeds.extend(last_cls.methods.values())
                                    hit = True
                                    break
                        break
                if hit:
                    continue
                if w.startswith("scripts.*"):
                    name = w.split(".")[-1]
                    for m in repo.modules.values():
                        if m.short.startswith("scripts.") and \
                                name in m.functions:
                            seeds.append(m.functions[name])
                    continue
                # relative to the last class / module
                if last_cls is not None and w in last_cls.methods:
                    seeds.append(last_cls.methods[w])
                    continue
                if last_mod is not None:
                    if w in last_mod.functions:
                        seeds.append(last_mod.functions[w])
                        continue
                    if w in last_mod.classes:
                        last_cls = last_mod.classes[w]
                        seeds.extend(last_cls.methods.values())
                        continue
                    if "." in w and w.split(".")[0] in last_mod.classes:
                        c = last_mod.classes[w.split(".")[0]]
                        meth = w.split(".", 1)[1]
                        last_cls = c
                        if meth in c.methods:
                            seeds.append(c.methods[meth])
                            continue
                # a class or function name that is unique in the package
                cands = [f for _, f in _all_functions(repo)
                         if f.qualname == w]
                ccands = [c for m in repo.modules.values()
                          for c in m.classes.values() if c.name == w]
                if len(ccands) == 1:
                    last_cls = ccands[0]
                    seeds.extend(last_cls.methods.values())
                elif len(cands) == 1:
                    seeds.append(cands[0])
    return seeds


def _callees(repo, fn, method_index, class_index):
    out = []
    m = fn.module
    for c in calls_in(fn.node):
        h = resolve_local_call(fn, c) or _partial_target(fn, c)
        if h is not None:
            out.append(h)
            continue
        nm = dotted(c.func) or ""
        tgt = m.resolve(nm) if nm else None
        if tgt and tgt.startswith(PKG + "."):
            modname, leaf = tgt.rsplit(".", 1)
            om = repo.modules.get(modname)
            if om is not None:
                if leaf in om.functions:
                    out.append(om.functions[leaf])
                    continue
                if leaf in om.classes:
                    out.extend(om.classes[leaf].methods.values())
                    continue
        # constructor of a class of this module
        if isinstance(c.func, ast.Name) and c.func.id in m.classes:
            out.extend(m.classes[c.func.id].methods.values())
            continue
        # x.y.method(...): a method name only one class of the package defines
        if isinstance(c.func, ast.Attribute):
            owners = method_index.get(c.func.attr, [])
            if len(owners) == 1:
                out.append(owners[0])
            elif 1 < len(owners) <= 5 and c.func.attr not in GENERIC_METHODS:
                # an interface with a few implementations: any of them may
                # be the receiver
                out.extend(owners)
    # properties / attributes read through self: methods of the own class
    if fn.cls is not None:
        for n in ast.walk(fn.node):
            if isinstance(n, ast.Attribute) and isinstance(n.value, ast.Name) \
                    and n.value.id in ("self", "cls"):
                for cc in repo.mro(fn.cls):
                    if n.attr in cc.methods:
                        out.append(cc.methods[n.attr])
                        break
    # nested functions, and the function a nested one closes over
    for f in m.functions.values():
        if f.parent is fn:
            out.append(f)
    if fn.parent is not None:
        out.append(fn.parent)
    return out


def _constructor_of(repo, fn):
    if fn.cls is not None:
        for cc in repo.mro(fn.cls):
            if "__init__" in cc.methods:
                return cc.methods["__init__"]
    return None


def _self_attrs(node, ctx):
    return {n.attr for n in ast.walk(node)
            if isinstance(n, ast.Attribute) and isinstance(n.value, ast.Name)
            and n.value.id == "self" and isinstance(n.ctx, ctx)}


def mechanism_closure(repo, pid, depth=3):
    """Set of function keys ('module:qualname') in the property's scope."""
    cache = repo.__dict__.setdefault("_mech_closure", {})
    if pid in cache:
        return cache[pid]
    method_index = {}
    for m in repo.modules.values():
        for c in m.classes.values():
            for name, f in c.methods.items():
                if not (name.startswith("__") and name.endswith("__")):
                    method_index.setdefault(name, []).append(f)
    seen = {}
    frontier = []
    for f in _seed_functions(repo, pid):
        if f.key not in seen:
            seen[f.key] = f
            frontier.append(f)
    for _ in range(depth):
        nxt = []
        for f in frontier:
            for h in _callees(repo, f, method_index, None):
                if h.key not in seen:
                    seen[h.key] = h
                    nxt.append(h)
        frontier = nxt
    # whoever builds the objects whose methods the anchors name configures
    # the mechanism: functions that call the constructor of such a class
    seed_classes = {f.cls.name: f.cls for f in _seed_functions(repo, pid)
                    if f.cls is not None}
    if seed_classes:
        builders = set(seed_classes)          # names that build the objects
        for _ in range(3):
            grew = False
            for m in repo.modules.values():
                # registry tables: NAME = {...: builder, ...}
                for cname, cval in m.constants.items():
                    if cname in builders:
                        continue
                    if any(isinstance(n, ast.Name) and n.id in builders
                           for n in ast.walk(cval)):
                        builders.add(cname)
                        grew = True
                for f in m.functions.values():
                    leaf = f.qualname.split(".")[-1]
                    if f.key in seen and leaf in builders:
                        continue
                    refs = any(isinstance(n, ast.Name) and n.id in builders
                               and isinstance(n.ctx, ast.Load)
                               for n in ast.walk(f.node)) or any(
                        (dotted(c.func) or "").split(".")[-1] in builders
                        for c in calls_in(f.node))
                    if refs and f.cls is None and f.parent is None:
                        if f.key not in seen:
                            seen[f.key] = f
                            for h in _callees(repo, f, method_index, None):
                                seen.setdefault(h.key, h)
                        if leaf not in builders:
                            builders.add(leaf)
                            grew = True
            if not grew:
                break
    # the constructor sets up the state the methods in scope read: it is in
    # scope for the statements that assign those attributes
    ctor = {}
    for f in list(seen.values()):
        k = _constructor_of(repo, f)
        if k is None or k.key in seen:
            continue
        ctor.setdefault(k.key, (k, set()))[1].update(
            _self_attrs(f.node, ast.Load))
    # helpers the constructor calls to compute those attributes
    for k, attrs in list(ctor.values()):
        for st in ast.walk(k.node):
            if isinstance(st, ast.stmt) and st is not k.node and \
                    _self_attrs(st, ast.Store) & attrs:
                for c in calls_in(st):
                    h = resolve_local_call(k, c)
                    if h is not None and h.key not in seen:
                        seen[h.key] = h
                        for h2 in _callees(repo, h, method_index, None):
                            seen.setdefault(h2.key, h2)
    cache[pid] = Scope(set(seen), ctor)
    return cache[pid]


class Scope:
    def __init__(self, keys, ctor):
        self.keys = keys
        self.ctor = ctor        # key -> (constructor, attributes read)

    def __len__(self):
        return len(self.keys)

    def __iter__(self):
        return iter(self.keys)

    def covers(self, site, line=None):
        if site in self.keys:
            return True
        if site in self.ctor:
            k, attrs = self.ctor[site]
            if line is None:
                return True
            for st in ast.walk(k.node):
                if isinstance(st, ast.stmt) and st is not k.node and \
                        st.lineno <= line <= getattr(st, "end_lineno",
                                                     st.lineno):
                    stored = _self_attrs(st, ast.Store)
                    if stored and not (stored & attrs):
                        return False
                    if stored & attrs:
                        return True
            return True
        return False


def reach(repo, fn, depth=3):
    """fn and the package functions it can reach (local helpers, imported
    functions, constructors, methods with a unique name or of a small
    interface)."""
    method_index = {}
    for m in repo.modules.values():
        for c in m.classes.values():
            for name, f in c.methods.items():
                if not (name.startswith("__") and name.endswith("__")):
                    method_index.setdefault(name, []).append(f)
    seen = {fn.key: fn}
    frontier = [fn]
    for _ in range(depth):
        nxt = []
        for f in frontier:
            for h in _callees(repo, f, method_index, None):
                if h.key not in seen:
                    seen[h.key] = h
                    nxt.append(h)
        frontier = nxt
    return list(seen.values())
