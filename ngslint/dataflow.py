"""Intra-procedural def-use facts and guard semantics (no execution)."""
import ast

from .core import (block_always_raises, dotted, norm, stmts_of, walk_local,
                   const_int)


class Def:
    __slots__ = ("name", "value", "index", "elem", "stmt", "kind")

    def __init__(self, name, value, stmt, index=None, elem=False, kind="assign"):
        self.name = name      # bound name
        self.value = value    # expression the name is bound from
        self.index = index    # position when unpacked from a non-tuple value
        self.elem = elem      # True: bound to an *element* of value (loops)
        self.stmt = stmt
        self.kind = kind      # assign | aug | for | comp | with | param


def _bind_target(target, value, stmt, out, elem=False, kind="assign"):
    if isinstance(target, ast.Name):
        out.setdefault(target.id, []).append(
            Def(target.id, value, stmt, elem=elem, kind=kind))
    elif isinstance(target, (ast.Tuple, ast.List)):
        if isinstance(value, (ast.Tuple, ast.List)) and not elem \
                and len(value.elts) == len(target.elts):
            for t, v in zip(target.elts, value.elts):
                _bind_target(t, v, stmt, out, kind=kind)
        elif elem and isinstance(value, ast.Call) \
                and dotted(value.func) == "zip" \
                and len(value.args) == len(target.elts):
            for t, v in zip(target.elts, value.args):
                _bind_target(t, v, stmt, out, elem=True, kind=kind)
        elif elem and isinstance(value, ast.Call) \
                and dotted(value.func) == "enumerate" and value.args \
                and len(target.elts) == 2:
            _bind_target(target.elts[0], value, stmt, out, elem=True,
                         kind=kind)
            _bind_target(target.elts[1], value.args[0], stmt, out, elem=True,
                         kind=kind)
        else:
            for i, t in enumerate(target.elts):
                if isinstance(t, ast.Starred):
                    t = t.value
                if isinstance(t, ast.Name):
                    out.setdefault(t.id, []).append(
                        Def(t.id, value, stmt, index=i, elem=elem, kind=kind))
                else:
                    _bind_target(t, value, stmt, out, elem=elem, kind=kind)
    elif isinstance(target, ast.Starred):
        _bind_target(target.value, value, stmt, out, elem=elem, kind=kind)


def local_defs(fnode):
    """name -> [Def] for a function (parameters, assignments, loops,
    comprehensions, with-as).  Nested function bodies are not included."""
    out = {}
    a = fnode.args
    for p in a.posonlyargs + a.args + a.kwonlyargs:
        out.setdefault(p.arg, []).append(Def(p.arg, None, fnode, kind="param"))
    for n in walk_local(fnode, include_root=False):
        if isinstance(n, ast.Assign):
            for t in n.targets:
                _bind_target(t, n.value, n, out)
        elif isinstance(n, ast.AnnAssign) and n.value is not None:
            _bind_target(n.target, n.value, n, out)
        elif isinstance(n, ast.AugAssign):
            if isinstance(n.target, ast.Name):
                out.setdefault(n.target.id, []).append(
                    Def(n.target.id, n.value, n, kind="aug"))
        elif isinstance(n, (ast.For, ast.AsyncFor)):
            _bind_target(n.target, n.iter, n, out, elem=True, kind="for")
        elif isinstance(n, ast.comprehension):
            _bind_target(n.target, n.iter, n, out, elem=True, kind="comp")
        elif isinstance(n, (ast.With, ast.AsyncWith)):
            for item in n.items:
                if item.optional_vars is not None:
                    _bind_target(item.optional_vars, item.context_expr, n,
                                 out, kind="with")
        elif isinstance(n, ast.NamedExpr):
            _bind_target(n.target, n.value, n, out)
    return out


def names_in(node):
    return {n.id for n in walk_local(node) if isinstance(n, ast.Name)}


def closure_names(fnode, start_names, defs=None, max_iter=50):
    """All local names the given names (transitively) derive from."""
    defs = defs if defs is not None else local_defs(fnode)
    seen = set()
    work = list(start_names)
    while work and max_iter:
        n = work.pop()
        if n in seen:
            continue
        seen.add(n)
        for d in defs.get(n, []):
            if d.value is not None:
                work.extend(names_in(d.value) - seen)
    return seen


def derives_from(fnode, name, predicate, defs=None):
    """True if some defining expression in the def-use closure of `name`
    satisfies predicate(expr)."""
    defs = defs if defs is not None else local_defs(fnode)
    for n in closure_names(fnode, [name], defs):
        for d in defs.get(n, []):
            if d.value is not None and predicate(d.value):
                return True
    return False


# ---------------------------------------------------------------------
# guard semantics
# ---------------------------------------------------------------------
_NEG = {ast.Lt: ast.GtE, ast.LtE: ast.Gt, ast.Gt: ast.LtE, ast.GtE: ast.Lt,
        ast.Eq: ast.NotEq, ast.NotEq: ast.Eq, ast.In: ast.NotIn,
        ast.NotIn: ast.In, ast.Is: ast.IsNot, ast.IsNot: ast.Is}
_SYM = {ast.Lt: "<", ast.LtE: "<=", ast.Gt: ">", ast.GtE: ">=",
        ast.Eq: "==", ast.NotEq: "!=", ast.In: "in", ast.NotIn: "not in",
        ast.Is: "is", ast.IsNot: "is not"}
_FLIP = {"<": ">", "<=": ">=", ">": "<", ">=": "<=", "==": "==", "!=": "!="}


class Atom:
    """left <op> right known to hold (elementwise when under all/any)."""
    __slots__ = ("left", "op", "right", "node")

    def __init__(self, left, op, right, node):
        self.left, self.op, self.right, self.node = left, op, right, node

    def flipped(self):
        return Atom(self.right, _FLIP.get(self.op, self.op), self.left,
                    self.node)

    def __repr__(self):
        return "%s %s %s" % (norm(self.left), self.op, norm(self.right))


def _compare_atoms(cmp, truth):
    """A (possibly chained) comparison.  When true every link holds; when
    false and there is a single link its negation holds."""
    out = []
    lefts = [cmp.left] + cmp.comparators[:-1]
    if truth:
        for l, op, r in zip(lefts, cmp.ops, cmp.comparators):
            out.append(Atom(l, _SYM[type(op)], r, cmp))
    elif len(cmp.ops) == 1:
        op = _NEG[type(cmp.ops[0])]
        out.append(Atom(cmp.left, _SYM[op], cmp.comparators[0], cmp))
    return out


ANY_FUNCS = {"any", "np.any", "numpy.any"}
ALL_FUNCS = {"all", "np.all", "numpy.all"}


def holds(test, truth):
    """Atoms known to hold when `test` evaluates to `truth`."""
    if isinstance(test, ast.Compare):
        return _compare_atoms(test, truth)
    if isinstance(test, ast.UnaryOp) and isinstance(test.op, ast.Not):
        return holds(test.operand, not truth)
    if isinstance(test, ast.BoolOp):
        if (isinstance(test.op, ast.And) and truth) or \
                (isinstance(test.op, ast.Or) and not truth):
            out = []
            for v in test.values:
                out += holds(v, truth)
            return out
        return []
    if isinstance(test, ast.Call):
        name = dotted(test.func)
        if name in ALL_FUNCS and truth and test.args:
            return _elementwise(test.args[0], True)
        if name in ANY_FUNCS and not truth and test.args:
            return _elementwise(test.args[0], False)
    if isinstance(test, ast.Call) and isinstance(test.func, ast.Attribute) \
            and not test.args and test.func.attr in ("any", "all") and \
            isinstance(test.func.value, (ast.Compare, ast.BoolOp,
                                         ast.UnaryOp)):
        # method form: (a >= b).any()
        if test.func.attr == "all" and truth:
            return holds(test.func.value, True)
        if test.func.attr == "any" and not truth:
            return holds(test.func.value, False)
        return []
    if isinstance(test, (ast.Name, ast.Attribute, ast.Subscript, ast.Call)):
        # bare truthiness: `if flag:` / `if not arr.flags.writeable:`
        return [Atom(test, "truthy" if truth else "falsy",
                     ast.Constant(value=None), test)]
    return []


def _elementwise(arg, truth):
    if isinstance(arg, (ast.GeneratorExp, ast.ListComp)):
        return holds(arg.elt, truth)
    if isinstance(arg, ast.Tuple) and len(arg.elts) == 1:
        return _elementwise(arg.elts[0], truth)
    # numpy elementwise comparison: np.any(a > b)
    return holds(arg, truth)


def raise_guards(fnode):
    """[(if_stmt, atoms holding on the fall-through path)] for every
    `if <test>: ...raise` whose body always raises, plus asserts
    (atoms holding when the assertion passes)."""
    out = []
    flags = flag_table(fnode)

    def H(test, truth):
        if flags and names_in(test) & set(flags):
            test = expand(test, flags, depth=2)
        return holds(test, truth)
    for st in stmts_of(fnode):
        if isinstance(st, ast.If) and block_always_raises(st.body) \
                and not st.orelse:
            out.append((st, H(st.test, False)))
        elif isinstance(st, ast.If) and st.orelse \
                and block_always_raises(st.orelse) \
                and not block_always_raises(st.body):
            out.append((st, H(st.test, True)))
        elif isinstance(st, ast.Assert):
            out.append((st, H(st.test, True)))
    return out


def flag_table(fnode):
    """{name: boolean expression} for locals bound once to a comparison /
    boolean combination / any-all reduction (`bad = np.any(a >= n)`), so
    that `if bad: raise` is read as a guard on the comparison."""
    table = {}
    for name, v in single_defs(fnode).items():
        if isinstance(v, (ast.Compare, ast.BoolOp)) or (
                isinstance(v, ast.UnaryOp) and isinstance(v.op, ast.Not)):
            table[name] = v
        elif isinstance(v, ast.Call):
            nm = dotted(v.func) or ""
            if nm in ALL_FUNCS or nm in ANY_FUNCS or (
                    isinstance(v.func, ast.Attribute) and not v.args
                    and v.func.attr in ("any", "all")
                    and isinstance(v.func.value, ast.Compare)):
                table[name] = v
    return table


def guard_kind(st):
    return "assert" if isinstance(st, ast.Assert) else "if-raise"


def is_zero(node):
    return const_int(node) == 0


# ---------------------------------------------------------------------
# helpers for refactoring-tolerant matching
# ---------------------------------------------------------------------
import copy as _copy


class _Subst(ast.NodeTransformer):
    def __init__(self, table):
        self.table = table

    def visit_Name(self, node):
        if isinstance(node.ctx, ast.Load) and node.id in self.table:
            return _copy.deepcopy(self.table[node.id])
        return node


def single_defs(fnode, defs=None):
    """{name: value expr} for locals bound exactly once by a plain assignment
    (not a parameter, loop or augmented assignment)."""
    defs = defs if defs is not None else local_defs(fnode)
    out = {}
    for name, ds in defs.items():
        real = [d for d in ds if d.kind != "param"]
        if len(real) == 1 and real[0].kind == "assign" and \
                real[0].index is None and real[0].value is not None and \
                not real[0].elem:
            if len(ds) == len(real):
                out[name] = real[0].value
    return out


def expand(expr, table, depth=3):
    """expr with single-definition locals replaced by their definitions."""
    cur = _copy.deepcopy(expr)
    for _ in range(depth):
        new = _Subst(table).visit(_copy.deepcopy(cur))
        ast.fix_missing_locations(new)
        if ast.dump(new) == ast.dump(cur):
            break
        cur = new
    return cur


def simple_return(fnode):
    """(params, return expr, local single defs) if the function is a
    straight-line helper: docstring, plain assignments, one final return."""
    body = [s for s in fnode.body
            if not (isinstance(s, ast.Expr) and isinstance(s.value, ast.Constant))]
    if not body or not isinstance(body[-1], ast.Return) or \
            body[-1].value is None:
        return None
    for s in body[:-1]:
        if not isinstance(s, (ast.Assign, ast.AnnAssign)):
            return None
    a = fnode.args
    params = [x.arg for x in a.posonlyargs + a.args]
    table = single_defs(fnode)
    return params, expand(body[-1].value, table), table


def inline_helper_call(call, callee_fnode, drop_self=False):
    """Expression computed by `call` if the callee is a straight-line helper,
    with parameters replaced by the call's arguments; else None."""
    sr = simple_return(callee_fnode)
    if sr is None:
        return None
    params, ret, _ = sr
    if drop_self and params and params[0] in ("self", "cls"):
        params = params[1:]
    table = {}
    for p, a in zip(params, call.args):
        table[p] = a
    for k in call.keywords:
        if k.arg in params:
            table[k.arg] = k.value
    if len(table) < len([p for p in params]):
        # defaults not modelled
        a = callee_fnode.args
        ndef = len(a.defaults)
        if len(table) < len(params) - ndef:
            return None
        allp = [x.arg for x in a.posonlyargs + a.args]
        for p, dv in zip(allp[len(allp) - ndef:], a.defaults):
            if p in params and p not in table:
                table[p] = dv
    return expand(ret, table, depth=1)


def def_values(module, fnode, name, defs=None):
    """Expressions a local name can be bound to, with tuple unpacking from
    literal tuples and from straight-line helper functions resolved
    (`gx, gy, gz = _grid_size(...)` -> the first element the helper
    returns, parameters substituted)."""
    defs = defs if defs is not None else local_defs(fnode)
    out = []
    for d in defs.get(name, []):
        v = d.value
        if v is None or d.kind == "aug":
            continue
        if d.index is None or d.elem:
            out.append(v)
            continue
        if isinstance(v, ast.Name):
            for d2 in defs.get(v.id, []):
                if isinstance(d2.value, (ast.Tuple, ast.List)) and \
                        d.index < len(d2.value.elts):
                    out.append(d2.value.elts[d.index])
            continue
        if isinstance(v, ast.Call) and module is not None:
            nm = dotted(v.func)
            callee = module.functions.get(nm) if nm else None
            if callee is not None:
                inl = inline_helper_call(v, callee.node)
                if isinstance(inl, (ast.Tuple, ast.List)) and \
                        d.index < len(inl.elts):
                    out.append(inl.elts[d.index])
    return out


def control_names(fnode, stmt):
    """Names read by the tests of the if/while statements that enclose
    `stmt` in fnode (its control dependences)."""
    found = []

    def visit(stmts, ctx):
        for st in stmts:
            if st is stmt:
                found.append(set(ctx))
                return True
            if isinstance(st, (ast.FunctionDef, ast.AsyncFunctionDef,
                               ast.ClassDef)):
                continue
            c2 = ctx
            if isinstance(st, (ast.If, ast.While)):
                c2 = ctx | names_in(st.test)
            for field in ("body", "orelse", "finalbody"):
                sub = getattr(st, field, None)
                if isinstance(sub, list) and sub and \
                        isinstance(sub[0], ast.stmt):
                    if visit(sub, c2):
                        return True
            for h in getattr(st, "handlers", []) or []:
                if visit(h.body, c2):
                    return True
        return False
    visit(fnode.body, frozenset())
    return found[0] if found else set()


def alias_table(fnode, defs=None):
    """{name: expression} for locals that are pure aliases of a component of
    another value: `cx = chunk_size[0]`, `nx, ny, nz = size` (-> size[0] ..),
    `s = info['size']`.  Only names with exactly one definition."""
    defs = defs if defs is not None else local_defs(fnode)
    out = {}
    for name, ds in defs.items():
        real = [d for d in ds if d.kind != "param"]
        if len(real) != 1 or len(ds) != 1:
            continue
        d = real[0]
        if d.kind != "assign" or d.value is None or d.elem:
            continue
        if d.index is not None:
            if isinstance(d.value, (ast.Name, ast.Attribute, ast.Subscript)):
                out[name] = ast.Subscript(
                    value=_copy.deepcopy(d.value),
                    slice=ast.Constant(value=d.index), ctx=ast.Load())
            elif isinstance(d.value, (ast.Tuple, ast.List)) and \
                    d.index < len(d.value.elts):
                e = d.value.elts[d.index]
                if isinstance(e, (ast.Name, ast.Attribute, ast.Subscript)):
                    out[name] = e
            continue
        if isinstance(d.value, (ast.Subscript, ast.Attribute)) and not any(
                isinstance(x, ast.Call) for x in ast.walk(d.value)):
            out[name] = d.value
    for v in out.values():
        ast.fix_missing_locations(v)
    return out


def index_elementwise(expr):
    """`tuple(f(a, b) for a, b in zip(A, B))[k]` -> `f(A[k], B[k])` (also
    list(...), [...], a single iterable, enumerate-free): element k of an
    element-wise construction is that construction on the k-th elements."""
    import copy as _cp

    class R(ast.NodeTransformer):
        def visit_Subscript(self, n):
            n = self.generic_visit(n)
            if not (isinstance(n.slice, ast.Constant) and
                    isinstance(n.slice.value, int)):
                return n
            v = n.value
            if isinstance(v, ast.Call) and isinstance(v.func, ast.Name) and \
                    v.func.id in ("tuple", "list") and len(v.args) == 1 and \
                    not v.keywords:
                v = v.args[0]
            if isinstance(v, (ast.Tuple, ast.List)):
                k = n.slice.value
                if -len(v.elts) <= k < len(v.elts) and not any(
                        isinstance(e, ast.Starred) for e in v.elts):
                    return _cp.deepcopy(v.elts[k])
                return n
            if not isinstance(v, (ast.GeneratorExp, ast.ListComp)) or \
                    len(v.generators) != 1:
                return n
            g = v.generators[0]
            if g.ifs or g.is_async:
                return n
            it = g.iter
            if isinstance(it, ast.Call) and isinstance(it.func, ast.Name) and \
                    it.func.id == "zip" and not it.keywords:
                srcs = it.args
                tgts = g.target.elts if isinstance(
                    g.target, (ast.Tuple, ast.List)) else None
                if tgts is None or len(tgts) != len(srcs):
                    return n
            else:
                srcs, tgts = [it], [g.target]
            if not all(isinstance(t, ast.Name) for t in tgts):
                return n
            sub = {t.id: ast.Subscript(value=_cp.deepcopy(s_),
                                       slice=ast.Constant(value=n.slice.value),
                                       ctx=ast.Load())
                   for t, s_ in zip(tgts, srcs)}

            class S(ast.NodeTransformer):
                def visit_Name(self, x):
                    if isinstance(x.ctx, ast.Load) and x.id in sub:
                        return _cp.deepcopy(sub[x.id])
                    return x
            out = S().visit(_cp.deepcopy(v.elt))
            return ast.fix_missing_locations(ast.copy_location(out, n))
    return R().visit(_cp.deepcopy(expr))
