"""Normal forms of integer index expressions.

poly = {monomial: coeff}; monomial = tuple(sorted(atom strings)); () is the
constant term.  Non-polynomial sub-expressions (min, floor/ceil division,
subscripts, names, attribute reads) are atoms written canonically, so two
expressions are equal iff their canonical strings are equal."""
import ast

from .core import norm, dotted, const_int


class NotInt(Exception):
    pass


def _pmul(a, b):
    out = {}
    for ma, ca in a.items():
        for mb, cb in b.items():
            m = tuple(sorted(ma + mb))
            out[m] = out.get(m, 0) + ca * cb
    return {m: c for m, c in out.items() if c != 0}


def _padd(a, b, sign=1):
    out = dict(a)
    for m, c in b.items():
        out[m] = out.get(m, 0) + sign * c
    return {m: c for m, c in out.items() if c != 0}


def pstr(p):
    if not p:
        return "0"
    parts = []
    for m in sorted(p, key=lambda m: (len(m), m)):
        c = p[m]
        term = "*".join(m) if m else ""
        if not m:
            parts.append(str(c))
        elif c == 1:
            parts.append(term)
        else:
            parts.append("%d*%s" % (c, term))
    return " + ".join(parts)


def atom(s):
    return {(s,): 1}


def const(c):
    return {(): c} if c else {}


def is_const(p):
    return all(m == () for m in p)


def const_val(p):
    return p.get((), 0)


_MODULE = [None]


class using_module:
    """Context manager: while active, integer constants of the module and
    calls to its straight-line helper functions are expanded by poly()."""

    def __init__(self, module):
        self.module = module

    def __enter__(self):
        self.prev = _MODULE[0]
        _MODULE[0] = self.module

    def __exit__(self, *a):
        _MODULE[0] = self.prev


def poly(node, subst=None, depth=0):
    """Polynomial normal form of an AST expression.  `subst` maps local names
    to AST expressions that replace them (one level of definitions)."""
    subst = subst or {}
    mod = _MODULE[0]
    c = const_int(node)
    if c is not None:
        return const(c)
    if isinstance(node, ast.Name):
        if node.id in subst and depth < 4:
            return poly(subst[node.id], subst, depth + 1)
        if mod is not None and node.id in mod.constants and \
                const_int(mod.constants[node.id]) is not None:
            return const(const_int(mod.constants[node.id]))
        return atom(node.id)
    if isinstance(node, ast.UnaryOp) and isinstance(node.op, ast.USub):
        return _pmul(const(-1), poly(node.operand, subst, depth))
    if isinstance(node, ast.UnaryOp) and isinstance(node.op, ast.UAdd):
        return poly(node.operand, subst, depth)
    if isinstance(node, ast.BinOp):
        if isinstance(node.op, ast.Add):
            return _padd(poly(node.left, subst, depth),
                         poly(node.right, subst, depth))
        if isinstance(node.op, ast.Sub):
            return _padd(poly(node.left, subst, depth),
                         poly(node.right, subst, depth), -1)
        if isinstance(node.op, ast.Mult):
            return _pmul(poly(node.left, subst, depth),
                         poly(node.right, subst, depth))
        if isinstance(node.op, ast.FloorDiv):
            a, b = poly(node.left, subst, depth), poly(node.right, subst, depth)
            # -(-a // b) is handled by the caller through USub; here look for
            # (a - 1) // b   (completed to CEILDIV by a following + 1)
            return atom("FLOORDIV(%s, %s)" % (pstr(a), pstr(b)))
        if isinstance(node.op, ast.Mod):
            a, b = poly(node.left, subst, depth), poly(node.right, subst, depth)
            return atom("MOD(%s, %s)" % (pstr(a), pstr(b)))
        if isinstance(node.op, ast.Div):
            a, b = poly(node.left, subst, depth), poly(node.right, subst, depth)
            return atom("DIV(%s, %s)" % (pstr(a), pstr(b)))
        if isinstance(node.op, ast.LShift):
            a, b = poly(node.left, subst, depth), poly(node.right, subst, depth)
            if is_const(b) and 0 <= const_val(b) < 64:
                return _pmul(a, const(1 << const_val(b)))
            return atom("SHL(%s, %s)" % (pstr(a), pstr(b)))
        if isinstance(node.op, ast.Pow):
            a, b = poly(node.left, subst, depth), poly(node.right, subst, depth)
            if is_const(a) and is_const(b) and const_val(b) >= 0:
                return const(const_val(a) ** const_val(b))
            return atom("POW(%s, %s)" % (pstr(a), pstr(b)))
        raise NotInt(norm(node))
    if isinstance(node, ast.Call):
        nm = dotted(node.func) or ""
        short = nm.split(".")[-1]
        args = node.args
        if mod is not None and nm in mod.functions and depth < 4 and \
                short != "ceil_div":
            from .dataflow import inline_helper_call
            inl = inline_helper_call(node, mod.functions[nm].node)
            if inl is not None:
                return poly(inl, subst, depth + 1)
        if short in ("min", "max") and len(args) >= 2:
            items = sorted(pstr(poly(a, subst, depth)) for a in args)
            return atom("%s(%s)" % (short.upper(), ", ".join(items)))
        if short == "ceil_div" and len(args) == 2:
            return atom("CEILDIV(%s, %s)" % (pstr(poly(args[0], subst, depth)),
                                             pstr(poly(args[1], subst, depth))))
        if short in ("int", "round") and len(args) == 1:
            return poly(args[0], subst, depth)
        if short == "ceil" and len(args) == 1 and \
                isinstance(args[0], ast.BinOp) and \
                isinstance(args[0].op, ast.Div):
            return atom("CEILDIV(%s, %s)" % (
                pstr(poly(args[0].left, subst, depth)),
                pstr(poly(args[0].right, subst, depth))))
        if short == "len" and len(args) == 1:
            return atom("len(%s)" % norm(args[0]))
        raise NotInt(norm(node))
    if isinstance(node, (ast.Subscript, ast.Attribute)):
        return atom(norm(node))
    if isinstance(node, ast.IfExp):
        raise NotInt(norm(node))
    raise NotInt(norm(node))


def canon(node, subst=None):
    """Canonical string with the ceil-division idioms recognised:
    (a - 1)//b + 1, -(-a//b), ceil_div(a, b), ceil(a / b)  ->  CEILDIV(a, b)."""
    p = poly(node, subst)
    return pstr(_fold_ceildiv(p))


def _fold_ceildiv(p):
    # FLOORDIV(a + -1, b) + 1  ->  CEILDIV(a, b)
    out = dict(p)
    for m, c in list(p.items()):
        if len(m) == 1 and m[0].startswith("FLOORDIV(") and c == 1 and \
                out.get((), 0) >= 1:
            inner = m[0][len("FLOORDIV("):-1]
            a, b = _split_top(inner)
            if a.startswith("-1 + "):
                a2 = a[len("-1 + "):]
                del out[m]
                out[()] = out.get((), 0) - 1
                if out[()] == 0:
                    del out[()]
                key = ("CEILDIV(%s, %s)" % (a2, b),)
                out[key] = out.get(key, 0) + 1
        # -FLOORDIV(-a, b) -> CEILDIV(a, b)
        if len(m) == 1 and m[0].startswith("FLOORDIV(") and c == -1:
            inner = m[0][len("FLOORDIV("):-1]
            a, b = _split_top(inner)
            if a.startswith("-1*"):
                del out[m]
                key = ("CEILDIV(%s, %s)" % (a[3:], b),)
                out[key] = out.get(key, 0) + 1
    return out


def _split_top(s):
    depth = 0
    for i, ch in enumerate(s):
        if ch == "(":
            depth += 1
        elif ch == ")":
            depth -= 1
        elif ch == "," and depth == 0:
            return s[:i].strip(), s[i + 1:].strip()
    return s, ""


def canon_src(src, subst=None):
    return canon(ast.parse(src, mode="eval").body, subst)
